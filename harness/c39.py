"""C39 — introspection is faithful and the protocol hash is a stable identity.

K (correspondence, model vs implementation)
    * `build_describe_batch` on the server's own method table (and on shuffled tables): rows, metadata, and the *exact bytes*
      `compute_protocol_hash` feeds to SHA-256 (hashlib is instrumented for the duration of the call) vs the Lean model's
      rows / metadata / pre-image; `sha256(model pre-image) == real hash`.
    * `compute_protocol_hash` / `parse_describe_batch` on mutated batches (unknown method types, corrupt schema blobs,
      duplicate names, inconsistent flags, undecodable / missing metadata).
    * Env laws the theorems assume about pyarrow: every serialized schema is one encapsulated IPC message
      (FF FF FF FF, int32 length, exactly that many bytes) and `read_schema(serialize(s)) == s`.
    * `str.encode()` and `str <=` vs the model's `utf8` / `leName`.
O (property on the implementation, through `RpcServer`)
    * generated services x ALL single-point edits: `protocol_hash` equal <=> the edit is not wire relevant (decided from the
      edit's effect on the spec-level wire view, never from the code under test); globally: equal hash <=> equal wire view
      over every service built in the run; the confusable-name pairs (names containing the framing separators);
    * describe round trip over the pipe path (`introspect`), HTTP (`http_introspect`) equals the server's method table and the
      spec (kinds, flags, parameter names/nullability); still callable when the client's protocol version is absent, malformed
      or mismatched (pipe + HTTP);
    * the hash recomputed in a fresh interpreter (different PYTHONHASHSEED) is identical;
    * header / nested record types that EXTEND another record (child adds / overrides fields), every server built on fresh
      classes after one of several touch orders of the related classes (parent first, root only, leaf first, a sibling service
      using the parent built first): same definition => same hash, and the described header / parameter schemas are the ones
      the definition states (computed by the harness from the spec, not read from the code's cached `ARROW_SCHEMA`);
    * a version-mismatched client on ONE pipe connection (real `RpcConnection` + `introspect`): after each refused call
      (unary, header stream, typed producer, exchange, untyped stream) `__describe__` still answers, with the same description.
K additionally: `_ArrowSchemaDescriptor.__get__` on generated class forests x touch sequences vs the model's `touchAll`.
"""

import copy
import hashlib
import io
import json
import os
import subprocess
import sys
from dataclasses import dataclass, field
from enum import Enum
from typing import Any, Protocol

import pyarrow as pa

from harness.common import rpcutil
from harness.common.lean import b2j, s2j

PROPERTY = "C39"
LEAN_MODULES = ["VgiVerif.Proofs.C39"]
OBLIGATIONS = [
    "VgiVerif.C39.C39_shapes",
    "VgiVerif.C39.C39_faithful",
    "VgiVerif.C39.C39_describe_hash",
    "VgiVerif.C39.C39_exempt",
    "VgiVerif.C39.C39_schema_definition_only",
    "VgiVerif.C39.C39_insensitive",
    "VgiVerif.C39.C39_stable",
    "VgiVerif.C39.C39_not_inputs",
    "VgiVerif.C39.C39_sensitive_names",
    "VgiVerif.C39.C39_sensitive",
    "VgiVerif.C39.C39_hash_identity",
    "VgiVerif.C39.encapsulated_selfDelimiting",
]
TRUSTED = [
    "pyarrow: Schema.serialize / ipc.read_schema round trip and the encapsulated-message framing of a serialized schema "
    "(Env laws; both checked on every schema the run produces), RecordBatch.from_pydict / as_py, KeyValueMetadata <-> dict",
    "hashlib.sha256: collision-freeness is a hypothesis of C39_hash_identity (never an axiom); the pre-image bytes are compared exactly",
    "rpc_methods (type hints -> RpcMethodInfo / Arrow schemas) is exercised end to end by O but not modelled: the model starts at the method table",
    "the IPC transport carries the describe batch and its custom metadata unchanged (exercised over pipe and HTTP)",
]
RULE = (
    "hand-written corpus + seeded generated services (0-6 methods; unary/stream; 12 parameter types; optional/defaults/docs; "
    "producer/exchange/raw state classes; 3 header types; ASCII, non-ASCII, astral and punctuation names) x every applicable "
    "single-point edit at every position (rename protocol/method/param, retype, nullability, unary<->stream, has_return, "
    "producer<->exchange<->raw, same-kind state class swap, header add/remove/retype, add/remove/reorder params and methods, "
    "docstrings, defaults, server id, protocol_version); header / nested record types incl. records that extend another record "
    "(child adds / overrides fields), every server on fresh classes after one of 5 touch orders of the related classes; "
    "version-declaring services: [refused call, describe]* on one pipe connection for every method kind; "
    "a case is one (service, edit, touch order) triple, distinct by spec JSON; "
    "non-trivial when the service has >= 1 method"
)
PARTIAL = [
    "type hints -> Arrow schema inference (rpc_methods) and Arrow's schema serialization are runtime behaviour the model takes as given "
    "(schemas are opaque values with serialize/read_schema laws)",
]
MANIFEST = {
    "level": "proof",
    "text": "Lean proof that parse(build(service)) describes exactly the service's method table, that the SHA-256 pre-image is a "
            "function of the wire view only (server id, docs, defaults, versions, method order are not inputs) and that the "
            "separator framing is injective on wire views for every service the (repaired) code accepts; the pre-image program, "
            "separators, field order and name guards are extracted from the source; model pre-image compared byte-for-byte with "
            "what the real code hashes; all single-point edits of generated services checked on the real server.",
    "note": "schema bytes are assumed to be single encapsulated IPC messages (checked at run time); SHA-256 collision-freeness is a hypothesis",
    "technique": "Lean 4 proof: prefix-code / separator framing injectivity + extraction of the h.update program + differential correspondence",
}

# ============================================================================================ spec of a service


from vgi_rpc.rpc import (  # noqa: E402
    AnnotatedBatch,
    CallContext,
    ExchangeState,
    OutputCollector,
    ProducerState,
    RpcServer,
    Stream,
    StreamState,
)
from vgi_rpc.utils import ArrowSerializableDataclass  # noqa: E402


class Color(Enum):
    RED = "red"
    BLUE = "blue"


@dataclass(frozen=True)
class Point(ArrowSerializableDataclass):
    x: float
    y: float


# Header / nested record dataclasses are *specs*: the classes are created afresh for every server that is built, because
# `ARROW_SCHEMA` is cached on the class on first access and the ORDER in which a class and its ancestors are first
# touched is a dimension of the run (the hash must be a function of the definition only, not of that order).
# name -> (parent record or None, own fields [(name, type key, nullable)]); a child may add fields and override inherited ones
RECORDS: dict[str, tuple[str | None, list[tuple[str, str, bool]]]] = {
    "HdrA": (None, [("a", "int", False)]),
    "HdrB": (None, [("a", "int", False), ("b", "str", False)]),
    "HdrC": (None, [("x", "float", True)]),
    "HdrA2": ("HdrA", [("shard", "int", False), ("note", "str", True)]),      # child adds fields
    "HdrB2": ("HdrB", [("b", "int", True)]),                                  # child overrides an inherited field
    "HdrA3": ("HdrA2", [("z", "float", False), ("a", "str", False)]),         # grandchild: adds + overrides
    "RecP": (None, [("k", "str", False)]),
    "RecQ": ("RecP", [("v", "float", True)]),
}
HEADER_KEYS = ["HdrA", "HdrB", "HdrC", "HdrA2", "HdrB2", "HdrA3"]
SCALARS: dict[str, tuple[Any, pa.DataType]] = {"int": (int, pa.int64()), "float": (float, pa.float64()), "str": (str, pa.utf8())}
TOUCH_ORDERS = ["none", "parent-first", "root-only", "leaf-first", "sibling-service"]


def record_chain(name: str) -> list[str]:
    """[root, ..., name]"""
    out = [name]
    while RECORDS[out[0]][0] is not None:
        out.insert(0, RECORDS[out[0]][0])  # type: ignore[arg-type]
    return out


def record_fields(name: str) -> list[tuple[str, str, bool]]:
    """Dataclass field order: inherited fields keep their position, an override replaces the type in place."""
    fields: dict[str, tuple[str, str, bool]] = {}
    for r in record_chain(name):
        for f in RECORDS[r][1]:
            fields[f[0]] = f
    return list(fields.values())


def record_schema(name: str) -> pa.Schema:
    """The Arrow schema the *definition* of the record stands for (independent of the code under test)."""
    return pa.schema([pa.field(n, SCALARS[t][1], nullable=nl) for n, t, nl in record_fields(name)])


class ClassSet:
    """Fresh dataclasses for every record (one set per server built)."""

    def __init__(self) -> None:
        self.cls: dict[str, type] = {}
        for name in RECORDS:
            self._make(name)

    def _make(self, name: str) -> type:
        if name in self.cls:
            return self.cls[name]
        parent, own = RECORDS[name]
        base = ArrowSerializableDataclass if parent is None else self._make(parent)
        ann = {n: ((SCALARS[t][0] | None) if nl else SCALARS[t][0]) for n, t, nl in own}
        c = dataclass(frozen=True)(type(name, (base,), {"__annotations__": ann, "__module__": __name__}))
        self.cls[name] = c
        return c

    def touch(self, order: str, used: list[str]) -> None:
        """Materialise `ARROW_SCHEMA` of classes related to the records a service uses, in the given order."""
        for u in used:
            chain = record_chain(u)
            if order == "parent-first":
                for r in chain[:-1]:
                    _ = self.cls[r].ARROW_SCHEMA  # type: ignore[attr-defined]
            elif order == "root-only":
                _ = self.cls[chain[0]].ARROW_SCHEMA  # type: ignore[attr-defined]
            elif order == "leaf-first":
                for r in reversed(chain):
                    _ = self.cls[r].ARROW_SCHEMA  # type: ignore[attr-defined]
            elif order == "sibling-service" and len(chain) > 1:
                # another service of the same process, built first, uses the parent record as its header
                def scan(self_: Any) -> Any: ...
                scan.__annotations__ = {"return": Stream[ProdA, self.cls[chain[-2]]]}  # type: ignore[valid-type]
                P = type("Sibling", (Protocol,), {"scan": scan, "__module__": __name__})
                RpcServer(P, type("SiblingImpl", (), {"scan": scan})(), enable_describe=True)


@dataclass
class ProdA(ProducerState):
    n: int = 0

    def produce(self, out: OutputCollector, ctx: CallContext) -> None:
        out.finish()


@dataclass
class ProdB(ProducerState):
    s: str = ""

    def produce(self, out: OutputCollector, ctx: CallContext) -> None:
        out.finish()


@dataclass
class ExchA(ExchangeState):
    n: int = 0

    def exchange(self, input: AnnotatedBatch, out: OutputCollector, ctx: CallContext) -> None:
        out.emit(input.batch)


@dataclass
class ExchB(ExchangeState):
    f: float = 0.0

    def exchange(self, input: AnnotatedBatch, out: OutputCollector, ctx: CallContext) -> None:
        out.emit(input.batch)


@dataclass
class RawA(StreamState):
    n: int = 0

    def process(self, input: AnnotatedBatch, out: OutputCollector, ctx: CallContext) -> None:
        out.finish()


@dataclass
class RawB(StreamState):
    k: bool = False

    def process(self, input: AnnotatedBatch, out: OutputCollector, ctx: CallContext) -> None:
        out.finish()


# type key -> (python annotation, a default value, expected Arrow type *as the spec of wire identity* — two keys with the same
# Arrow type are the same on the wire)
TYPES: dict[str, tuple[Any, Any, pa.DataType]] = {
    "int": (int, 7, pa.int64()),
    "float": (float, 1.5, pa.float64()),
    "str": (str, "x", pa.utf8()),
    "bytes": (bytes, b"b", pa.binary()),
    "bool": (bool, True, pa.bool_()),
    "list_int": (list[int], [1], pa.list_(pa.int64())),
    "list_str": (list[str], ["a"], pa.list_(pa.utf8())),
    "dict_str_int": (dict[str, int], {"a": 1}, pa.map_(pa.utf8(), pa.int64())),
    "dict_str_float": (dict[str, float], {"a": 1.0}, pa.map_(pa.utf8(), pa.float64())),
    "set_int": (frozenset[int], frozenset({1}), pa.list_(pa.int64())),
    "enum": (Color, Color.RED, pa.dictionary(pa.int16(), pa.utf8())),
    "point": (Point, Point(1.0, 2.0), pa.binary()),
}
NESTED = {"list_recp": "RecP", "list_recq": "RecQ", "list_hdra2": "HdrA2"}  # list[<record>] -> list<struct<record fields>>
for _k, _r in NESTED.items():
    TYPES[_k] = (None, [], pa.list_(pa.struct(list(record_schema(_r)))))
RESULT_TYPES = [k for k in TYPES if k != "point" and k not in NESTED]


def used_records(s: "SvcSpec") -> list[str]:
    out: list[str] = []
    for m in s.methods:
        for k in [m.header if m.kind == "stream" else None] + [NESTED.get(p.type) for p in m.params]:
            if k is not None and k not in out:
                out.append(k)
    return out
STATES: dict[str, tuple[type, bool | None]] = {
    "ProdA": (ProdA, False), "ProdB": (ProdB, False), "ExchA": (ExchA, True), "ExchB": (ExchB, True),
    "RawA": (RawA, None), "RawB": (RawB, None),
}


@dataclass
class ParamSpec:
    name: str
    type: str
    nullable: bool = False
    default: bool = False  # has a default value
    default_alt: bool = False  # which of two default values
    doc: str | None = None


@dataclass
class MethodSpec:
    name: str
    kind: str  # "unary" | "stream"
    params: list[ParamSpec] = field(default_factory=list)
    ret: str | None = None  # unary: result type key or None
    ret_nullable: bool = False
    state: str = "ProdA"  # stream: key of STATES
    header: str | None = None  # stream: key of RECORDS (HEADER_KEYS)
    doc: str | None = None


@dataclass
class SvcSpec:
    name: str
    methods: list[MethodSpec] = field(default_factory=list)
    server_id: str = "srv"
    version: str | None = None
    doc: str | None = None


def spec_json(s: SvcSpec) -> dict[str, Any]:
    return json.loads(json.dumps(s, default=lambda o: o.__dict__))


def spec_from_json(j: dict[str, Any]) -> SvcSpec:
    return SvcSpec(name=j["name"], server_id=j["server_id"], version=j["version"], doc=j["doc"],
                   methods=[MethodSpec(**{**m, "params": [ParamSpec(**p) for p in m["params"]]}) for m in j["methods"]])


def wire_view(s: SvcSpec) -> str:
    """Spec-level wire view (property text: protocol name + per method kind, schemas, header schema, exchange flag)."""
    ms = []
    for m in s.methods:
        params = [(p.name, str(TYPES[p.type][2]), p.nullable) for p in m.params]
        if m.kind == "unary":
            res = None if m.ret is None else (str(TYPES[m.ret][2]), m.ret_nullable)
            ms.append((m.name, "unary", m.ret is not None, params, res, None, None))
        else:
            hdr = None if m.header is None else str(record_schema(m.header))
            ms.append((m.name, "stream", False, params, None, hdr, STATES[m.state][1]))
    ms.sort(key=lambda t: t[0])
    return json.dumps([s.name, ms], ensure_ascii=True)


# ============================================================================================ spec -> real classes


def _hint(key: str, nullable: bool, cs: ClassSet) -> Any:
    t = list[cs.cls[NESTED[key]]] if key in NESTED else TYPES[key][0]  # type: ignore[name-defined]
    return (t | None) if nullable else t


def _default_value(p: ParamSpec) -> Any:
    if p.type in NESTED:
        return None if (p.default_alt and p.nullable) else []
    if p.default_alt:
        return None if p.nullable else copy.deepcopy(TYPES[p.type][1])
    return {"int": 0, "float": 0.0, "str": "", "bytes": b"", "bool": False}.get(p.type, copy.deepcopy(TYPES[p.type][1]))


def make_func(m: MethodSpec, cs: ClassSet) -> Any:
    parts = ["self"]
    ns: dict[str, Any] = {}
    star = False
    seen_default = False
    for i, p in enumerate(m.params):
        if p.default:
            seen_default = True
            ns[f"_d{i}"] = _default_value(p)
            parts.append(f"{p.name}=_d{i}")
        else:
            if seen_default and not star:
                parts.append("*")
                star = True
            parts.append(p.name)
    exec(f"def _f({', '.join(parts)}): ...", ns)  # noqa: S102 - parameter names are generated identifiers
    f = ns["_f"]
    ann: dict[str, Any] = {p.name: _hint(p.type, p.nullable, cs) for p in m.params}
    if m.kind == "unary":
        ann["return"] = type(None) if m.ret is None else _hint(m.ret, m.ret_nullable, cs)
    else:
        st = STATES[m.state][0]
        ann["return"] = Stream[st] if m.header is None else Stream[st, cs.cls[m.header]]  # type: ignore[valid-type]
    f.__annotations__ = ann
    f.__name__ = f.__qualname__ = m.name
    doc = m.doc
    pdocs = [(p.name, p.doc) for p in m.params if p.doc]
    if pdocs:
        doc = (doc or "Method.") + "\n\nArgs:\n" + "".join(f"    {n}: {d}\n" for n, d in pdocs)
    f.__doc__ = doc
    return f


def make_classes(s: SvcSpec, cs: ClassSet | None = None) -> tuple[type, Any]:
    cs = cs or ClassSet()
    ns: dict[str, Any] = {"__module__": __name__}
    if s.doc is not None:
        ns["__doc__"] = s.doc
    if s.version is not None:
        ns["protocol_version"] = s.version
    ins: dict[str, Any] = {}
    for m in s.methods:
        f = make_func(m, cs)
        ns[m.name] = f
        ins[m.name] = f
    P = type(s.name, (Protocol,), ns)
    Impl = type("Impl", (), ins)
    return P, Impl()


def make_server(s: SvcSpec, touch: str = "none") -> RpcServer:
    """Build the server on a fresh set of record classes, after touching related classes in the given order."""
    cs = ClassSet()
    cs.touch(touch, used_records(s))
    P, impl = make_classes(s, cs)
    return RpcServer(P, impl, server_id=s.server_id, enable_describe=True)


# ============================================================================================ generators

IDENT = ["add", "get", "put", "a", "b", "zeta", "Alpha", "x1", "gen", "run", "méthode", "名前", "naïve", "ω", "do_it", "Z", "aa", "ab"]
ODD = ["a|b", "a-b", "a b", "a.b", "𝒳", "a\x1db", "a\x7fb", "x|", "|", "\u00e9", "e\u0301", "a\tb", "a\nb", "1st", "", "\U0001F600"]
SEPS = ["\x1e", "\x1f"]
PARAM_NAMES = ["a", "b", "c", "n", "x", "y", "key", "value", "données", "π"]
PROTO_NAMES = ["Svc", "Calculator", "A", "B", "Proto2", "Sérvice", "Σ", "My Service", "A|B", "P|", "svc"]


def gen_param(rng: Any, used: set[str]) -> ParamSpec:
    name = rng.choice([n for n in PARAM_NAMES if n not in used] or ["p%d" % len(used)])
    used.add(name)
    t = rng.choice(list(TYPES))
    return ParamSpec(name=name, type=t, nullable=rng.random() < 0.3, default=rng.random() < 0.3, default_alt=rng.random() < 0.5,
                     doc=rng.choice([None, None, "the value", "doc é"]))


def gen_method(rng: Any, used: set[str]) -> MethodSpec:
    pool = IDENT if rng.random() < 0.85 else ODD
    cand = [n for n in pool if n not in used and not n.startswith("_") and n != ""]
    name = rng.choice(cand or ["m%d" % len(used)])
    used.add(name)
    pu: set[str] = set()
    params = [gen_param(rng, pu) for _ in range(rng.choice([0, 1, 1, 2, 2, 3, 5]))]
    doc = rng.choice([None, "Do it.", "Doc with\nlines.", "ünï"])
    if rng.random() < 0.55:
        ret = rng.choice([None] + RESULT_TYPES)
        return MethodSpec(name=name, kind="unary", params=params, ret=ret, ret_nullable=ret is not None and rng.random() < 0.3, doc=doc)
    return MethodSpec(name=name, kind="stream", params=params, state=rng.choice(list(STATES)),
                      header=rng.choice([None] * 6 + HEADER_KEYS), doc=doc)


def gen_service(rng: Any) -> SvcSpec:
    used: set[str] = set()
    n = rng.choice([0, 1, 1, 2, 2, 3, 3, 4, 6])
    return SvcSpec(name=rng.choice(PROTO_NAMES), methods=[gen_method(rng, used) for _ in range(n)],
                   server_id=rng.choice(["srv", "s-1", "", "sérver", "a" * 12]),
                   version=rng.choice([None, None, "1.2.3", "0.1.0", "10.0.7"]), doc=rng.choice([None, "A service."]))


CORPUS: list[SvcSpec] = [
    SvcSpec("Empty"),
    SvcSpec("Calc", [MethodSpec("add", "unary", [ParamSpec("a", "int"), ParamSpec("b", "int", default=True)], ret="int", doc="Add.")],
            version="1.2.3"),
    SvcSpec("Streams", [
        MethodSpec("gen", "stream", [ParamSpec("n", "int")], state="ProdA"),
        MethodSpec("xch", "stream", [ParamSpec("f", "float", nullable=True)], state="ExchA", header="HdrA"),
        MethodSpec("raw", "stream", [], state="RawA", header="HdrB"),
        MethodSpec("noop", "unary", []),
    ], server_id="id-1"),
    SvcSpec("Mixed", [
        MethodSpec("b", "unary", [ParamSpec("p", "point"), ParamSpec("e", "enum", nullable=True)], ret="str", ret_nullable=True),
        MethodSpec("a", "unary", [ParamSpec("m", "dict_str_int"), ParamSpec("l", "list_str")], ret="list_int"),
        MethodSpec("B", "unary", [ParamSpec("s", "set_int")], ret="bytes"),
        MethodSpec("ab", "stream", [], state="ExchB", header="HdrC"),
        MethodSpec("é", "unary", [], ret="bool"),
    ], version="0.1.0"),
    SvcSpec("A|B", [MethodSpec("x|y", "unary", [ParamSpec("a", "int")], ret="int")]),
    # one method of every kind, version-declaring (a mismatched client: refused call, then describe, on one connection)
    SvcSpec("Kinds", [
        MethodSpec("ping", "unary", [], ret="str"),
        MethodSpec("rows", "stream", [ParamSpec("n", "int")], state="ProdA"),
        MethodSpec("rows_with_header", "stream", [ParamSpec("n", "int")], state="ProdB", header="HdrA"),
        MethodSpec("rows_untyped", "stream", [ParamSpec("n", "int")], state="RawA"),
        MethodSpec("echo", "stream", [], state="ExchA"),
        MethodSpec("store", "unary", [ParamSpec("p", "point"), ParamSpec("m", "dict_str_int", default=True)]),
    ], version="2.0.0"),
    # header / nested record types that EXTEND another record (child adds / overrides fields)
    SvcSpec("ScanV2", [MethodSpec("scan", "stream", [ParamSpec("table", "str")], state="RawA", header="HdrA2")], version="2.0.0"),
    SvcSpec("Derived", [
        MethodSpec("over", "stream", [], state="ProdA", header="HdrB2"),
        MethodSpec("deep", "stream", [ParamSpec("rs", "list_recq")], state="ExchA", header="HdrA3"),
        MethodSpec("put", "unary", [ParamSpec("ps", "list_recp"), ParamSpec("hs", "list_hdra2", nullable=True)], ret="int"),
        MethodSpec("rows", "stream", [ParamSpec("n", "int")], state="ProdB"),
    ], version="1.2.3"),
]


# ---- single-point edits -------------------------------------------------------------------------------------------


def _other(rng: Any, pool: list[Any], cur: Any) -> Any:
    return rng.choice([x for x in pool if x != cur])


def edits(s: SvcSpec, rng: Any) -> list[tuple[str, SvcSpec]]:
    """Every applicable single-point edit at every position (the replacement value is drawn from rng)."""
    out: list[tuple[str, SvcSpec]] = []

    def ed(kind: str, f: Any) -> None:
        t = copy.deepcopy(s)
        if f(t) is not False:
            out.append((kind, t))

    ed("rename-protocol", lambda t: setattr(t, "name", _other(rng, PROTO_NAMES, t.name)))
    ed("server-id", lambda t: setattr(t, "server_id", _other(rng, ["srv", "other", "zz9", ""], t.server_id)))
    ed("protocol-version", lambda t: setattr(t, "version", _other(rng, [None, "1.2.3", "2.0.0", "1.3.0"], t.version)))
    ed("protocol-doc", lambda t: setattr(t, "doc", _other(rng, [None, "A service.", "Other doc."], t.doc)))
    ed("reorder-methods", lambda t: t.methods.reverse() if len(t.methods) > 1 else False)
    used = {m.name for m in s.methods}

    def add_method(t: SvcSpec) -> None:
        t.methods.insert(rng.randrange(len(t.methods) + 1), gen_method(rng, set(used)))

    ed("add-method", add_method)
    for i, m in enumerate(s.methods):
        ed("remove-method", lambda t, i=i: t.methods.pop(i))
        ed("rename-method", lambda t, i=i: setattr(t.methods[i], "name", rng.choice([n for n in IDENT + ODD[:6] if n not in used])))
        ed("method-doc", lambda t, i=i: setattr(t.methods[i], "doc", _other(rng, [None, "Do it.", "Changed."], t.methods[i].doc)))
        if m.kind == "unary":
            def to_stream(t: SvcSpec, i: int = i) -> None:
                t.methods[i].kind = "stream"
                t.methods[i].ret = None
                t.methods[i].ret_nullable = False
                t.methods[i].state = rng.choice(list(STATES))
            ed("unary->stream", to_stream)
            if m.ret is None:
                ed("return-none->value", lambda t, i=i: setattr(t.methods[i], "ret", rng.choice(RESULT_TYPES)))
            else:
                def ret_none(t: SvcSpec, i: int = i) -> None:
                    t.methods[i].ret = None
                    t.methods[i].ret_nullable = False
                ed("return-value->none", ret_none)
                ed("retype-return", lambda t, i=i: setattr(t.methods[i], "ret", _other(rng, RESULT_TYPES, t.methods[i].ret)))
                ed("nullability-return", lambda t, i=i: setattr(t.methods[i], "ret_nullable", not t.methods[i].ret_nullable))
        else:
            def to_unary(t: SvcSpec, i: int = i) -> None:
                t.methods[i].kind = "unary"
                t.methods[i].header = None
                t.methods[i].ret = rng.choice([None] + RESULT_TYPES)
            ed("stream->unary", to_unary)
            cur = STATES[m.state][1]
            for target, label in ((True, "exchange"), (False, "producer"), (None, "raw")):
                if target != cur:
                    ed(f"state-kind->{label}", lambda t, i=i, target=target: setattr(
                        t.methods[i], "state", rng.choice([k for k, v in STATES.items() if v[1] == target])))
            ed("state-class-same-kind", lambda t, i=i, cur=cur: setattr(
                t.methods[i], "state", rng.choice([k for k, v in STATES.items() if v[1] == cur and k != t.methods[i].state])))
            if m.header is None:
                ed("header-add", lambda t, i=i: setattr(t.methods[i], "header", rng.choice(HEADER_KEYS)))
            else:
                ed("header-remove", lambda t, i=i: setattr(t.methods[i], "header", None))
                ed("header-retype", lambda t, i=i: setattr(t.methods[i], "header", _other(rng, HEADER_KEYS, t.methods[i].header)))
        pused = {p.name for p in m.params}

        def add_param(t: SvcSpec, i: int = i, pused: set[str] = pused) -> None:
            t.methods[i].params.insert(rng.randrange(len(t.methods[i].params) + 1), gen_param(rng, set(pused)))

        ed("add-param", add_param)
        for j, _p in enumerate(m.params):
            ed("remove-param", lambda t, i=i, j=j: t.methods[i].params.pop(j))
            ed("rename-param", lambda t, i=i, j=j, pused=pused: setattr(
                t.methods[i].params[j], "name", rng.choice([n for n in PARAM_NAMES + ["q", "r2"] if n not in pused])))
            ed("retype-param", lambda t, i=i, j=j: setattr(
                t.methods[i].params[j], "type", _other(rng, list(TYPES), t.methods[i].params[j].type)))
            ed("nullability-param", lambda t, i=i, j=j: setattr(t.methods[i].params[j], "nullable", not t.methods[i].params[j].nullable))
            ed("default-toggle", lambda t, i=i, j=j: setattr(t.methods[i].params[j], "default", not t.methods[i].params[j].default))
            if _p.default:
                ed("default-value", lambda t, i=i, j=j: setattr(t.methods[i].params[j], "default_alt", not t.methods[i].params[j].default_alt))
            ed("param-doc", lambda t, i=i, j=j: setattr(
                t.methods[i].params[j], "doc", _other(rng, [None, "the value", "changed"], t.methods[i].params[j].doc)))
            if j + 1 < len(m.params):
                def swap(t: SvcSpec, i: int = i, j: int = j) -> None:
                    ps = t.methods[i].params
                    ps[j], ps[j + 1] = ps[j + 1], ps[j]
                ed("reorder-params", swap)
    return out


# ============================================================================================ observing the real code


class Recorder:
    """Instrument hashlib.sha256 for the duration of one call: capture exactly the bytes that were hashed."""

    def __init__(self) -> None:
        self.captured: list[bytes] = []

    def __enter__(self) -> "Recorder":
        self._real = hashlib.sha256
        rec = self

        class _H:
            def __init__(self, data: bytes = b"") -> None:
                self._h = rec._real()
                self._parts: list[bytes] = []
                if data:
                    self.update(data)

            def update(self, b: Any) -> None:
                self._parts.append(bytes(b))
                self._h.update(b)

            def hexdigest(self) -> str:
                rec.captured.append(b"".join(self._parts))
                return self._h.hexdigest()

            def digest(self) -> bytes:
                rec.captured.append(b"".join(self._parts))
                return self._h.digest()

        hashlib.sha256 = _H  # type: ignore[assignment,misc]
        return self

    def __exit__(self, *a: Any) -> None:
        hashlib.sha256 = self._real  # type: ignore[assignment]


def model_method(name: str, info: Any) -> dict[str, Any]:
    return {
        "name": s2j(name),
        "kind": info.method_type.value,
        "has_return": bool(info.has_return),
        "params": b2j(info.params_schema.serialize().to_pybytes()),
        "result": b2j(info.result_schema.serialize().to_pybytes()),
        "header": b2j(info.header_type.ARROW_SCHEMA.serialize().to_pybytes()) if info.header_type is not None else None,
        "is_exchange": info.is_exchange,
        "doc": s2j(info.doc) if info.doc is not None else None,
        "defaults": [[s2j(k), s2j(repr(v))] for k, v in info.param_defaults.items()],
        "types": [[s2j(k), s2j(repr(v))] for k, v in info.param_types.items()],
        "param_docs": [[s2j(k), s2j(v)] for k, v in info.param_docs.items()],
    }


def model_service(name: str, methods: Any, server_id: str, version: str | None) -> dict[str, Any]:
    return {"name": s2j(name), "server_id": s2j(server_id), "protocol_version": s2j(version) if version is not None else None,
            "methods": [model_method(n, i) for n, i in methods.items()]}


def rows_of_batch(batch: pa.RecordBatch) -> list[dict[str, Any]]:
    out = []
    for r in batch.to_pylist():
        out.append({"name": s2j(r["name"]), "method_type": s2j(r["method_type"]), "has_return": r["has_return"],
                    "params": b2j(r["params_schema_ipc"]), "result": b2j(r["result_schema_ipc"]), "has_header": r["has_header"],
                    "header": b2j(r["header_schema_ipc"]) if r["header_schema_ipc"] is not None else None,
                    "is_exchange": r["is_exchange"]})
    return out


def md_list(md: Any) -> list[list[str]]:
    return [[b2j(k), b2j(v)] for k, v in dict(md).items()] if md is not None else []


def has_surrogate(s: str) -> bool:
    return any(0xD800 <= ord(c) <= 0xDFFF for c in s)


class LoopTransport:
    """RpcTransport whose reader is produced by running `server.serve_one` on what was written."""

    def __init__(self, server: RpcServer) -> None:
        self._server = server
        self.writer = io.BytesIO()
        self._reader: io.BytesIO | None = None
        self.escaped: BaseException | None = None

    @property
    def reader(self) -> io.BytesIO:
        if self._reader is None:
            out, exc = rpcutil.serve_one_bytes(self._server, self.writer.getvalue())
            self.escaped = exc
            self._reader = io.BytesIO(out)
        return self._reader

    def close(self) -> None:
        pass


def schema_hex(s: pa.Schema | None) -> str | None:
    return None if s is None else s.serialize().to_pybytes().hex()


def canon_description(d: Any) -> dict[str, Any]:
    """ServiceDescription -> comparable dict (schemas by their canonical serialization, incl. metadata)."""
    return {
        "protocol_name": d.protocol_name, "request_version": d.request_version, "describe_version": d.describe_version,
        "protocol_hash": d.protocol_hash, "server_id": d.server_id, "protocol_version": d.protocol_version,
        "methods": [[n, {"name": m.name, "kind": m.method_type.value, "has_return": m.has_return, "params": schema_hex(m.params_schema),
                         "result": schema_hex(m.result_schema), "has_header": m.has_header, "header": schema_hex(m.header_schema),
                         "is_exchange": m.is_exchange}] for n, m in d.methods.items()],
    }


def canon_model_description(d: dict[str, Any]) -> dict[str, Any]:
    def sch(h: str | None) -> str | None:
        # the model's schema value is the blob read; canonicalise through pyarrow like the implementation's Schema object
        return None if h is None else pa.ipc.read_schema(pa.py_buffer(bytes.fromhex(h))).serialize().to_pybytes().hex()

    def j(x: list[int]) -> str:
        return "".join(chr(c) for c in x)

    return {
        "protocol_name": j(d["protocol_name"]), "request_version": j(d["request_version"]), "describe_version": j(d["describe_version"]),
        "protocol_hash": j(d["protocol_hash"]), "server_id": j(d["server_id"]), "protocol_version": j(d["protocol_version"]),
        "methods": [[j(n), {"name": j(v["name"]), "kind": v["kind"], "has_return": v["has_return"], "params": sch(v["params"]),
                            "result": sch(v["result"]), "has_header": v["has_header"], "header": sch(v["header"]),
                            "is_exchange": v["is_exchange"]}] for n, v in d["methods"]],
    }


# ============================================================================================ checks


class Run:
    def __init__(self, ctx: Any) -> None:
        self.ctx = ctx
        self.by_hash: dict[str, tuple[str, dict[str, Any]]] = {}
        self.by_view: dict[str, tuple[str, dict[str, Any]]] = {}
        self.blobs: set[bytes] = set()
        self.n_servers = 0
        self.pending: list[tuple[str, Any, Any]] = []  # (driver fn, args, callback(result)) — flushed in batches

    def ask(self, fn: str, args: Any, cb: Any) -> None:
        self.pending.append((fn, args, cb))
        if len(self.pending) >= 400:
            self.flush()

    def flush(self) -> None:
        if not self.pending or self.ctx.driver is None:
            self.pending = []
            return
        todo, self.pending = self.pending, []
        res = self.ctx.driver.batch([(fn, a) for fn, a, _ in todo])
        for (_fn, _a, cb), r in zip(todo, res):
            cb(r)

    # ---- building ------------------------------------------------------------------------------------
    def build(self, s: SvcSpec, touch: str = "none") -> tuple[RpcServer | None, str | None]:
        """(server, None) or (None, error class) — a construction error is ValueError('…framing separator…') or something else."""
        try:
            srv = make_server(s, touch)
            self.n_servers += 1
            return srv, None
        except ValueError as e:
            return None, "separator_in_name" if "framing separator" in str(e) else f"ValueError:{e}"
        except Exception as e:  # noqa: BLE001
            return None, f"{type(e).__name__}:{e}"

    # ---- O: global hash <-> wire view --------------------------------------------------------------------
    def register(self, s: SvcSpec, srv: RpcServer, case: dict[str, Any]) -> None:
        h, v = srv.protocol_hash, wire_view(s)
        if h in self.by_hash and self.by_hash[h][0] != v:
            sep = any(c in s.name or any(c in m.name for m in s.methods) for c in SEPS)
            self.ctx.fail({"a": self.by_hash[h][1], "b": spec_json(s)},
                          "C39:hash-collision:separator-in-name" if sep else "C39:hash-collision",
                          f"two services with different wire views share protocol_hash {h}")
        if v in self.by_view and self.by_view[v][0] != h:
            self.ctx.fail({"a": self.by_view[v][1], "b": spec_json(s)}, "C39:hash-unstable",
                          "two services with the same wire view have different protocol_hash")
        self.by_hash.setdefault(h, (v, spec_json(s)))
        self.by_view.setdefault(v, (h, spec_json(s)))

    # ---- O: one edit ---------------------------------------------------------------------------------------
    def check_edit(self, base: SvcSpec, base_srv: RpcServer, kind: str, edited: SvcSpec, touch: str = "none") -> RpcServer | None:
        ctx = self.ctx
        case = {"base": spec_json(base), "edit": kind, "edited": spec_json(edited), "touch": touch}
        relevant = wire_view(base) != wire_view(edited)
        ctx.case(case, nontrivial=bool(base.methods) or bool(edited.methods),
                 tags=(f"edit:{kind}", "relevant" if relevant else "not-relevant", f"touch:{touch}"))
        srv, err = self.build(edited, touch)
        if srv is None:
            if err != "separator_in_name" or not any(c in edited.name or any(c in m.name for m in edited.methods) for c in SEPS):
                ctx.fail(case, f"C39:edited-service-rejected:{kind}", f"server construction failed: {err}")
            return None
        same = srv.protocol_hash == base_srv.protocol_hash
        if (relevant and same) or (not relevant and not same):
            why = kind
            if touch != "none":
                plain, _ = self.build(edited)
                if plain is not None and plain.protocol_hash != srv.protocol_hash:
                    why = f"touch-order:{touch}"  # the edit is innocent: the same edited definition hashes differently by touch order
            if relevant and same:
                ctx.fail(case, f"C39:hash-insensitive:{why}", f"wire-relevant edit {kind} (classes touched: {touch}) left protocol_hash unchanged")
            else:
                ctx.fail(case, f"C39:hash-unstable:{why}", f"edit {kind} (classes touched: {touch}) is not wire relevant but protocol_hash changed")
        self.register(edited, srv, case)
        return srv

    # ---- K: build_describe_batch / hash pre-image ---------------------------------------------------------------
    def k_build(self, name: str, methods: Any, server_id: str, version: str | None, tag: str, expect_hash: str | None = None) -> None:
        from vgi_rpc.introspect import build_describe_batch
        from vgi_rpc.metadata import PROTOCOL_HASH_KEY

        ctx = self.ctx
        if ctx.driver is None or has_surrogate(name) or any(has_surrogate(n) for n in methods):
            return
        case = {"k": "build", "name": name, "methods": list(methods), "server_id": server_id, "version": version}
        ctx.case(case, nontrivial=len(methods) > 0, tags=(f"k:build:{tag}", f"methods:{min(len(methods), 4)}"))
        impl: dict[str, Any]
        with Recorder() as rec:
            try:
                batch, md = build_describe_batch(name, methods, server_id, version)
                impl = {"ok": True}
            except ValueError as e:
                impl = {"ok": False, "err": "separator_in_name" if "framing separator" in str(e) else f"ValueError:{e}"}
        captured = list(rec.captured)
        if impl["ok"]:
            real_rows = rows_of_batch(batch)
            for r in batch.to_pylist():
                for c in ("params_schema_ipc", "result_schema_ipc", "header_schema_ipc"):
                    if r[c] is not None:
                        self.blobs.add(r[c])
            real_md = dict(md)
            # parse what was built
            self.k_parse(real_rows, md_list(md), batch, md, "built")

        def compare(model: dict[str, Any]) -> None:
            if model["ok"] != impl["ok"] or (not model["ok"] and model["err"] != impl["err"]):
                ctx.mismatch(case, {k: model[k] for k in ("ok", "err") if k in model}, impl, "build_describe_batch: accept/reject")
                return
            if not impl["ok"]:
                ctx.tag("k:build:rejected")
                return
            if model["rows"] != real_rows:
                ctx.mismatch(case, model["rows"], real_rows, "describe rows: model vs build_describe_batch")
                return
            real_hash = real_md[PROTOCOL_HASH_KEY].decode()
            mmd = [(bytes.fromhex(k), bytes.fromhex(v)) for k, v in model["md"]]
            mmd_cmp = [(k, hashlib.sha256(bytes.fromhex(v.decode())).hexdigest().encode() if k == PROTOCOL_HASH_KEY else v) for k, v in mmd]
            if mmd_cmp != list(real_md.items()):
                ctx.mismatch(case, [(k.decode(), v.hex()) for k, v in mmd_cmp], [(k.decode(), v.hex()) for k, v in real_md.items()],
                             "describe metadata: model vs build_describe_batch")
                return
            pre = bytes.fromhex(model["preimage"])
            if len(captured) != 1 or captured[0] != pre:
                ctx.mismatch(case, pre.hex(), [c.hex() for c in captured],
                             "hash pre-image bytes: model vs what compute_protocol_hash fed to sha256")
                return
            if hashlib.sha256(pre).hexdigest() != real_hash or (expect_hash is not None and expect_hash != real_hash):
                ctx.mismatch(case, hashlib.sha256(pre).hexdigest(), real_hash, "sha256(model pre-image) vs real protocol_hash")

        self.ask("C39.build", {"svc": model_service(name, methods, server_id, version)}, compare)

    # ---- K: parse_describe_batch ------------------------------------------------------------------------------
    def k_parse(self, rows: list[dict[str, Any]], mdl: list[list[str]], batch: pa.RecordBatch, md: Any, tag: str) -> None:
        from vgi_rpc.introspect import parse_describe_batch

        ctx = self.ctx
        if ctx.driver is None:
            return
        case = {"k": "parse", "rows": rows, "md": mdl}
        valid = []
        for r in rows:
            for c in ("params", "result", "header"):
                if r[c] is not None and r[c] not in valid:
                    try:
                        pa.ipc.read_schema(pa.py_buffer(bytes.fromhex(r[c])))
                        valid.append(r[c])
                    except Exception:  # noqa: BLE001
                        pass
        try:
            d = parse_describe_batch(batch, md)
            impl: dict[str, Any] = {"ok": True, "desc": canon_description(d)}
        except UnicodeDecodeError:
            impl = {"ok": False, "err": "undecodable"}
        except pa.ArrowException:
            impl = {"ok": False, "err": "bad_schema"}
        except OSError:
            impl = {"ok": False, "err": "bad_schema"}
        except ValueError:
            impl = {"ok": False, "err": "bad_method_type"}
        ctx.case(case, nontrivial=bool(rows), tags=(f"k:parse:{tag}", "parse:ok" if impl["ok"] else f"parse:{impl['err']}"))

        def compare(model: dict[str, Any]) -> None:
            if model["ok"]:
                model = {"ok": True, "desc": canon_model_description(model["desc"])}
            if model != impl:
                ctx.mismatch(case, model, impl, "parse_describe_batch: model vs implementation")

        self.ask("C39.parse", {"rows": rows, "md": mdl, "valid": valid}, compare)

    # ---- K: compute_protocol_hash on an arbitrary batch ---------------------------------------------------------
    def k_hash(self, name: str, rows: list[dict[str, Any]], batch: pa.RecordBatch, tag: str) -> None:
        from vgi_rpc.introspect import compute_protocol_hash

        ctx = self.ctx
        if ctx.driver is None:
            return
        case = {"k": "hash", "name": name, "rows": rows}
        ctx.case(case, nontrivial=bool(rows), tags=(f"k:hash:{tag}",))
        with Recorder() as rec:
            try:
                h = compute_protocol_hash(name, batch)
                impl: dict[str, Any] = {"ok": True}
            except ValueError as e:
                impl = {"ok": False, "err": "separator_in_name" if "framing separator" in str(e) else f"ValueError:{e}"}
        captured = list(rec.captured)
        hh = h if impl["ok"] else None

        def compare(model: dict[str, Any]) -> None:
            if model["ok"] != impl["ok"] or (not model["ok"] and model["err"] != impl["err"]):
                ctx.mismatch(case, model, impl, "compute_protocol_hash: accept/reject")
                return
            if impl["ok"]:
                pre = bytes.fromhex(model["preimage"])
                if captured != [pre] or hashlib.sha256(pre).hexdigest() != hh:
                    ctx.mismatch(case, pre.hex(), [c.hex() for c in captured], "hash pre-image on an arbitrary batch")

        self.ask("C39.hash", {"name": s2j(name), "rows": rows}, compare)

    # ---- O: faithful + exempt -------------------------------------------------------------------------------
    def check_describe(self, s: SvcSpec, srv: RpcServer, http: bool, touch: str = "none") -> None:
        from vgi_rpc.introspect import DESCRIBE_VERSION, introspect, parse_describe_batch

        ctx = self.ctx
        case = {"describe": spec_json(s), "touch": touch}
        ctx.case(case, nontrivial=bool(s.methods), tags=("o:describe", "versioned" if s.version else "unversioned"))
        table = {n: i for n, i in srv._methods.items() if n != "__describe__"}

        def check(d: Any, via: str) -> bool:
            key = f"C39:unfaithful:{via}"
            if (d.protocol_name, d.server_id, d.protocol_version, d.protocol_hash, d.describe_version) != (
                    s.name, s.server_id, s.version or "", srv.protocol_hash, DESCRIBE_VERSION):
                ctx.fail(case, key + ":service-fields", f"service-level fields wrong via {via}: {d.protocol_name!r} {d.server_id!r} "
                         f"{d.protocol_version!r} {d.protocol_hash} {d.describe_version}")
                return False
            if sorted(d.methods) != sorted(m.name for m in s.methods) or set(d.methods) != set(table):
                ctx.fail(case, key + ":method-set", f"described methods {sorted(d.methods)} != defined {sorted(m.name for m in s.methods)}")
                return False
            for m in s.methods:
                md, info = d.methods[m.name], table[m.name]
                want_exch = STATES[m.state][1] if m.kind == "stream" else None
                want_hdr = m.header is not None if m.kind == "stream" else False
                ok = (
                    md.name == m.name and md.method_type.value == m.kind
                    and md.has_return == (m.kind == "unary" and m.ret is not None)
                    and md.is_exchange == want_exch and md.has_header == want_hdr
                    and md.params_schema.names == [p.name for p in m.params]
                    and [f.nullable for f in md.params_schema] == [p.nullable for p in m.params]
                    and md.params_schema.equals(info.params_schema, check_metadata=True)
                    and md.result_schema.equals(info.result_schema, check_metadata=True)
                    and md.method_type == info.method_type and md.has_return == info.has_return
                    and (md.header_schema is None) == (info.header_type is None) == (not want_hdr)
                )
                if not ok:
                    ctx.fail(case, key + ":method", f"description of {m.name!r} via {via} differs from the definition / method table")
                    return False
                # schemas against the *definition* (the harness's own reading of the spec, not the code's cached ARROW_SCHEMA)
                if want_hdr and not md.header_schema.equals(record_schema(m.header)):  # type: ignore[arg-type]
                    ctx.fail(case, key + ":header-schema", f"header of {m.name!r} described as {md.header_schema.names} "
                             f"{[str(f.type) for f in md.header_schema]}, definition {m.header} says {record_fields(m.header)}")  # type: ignore[arg-type]
                    return False
                want_params = pa.schema([pa.field(p.name, TYPES[p.type][2], nullable=p.nullable) for p in m.params])
                if not md.params_schema.equals(want_params):
                    ctx.fail(case, key + ":params-schema", f"parameters of {m.name!r} described as {md.params_schema.to_string()!r}, "
                             f"definition says {want_params.to_string()!r}")
                    return False
            return True

        # pipe, as a client does it (no protocol version sent -> a version-declaring service would refuse any other method)
        t = LoopTransport(srv)
        try:
            d = introspect(t)
        except Exception as e:  # noqa: BLE001
            ctx.fail(case, "C39:describe-refused:pipe:absent" if s.version else "C39:describe-failed:pipe", f"introspect() failed: {e!r}")
            return
        if t.escaped is not None:
            ctx.fail(case, "C39:describe-failed:pipe", f"exception escaped serve_one: {t.escaped!r}")
            return
        if not check(d, "pipe"):
            return
        want = canon_description(d)
        # protocol-version mismatch / malformed / absent: still callable, same answer
        for label, pv in (("mismatch", b"99.0.0"), ("malformed", b"not-a-version"), ("undecodable", b"\xff"), ("minor", b"1.99.0")):
            ctx.tag(f"o:exempt:{label}")
            req = rpcutil.request_bytes("__describe__", pa.schema([]), {}, extra_metadata={b"vgi_rpc.protocol_version": pv})
            out, exc = rpcutil.serve_one_bytes(srv, req)
            try:
                streams = rpcutil.read_all_streams(out)
                err = rpcutil.error_of(streams[0][1]) if streams else {"message": "no response"}
                if exc is not None or err is not None:
                    raise RuntimeError(f"{exc!r} {err}")
                b, m = streams[0][1][-1]
                d2 = parse_describe_batch(b, pa.KeyValueMetadata(m))
                if canon_description(d2) != want:
                    raise RuntimeError("different description")
            except Exception as e:  # noqa: BLE001
                ctx.fail(case, f"C39:describe-refused:pipe:{label}", f"__describe__ with client protocol_version {pv!r}: {e}")
                return
            if ctx.driver is not None and s.version:
                r = ctx.driver.call("C39.describe_gate", {"site": "pipe", "srv": [int(x) for x in s.version.split(".")], "md": b2j(pv)})
                if r["pass"] is not True:
                    ctx.mismatch(case, r, {"pass": True}, "describe gate: model vs implementation")
        if not http:
            return
        import falcon.testing
        from vgi_rpc.http import http_introspect, make_sync_client, make_wsgi_app

        ctx.tag("o:describe:http")
        c = make_sync_client(srv, token_key=b"k" * 32)
        try:
            dh = http_introspect(client=c)
        except Exception as e:  # noqa: BLE001
            ctx.fail(case, "C39:describe-refused:http:absent" if s.version else "C39:describe-failed:http", f"http_introspect failed: {e!r}")
            return
        finally:
            c.close()
        if not check(dh, "http") or canon_description(dh) != want:
            if canon_description(dh) != want:
                ctx.fail(case, "C39:unfaithful:http:differs-from-pipe", "HTTP and pipe descriptions differ")
            return
        client = falcon.testing.TestClient(make_wsgi_app(srv, token_key=b"k" * 32))
        for label, pv in (("mismatch", b"99.0.0"), ("malformed", b"1.2"),):
            req = rpcutil.request_bytes("__describe__", pa.schema([]), {}, extra_metadata={b"vgi_rpc.protocol_version": pv})
            r = client.simulate_post("/__describe__", body=req, headers={"Content-Type": "application/vnd.apache.arrow.stream"})
            try:
                if r.status_code != 200:
                    raise RuntimeError(f"HTTP {r.status_code}")
                streams = rpcutil.read_all_streams(r.content)
                b, m = streams[0][1][-1]
                if canon_description(parse_describe_batch(b, pa.KeyValueMetadata(m))) != want:
                    raise RuntimeError("different description")
            except Exception as e:  # noqa: BLE001
                ctx.fail(case, f"C39:describe-refused:http:{label}", f"HTTP __describe__ with client protocol_version {pv!r}: {e}")
                return
            if ctx.driver is not None and s.version:
                r2 = ctx.driver.call("C39.describe_gate", {"site": "http_unary", "srv": [int(x) for x in s.version.split(".")], "md": b2j(pv)})
                if r2["pass"] is not True:
                    ctx.mismatch(case, r2, {"pass": True}, "describe gate (http): model vs implementation")

    # ---- O: a version-mismatched client, one connection: [refused call, describe]* --------------------------------------
    def check_after_refusal(self, s: SvcSpec) -> None:
        import threading

        from vgi_rpc.introspect import introspect
        from vgi_rpc.rpc import RpcConnection, RpcError, make_pipe_pair

        ctx = self.ctx
        if s.version is None or not s.methods:
            return
        case = {"after_refusal": spec_json(s)}
        ctx.case(case, nontrivial=True, tags=("o:after-refusal",))
        srv, err = self.build(s)
        if srv is None:
            return
        client_spec = copy.deepcopy(s)
        client_spec.version = f"{int(s.version.split('.')[0]) + 1}.0.0"
        CP, _impl = make_classes(client_spec)
        client_t, server_t = make_pipe_pair()
        th = threading.Thread(target=srv.serve, args=(server_t,), daemon=True)
        th.start()
        problems: list[tuple[str, str]] = []

        def label(m: MethodSpec) -> str:
            if m.kind == "unary":
                return "unary"
            if m.header is not None:
                return "stream-with-header"
            return {True: "exchange", False: "typed-producer", None: "untyped-stream"}[STATES[m.state][1]]

        def scenario() -> None:
            with RpcConnection(CP, client_t) as proxy:
                try:
                    want = canon_description(introspect(client_t))
                except Exception as e:  # noqa: BLE001
                    problems.append(("C39:describe-refused:pipe:connection", f"introspect on a fresh connection failed: {e!r}"[:300]))
                    return
                for m in s.methods:
                    kwargs = {p.name: (_default_value(ParamSpec(p.name, p.type)) if p.type in NESTED else copy.deepcopy(TYPES[p.type][1]))
                              for p in m.params}
                    ended = "returned"
                    try:
                        r = getattr(proxy, m.name)(**kwargs)
                        if m.kind == "stream":
                            if m.header is None and STATES[m.state][1] is True:
                                with r as sess:
                                    sess.exchange(AnnotatedBatch(batch=pa.RecordBatch.from_pydict({"i": [1]})))
                            else:
                                list(r)
                    except RpcError as e:
                        ended = e.error_type
                    except Exception as e:  # noqa: BLE001
                        ended = type(e).__name__
                    if ended != "ProtocolVersionError":
                        ctx.tag(f"after-refusal:not-refused:{ended}")  # C09's subject, not asserted here
                        return
                    ctx.tag(f"o:after-refusal:{label(m)}")
                    try:
                        got = canon_description(introspect(client_t))
                    except Exception as e:  # noqa: BLE001
                        problems.append((f"C39:describe-after-refusal:{label(m)}",
                                         f"introspect() after the refused call of {m.name!r} ({label(m)}) failed: {e!r}"[:400]))
                        return
                    if got != want:
                        problems.append((f"C39:describe-after-refusal:{label(m)}:different",
                                         f"description after the refused call of {m.name!r} differs from the first one"))
                        return

        w = threading.Thread(target=scenario, daemon=True)
        w.start()
        w.join(timeout=30)
        if w.is_alive():
            problems.append(("C39:describe-after-refusal:hang", "client blocked for 30 s"))
        try:
            client_t.close()  # EOF ends the server's serve() loop
        except Exception:  # noqa: BLE001
            pass
        th.join(timeout=10)
        try:
            server_t.close()
        except Exception:  # noqa: BLE001
            pass
        for key, what in problems:
            ctx.fail(case, key, what)

    # ---- K: _ArrowSchemaDescriptor.__get__ on class forests x touch sequences ---------------------------------------------
    def k_schema_cache(self, n: int) -> None:
        ctx = self.ctx
        rng = ctx.rng
        if ctx.driver is None:
            return
        for i in range(n):
            k = rng.choice([1, 2, 2, 3, 3, 4, 5])
            parents: list[int | None] = [None if (j == 0 or rng.random() < 0.25) else rng.randrange(j) for j in range(k)]
            if i == 0:
                parents = [None, 0]  # hand-written first case: parent touched before its child
            k = len(parents)  # (the identification below scans range(k): it must cover every class of the forest)
            touches = [rng.randrange(k) for _ in range(rng.choice([1, 2, 3, 4, 6]))]
            if i == 0:
                touches = [0, 1, 1, 0]
            classes: list[type] = []
            for j, par in enumerate(parents):
                base = ArrowSerializableDataclass if par is None else classes[par]
                classes.append(dataclass(frozen=True)(type(f"K{j}", (base,), {"__annotations__": {f"f{j}": int}, "__module__": __name__})))

            def names(j: int) -> list[str]:
                return (names(parents[j]) if parents[j] is not None else []) + [f"f{j}"]  # type: ignore[arg-type]

            got: list[int | None] = []
            for t in touches:
                sch = classes[t].ARROW_SCHEMA  # type: ignore[attr-defined]
                got.append(next((j for j in range(k) if sch.names == names(j)), None))
            case = {"k": "schema_touch", "parents": parents, "touches": touches}
            ctx.case(case, nontrivial=k > 1, tags=("k:schema-cache", "inherits" if any(p is not None for p in parents) else "flat"))

            def compare(model: list[int], got: list[int | None] = got, case: dict[str, Any] = case) -> None:
                if model != got:
                    ctx.mismatch(case, model, got, "ARROW_SCHEMA of a class forest after a touch sequence: model vs _ArrowSchemaDescriptor")

            self.ask("C39.schema_touch", {"parents": parents, "touches": touches}, compare)

    # ---- one base service, everything --------------------------------------------------------------------------
    def service(self, s: SvcSpec, all_edits: bool, http: bool, k_edits: bool) -> None:
        ctx = self.ctx
        rng = ctx.rng
        srv, err = self.build(s)
        case = {"service": spec_json(s)}
        if srv is None:
            ctx.fail(case, "C39:service-rejected", f"generated service could not be served: {err}")
            return
        self.register(s, srv, case)
        table = {n: i for n, i in srv._methods.items() if n != "__describe__"}
        self.k_build(s.name, table, s.server_id, s.version, "table", expect_hash=srv.protocol_hash)
        if len(table) > 1:
            items = list(table.items())
            rng.shuffle(items)
            self.k_build(s.name, dict(items), "other-" + s.server_id, None, "shuffled", expect_hash=srv.protocol_hash)
        self.check_describe(s, srv, http)
        # the same definition, built on fresh classes whose ancestors / siblings were materialised in other orders
        if any(len(record_chain(u)) > 1 for u in used_records(s)):
            for order in TOUCH_ORDERS[1:]:
                tcase = {"service": spec_json(s), "touch": order}
                ctx.case(tcase, nontrivial=True, tags=("o:touch-order", f"touch:{order}"))
                tsrv, terr = self.build(s, order)
                if tsrv is None:
                    ctx.fail(tcase, "C39:service-rejected", f"could not be served after touch order {order}: {terr}")
                    continue
                if tsrv.protocol_hash != srv.protocol_hash:
                    ctx.fail(tcase, f"C39:hash-unstable:touch-order:{order}",
                             f"same definition, protocol_hash {tsrv.protocol_hash} after {order} vs {srv.protocol_hash}")
                self.check_describe(s, tsrv, False, touch=order)
        es = edits(s, rng)
        if not all_edits:
            es = rng.sample(es, min(len(es), 12))
        for kind, t in es:
            order = rng.choice(TOUCH_ORDERS) if any(len(record_chain(u)) > 1 for u in used_records(t)) else "none"
            esrv = self.check_edit(s, srv, kind, t, order)
            if esrv is not None and k_edits and rng.random() < 0.25:
                self.k_build(t.name, {n: i for n, i in esrv._methods.items() if n != "__describe__"}, t.server_id, t.version, "edited",
                             expect_hash=esrv.protocol_hash)


# ---- separators and mutated batches --------------------------------------------------------------------------------------


def confusable_pairs(rng: Any) -> list[tuple[SvcSpec, SvcSpec]]:
    """Pairs of different contracts whose separator-framed pre-images coincide (if the names were accepted)."""
    out = []
    for sep_row in ("\x1f",):
        for pn, a, b in (("A", "x", "y"), ("Svc", "m", "n"), ("P", "", "z"), ("A|B", "q", "r")):
            m = MethodSpec("PLACEHOLDER", "unary", [ParamSpec("a", "int")], ret="int")
            s1 = SvcSpec(pn, [copy.deepcopy(m)])
            s1.methods[0].name = f"{a}|{sep_row}{b}"
            s2 = SvcSpec(f"{pn}|{sep_row}{a}", [copy.deepcopy(m)])
            s2.methods[0].name = b
            out.append((s1, s2))
    # a method name swallowing the next fields: "n\x1eunary\x1e1\x1e0\x1e-" cannot be completed (schema bytes are not UTF-8),
    # kept as probes that must simply be rejected or hash differently
    for nm in ("a\x1eunary", "a\x1e", "\x1e", "\x1f", "a\x1fb", "x\x1e1\x1e0\x1e-\x1e"):
        out.append((SvcSpec("A", [MethodSpec(nm, "unary", [], ret="int")]), SvcSpec("A", [MethodSpec("a", "unary", [], ret="int")])))
    for pn in ("A\x1f", "\x1e", "A\x1eB"):
        out.append((SvcSpec(pn, [MethodSpec("m", "unary", [])]), SvcSpec("A", [MethodSpec("m", "unary", [])])))
    return out


def mutate_rows(rng: Any, batch: pa.RecordBatch, md: Any) -> tuple[pa.RecordBatch, pa.KeyValueMetadata, str]:
    from vgi_rpc.introspect import _DESCRIBE_SCHEMA

    rows = batch.to_pylist()
    mdd = dict(md)
    kind = rng.choice(["method_type", "blob-truncate", "blob-garbage", "blob-extend", "dup-name", "flags", "md-bad-utf8", "md-drop", "md-value",
                       "swap-rows", "name", "drop-row", "header-toggle"])
    if not rows and kind not in ("md-bad-utf8", "md-drop", "md-value"):
        kind = "md-value"
    i = rng.randrange(len(rows)) if rows else 0
    if kind == "method_type":
        rows[i]["method_type"] = rng.choice(["UNARY", "", "streaming", "unary ", "stream", "unary", "ünary"])
    elif kind == "blob-truncate":
        c = rng.choice(["params_schema_ipc", "result_schema_ipc"])
        rows[i][c] = rows[i][c][: rng.randrange(len(rows[i][c]))]
    elif kind == "blob-garbage":
        c = rng.choice(["params_schema_ipc", "result_schema_ipc", "header_schema_ipc"])
        rows[i][c] = rng.choice([b"", b"\x1e", b"\x1f", b"\xff\xff\xff\xff", b"\xff\xff\xff\xff\x00\x00\x00\x00", b"garbage" * 3])
    elif kind == "blob-extend":
        c = rng.choice(["params_schema_ipc", "result_schema_ipc"])
        rows[i][c] = rows[i][c] + rng.choice([b"\x1e", b"\x1f", b"\x00" * 8, b"x"])
    elif kind == "dup-name":
        rows.append(dict(rows[rng.randrange(len(rows))]))
        rows[-1]["has_return"] = not rows[-1]["has_return"]
    elif kind == "flags":
        c = rng.choice(["has_return", "has_header", "is_exchange"])
        rows[i][c] = rng.choice([True, False, None]) if c == "is_exchange" else (not rows[i][c])
    elif kind == "md-bad-utf8":
        k = rng.choice(list(mdd))
        mdd[k] = rng.choice([b"\xff", b"\xc0\xaf", b"ab\x80", b"\xed\xa0\x80"])
    elif kind == "md-drop":
        mdd.pop(rng.choice(list(mdd)))
    elif kind == "md-value":
        mdd[rng.choice(list(mdd))] = rng.choice([b"", b"x", "é".encode(), b"1.2.3"])
    elif kind == "swap-rows":
        rng.shuffle(rows)
    elif kind == "name":
        rows[i]["name"] = rng.choice(["", "a|b", "é", "a\x1eb", "a\x1fb", "\U0001F600", "zzz"])
    elif kind == "drop-row":
        rows.pop(i)
    elif kind == "header-toggle":
        rows[i]["header_schema_ipc"] = None if rows[i]["header_schema_ipc"] is not None else rows[i]["params_schema_ipc"]
    cols = {f.name: [r[f.name] for r in rows] for f in _DESCRIBE_SCHEMA}
    return pa.RecordBatch.from_pydict(cols, schema=_DESCRIBE_SCHEMA), pa.KeyValueMetadata(mdd), kind


# ---- fresh interpreter --------------------------------------------------------------------------------------------------


def hashes_in_subprocess(specs: list[SvcSpec]) -> list[str | None]:
    verif = os.path.dirname(os.path.dirname(os.path.abspath(__file__)))
    repo = os.environ.get("VERIF_REPO", "/repo")
    code = (
        "import sys, json\n"
        f"sys.path[:0] = [{repo!r}, {verif!r}]\n"
        "from harness import c39\n"
        "out = []\n"
        "for j in json.load(sys.stdin):\n"
        "    s = c39.spec_from_json(j)\n"
        "    s.server_id = 'subprocess-' + s.server_id\n"
        "    try:\n"
        "        out.append(c39.make_server(s).protocol_hash)\n"
        "    except Exception as e:\n"
        "        out.append(None)\n"
        "print(json.dumps(out))\n"
    )
    env = dict(os.environ, PYTHONHASHSEED="4242", PYTHONDONTWRITEBYTECODE="1")
    p = subprocess.run([sys.executable, "-c", code], input=json.dumps([spec_json(s) for s in specs]), capture_output=True, text=True,
                       env=env, timeout=300)
    if p.returncode != 0:
        raise RuntimeError(p.stderr[-2000:])
    return json.loads(p.stdout.strip().splitlines()[-1])


# ============================================================================================ run / replay


def k_primitives(ctx: Any, run: "Run") -> None:
    """utf8 / str ordering / encapsulated-message law."""
    rng = ctx.rng
    if ctx.driver is None:
        return
    alphabet = ["a", "b", "z", "A", "|", "\x1e", "\x1f", "\x7f", "\x80", "é", "ÿ", "Ā", "߿", "ࠀ", "\uffff", "\U00010000", "\U0010ffff", "名", "", "\x00"]
    strs = [""] + ["".join(rng.choice(alphabet) for _ in range(rng.choice([1, 1, 2, 3, 5]))) for _ in range(ctx.budget(300, 5000))]
    res = ctx.driver.batch([("C39.utf8", {"s": s2j(s)}) for s in strs])
    for s, r in zip(strs, res):
        ctx.case({"k": "utf8", "s": s}, nontrivial=True, tags=("k:utf8",))
        if bytes.fromhex(r) != s.encode():
            ctx.mismatch({"k": "utf8", "s": s}, r, s.encode().hex(), "str.encode(): model vs CPython")
    pairs = [(rng.choice(strs), rng.choice(strs)) for _ in range(ctx.budget(300, 5000))] + [(s, s + "a") for s in strs[:20]]
    res = ctx.driver.batch([("C39.le_name", {"a": s2j(a), "b": s2j(b)}) for a, b in pairs])
    for (a, b), r in zip(pairs, res):
        ctx.case({"k": "le", "a": a, "b": b}, nontrivial=True, tags=("k:le_name",))
        if r != (a <= b):
            ctx.mismatch({"k": "le", "a": a, "b": b}, r, a <= b, "str <=: model vs CPython")


def k_env_laws(ctx: Any, run: "Run") -> None:
    if ctx.driver is None:
        return
    blobs = sorted(run.blobs)
    res = ctx.driver.batch([("C39.encapsulated", {"b": b2j(b)}) for b in blobs])
    for b, r in zip(blobs, res):
        case = {"k": "env", "blob": b.hex()}
        ctx.case(case, nontrivial=True, tags=("k:env:encapsulated",))
        sch = pa.ipc.read_schema(pa.py_buffer(b))
        if r is not True or sch.serialize().to_pybytes() != b:
            ctx.mismatch(case, r, True, "Env law: a serialized schema is one encapsulated IPC message and round-trips")
    ctx.note("schema_blobs_checked", len(blobs))


def run(ctx: Any) -> None:
    from vgi_rpc.introspect import build_describe_batch

    rng = ctx.rng
    r = Run(ctx)
    # ---- confusable names (framing separators) — first: the inputs around the hypotheses of C39_sensitive
    for s1, s2 in confusable_pairs(rng):
        case = {"pair": [spec_json(s1), spec_json(s2)]}
        ctx.case(case, nontrivial=True, tags=("o:confusable",))
        a, ea = r.build(s1)
        b, eb = r.build(s2)
        ctx.tag(f"confusable:{'accepted' if a else 'rejected'}/{'accepted' if b else 'rejected'}")
        for s, srv, err in ((s1, a, ea), (s2, b, eb)):
            if srv is not None:
                r.register(s, srv, case)
            elif err != "separator_in_name":
                ctx.fail(case, "C39:service-rejected", f"unexpected construction error {err}")
        # K on the same names through build_describe_batch
        for s in (s1, s2):
            try:
                P, _impl = make_classes(s)
                from vgi_rpc.rpc import rpc_methods

                r.k_build(s.name, rpc_methods(P), s.server_id, s.version, "confusable")
            except Exception as e:  # noqa: BLE001
                ctx.note("confusable_build_error", repr(e))
    r.flush()

    def bud(quick: int, thorough: int) -> int:
        # a failing input is already in hand: no need for the raised (deep) budget, explore at the normal one
        if ctx.deep and ctx.failures and ctx.tier != "thorough":
            return quick
        return ctx.budget(quick, thorough)

    thorough = ctx.tier == "thorough" or (ctx.deep and not ctx.failures)
    # ---- corpus + generated services, all single-point edits
    specs = list(CORPUS) + [gen_service(rng) for _ in range(bud(70, 1500))]
    for i, s in enumerate(specs):
        r.service(copy.deepcopy(s), all_edits=True, http=(i < 8 or thorough or rng.random() < 0.15), k_edits=True)
    # ---- mutated batches: compute_protocol_hash + parse_describe_batch on arbitrary input
    from vgi_rpc.rpc import rpc_methods

    bases = []
    for s in specs[: bud(25, 120)]:
        try:
            P, _ = make_classes(s)
            bases.append((s, build_describe_batch(s.name, rpc_methods(P), s.server_id, s.version)))
        except Exception:  # noqa: BLE001
            pass
    for _ in range(bud(250, 4000)):
        s, (batch, md) = rng.choice(bases)
        mb, mmd, kind = mutate_rows(rng, batch, md)
        name = rng.choice([s.name, s.name, "Other", "A|\x1fx", "é"])
        rows = rows_of_batch(mb)
        if any(has_surrogate("".join(map(chr, x["name"]))) for x in rows):
            continue
        r.k_hash(name, rows, mb, kind)
        r.k_parse(rows, md_list(mmd), mb, mmd, kind)
    r.k_schema_cache(bud(150, 3000))
    # ---- a version-mismatched client keeps its one connection: refused call, then describe
    for s in [x for x in specs if x.version is not None and x.methods][: bud(25, 300)]:
        r.check_after_refusal(copy.deepcopy(s))
    r.flush()
    k_primitives(ctx, r)
    k_env_laws(ctx, r)
    # ---- a fresh interpreter computes the same hashes
    sample = [s for s in specs if not any(c in s.name for c in SEPS)][: bud(12, 150)]
    try:
        sub = hashes_in_subprocess(sample)
        for s, h in zip(sample, sub):
            case = {"process": spec_json(s)}
            ctx.case(case, nontrivial=bool(s.methods), tags=("o:process",))
            srv, _ = r.build(s)
            if srv is not None and h != srv.protocol_hash:
                ctx.fail(case, "C39:hash-unstable:process", f"fresh interpreter computed {h}, this process {srv.protocol_hash}")
    except Exception as e:  # noqa: BLE001
        ctx.note("subprocess_error", repr(e)[:500])
        raise
    ctx.note("servers_built", r.n_servers)
    ctx.note("distinct_hashes", len(r.by_hash))
    ctx.note("distinct_wire_views", len(r.by_view))


def replay(ctx: Any, case: dict[str, Any]) -> None:
    r = Run(ctx)
    if "edit" in case:
        base, edited = spec_from_json(case["base"]), spec_from_json(case["edited"])
        srv, err = r.build(base)
        if srv is None:
            ctx.fail(case, "C39:service-rejected", str(err))
            return
        r.register(base, srv, case)
        r.check_edit(base, srv, case["edit"], edited, case.get("touch", "none"))
    elif "describe" in case:
        s = spec_from_json(case["describe"])
        srv, err = r.build(s, case.get("touch", "none"))
        if srv is None:
            ctx.fail(case, "C39:service-rejected", str(err))
            return
        r.check_describe(s, srv, http=True, touch=case.get("touch", "none"))
    elif "pair" in case or ("a" in case and "b" in case):
        specs = [spec_from_json(j) for j in (case["pair"] if "pair" in case else [case["a"], case["b"]])]
        ctx.case(case)
        for s in specs:
            srv, _err = r.build(s)
            if srv is not None:
                r.register(s, srv, case)
    elif "after_refusal" in case:
        r.check_after_refusal(spec_from_json(case["after_refusal"]))
    elif "touch" in case and "service" in case:
        s = spec_from_json(case["service"])
        ctx.case(case)
        a, _ = r.build(s)
        b, _ = r.build(s, case["touch"])
        if a is not None and b is not None:
            if a.protocol_hash != b.protocol_hash:
                ctx.fail(case, f"C39:hash-unstable:touch-order:{case['touch']}", f"{b.protocol_hash} vs {a.protocol_hash}")
            r.check_describe(s, b, False, touch=case["touch"])
    elif "process" in case:
        s = spec_from_json(case["process"])
        srv, _ = r.build(s)
        h = hashes_in_subprocess([s])[0]
        ctx.case(case)
        if srv is not None and h != srv.protocol_hash:
            ctx.fail(case, "C39:hash-unstable:process", f"fresh interpreter computed {h}, this process {srv.protocol_hash}")
    elif "service" in case:
        r.service(spec_from_json(case["service"]), all_edits=True, http=True, k_edits=True)
        r.flush()
    else:
        ctx.note("replay", "K case: re-run the check with the same VERIF_SEED")
