"""C15 — HTTP status codes and body shapes follow the mapping.

K (correspondence): every request class of the model (`Prelude/HttpReq.Req`) is instantiated with concrete requests
    against the real Falcon app (`make_wsgi_app` through `falcon.testing`); status, `X-VGI-RPC-Error`, "body is an
    Arrow IPC stream" and "method code ran" (read from the implementation's own call log) are compared with
    `C15.respond`.  For malformed IPC the exception class the model is given is predicted by an independent
    pyarrow read in the harness and cross-checked against the `exception_type` in the server's Arrow error body.
O (direct oracle): the property, stated in Python from the property text: status ∈ {status of a defect the request
    really has} (200 iff it has none), no 5xx, marker ⇔ (no defect ∧ the call fails), Arrow-decodable body unless the
    status is 401 or 415.  A byte-level fuzz stream (mutated valid requests on the three routes) is held to the
    classification-free part of the same oracle.
"""

import io
import json
import zlib
from dataclasses import dataclass
from enum import Enum
from pathlib import Path
from typing import Any, Protocol

import pyarrow as pa
from pyarrow import ipc

from harness.common import rpcutil

PROPERTY = "C15"
LEAN_MODULES = ["VgiVerif.Proofs.C15"]
OBLIGATIONS = [
    "VgiVerif.C15.C15_table",
    "VgiVerif.C15.C15_allowed",
    "VgiVerif.C15.C15_no5xx",
    "VgiVerif.C15.C15_marker",
    "VgiVerif.C15.C15_body",
    "VgiVerif.C15.C15_dispatch",
]
TRUSTED = [
    "pyarrow: which exception class a malformed IPC stream raises (closed list ParseExc; every observed class is "
    "checked to be in the list and to match the server's reported exception_type on every run)",
    "Falcon: process_request hooks run in registration order and stop at resp.complete / an HTTPError; an uncaught "
    "exception becomes a JSON 500; falcon.testing is a faithful WSGI driver",
    "token sealing/opening (C12) and codecs (C17/C18) are exercised through their refusal statuses only",
    "external-location resolution of *request* bodies (storage failures while reading a request) is outside the "
    "request classes of the property and is not modelled",
]
RULE = (
    "request classes = route (unary | init | exchange | the framework's upload-URL route) x method kind (unary | producer | "
    "exchanger | unknown | the built-in __describe__) x body (valid | parseFail(10 exception classes) | badMeta(6) | badParams(2) | "
    "cancel | badValue(9 conversion-failure classes: unknown Enum member, undecodable nested-dataclass blob, ...)) x content "
    "type (correct | wrong | missing | wrong-but-extending-the-right-one) x content encoding (none | supported | "
    "unsupported | corrupt | bomb | decoded length exactly the cap, per coding: gzip, zstd with / without a declared size) "
    "x wire size (within | oversize | exactly the cap) x auth x token x "
    "behaviour; instances sit at cap-2 / cap-1 / cap / cap+1 / cap+2 on the wire and after decoding.  quick: the product of "
    "the six dimensions the property's quantifier names (25 056 classes, exhaustive; one at-the-cap coding drawn per class) with "
    "size/auth/behaviour drawn per class, plus size x auth x behaviour x route x kind x all 8 encodings on otherwise good requests, plus route "
    "x kind x body x token x behaviour (4 176 classes, exhaustive) behind good headers; thorough: the full product (634 752 realisable "
    "classes) factored as the server and the model read a request — every resource-level class (16 704) behind each of "
    "the 6 (size, encoding) pairs the middleware chain lets through, and each of the 38 (size, encoding, auth) classes in "
    "front of 1 500 drawn resource-level classes.  Every class is instantiated with a freshly generated concrete request (method name, parameters, "
    "malformed bytes found by seeded mutation + pyarrow classification, codec, junk headers, tampering variant).  A case "
    "is distinct by (class, concrete request bytes, headers); all cases are non-trivial."
)
PARTIAL = [
    "parse exception classes the mutation search cannot produce in this pyarrow build (reported as unrealized:* tags) "
    "are covered by the theorems only",
]
MANIFEST = {
    "level": "proof",
    "text": "Kernel-checked theorems over an executable model of the middleware chain, _resolve_method, the three "
            "resources, the extracted except-clause tables and _set_http_status: for every request class the status "
            "is the mapped one, never 5xx, the error marker is set exactly for dispatched calls that fail, and every "
            "response other than 401/415 is an Arrow IPC stream.  The model is tied to the code by AST extraction of "
            "the tables/shapes and by running every class against the real Falcon app.",
    "note": "Request classes are those of the property's quantifier (POST on RPC routes); pyarrow's mapping from "
            "malformed bytes to exception classes is an environment assumption checked differentially.",
    "technique": "Lean 4 proof: case analysis over the finite request-class product, over extracted tables + "
                 "exhaustive class enumeration with generated instances through falcon.testing + direct oracle",
}

CT = "application/vnd.apache.arrow.stream"
MAX_REQ = 16384
MAX_RESP = 4096
TOKEN_KEY = b"k" * 32
PROTO_VERSION = "1.4.0"

ROUTES = ["unary", "init", "exchange", "uploadUrl"]
KINDS = ["unary", "producer", "exchanger", "unknown", "describe"]
PARSE_EXC = ["arrowInvalid", "osError", "arrowNotImplemented", "arrowKeyError", "arrowTypeError", "arrowOther",
             "ipcError", "ipcErrorLate", "unicodeDecode", "stopIteration"]
META = ["noMethodKey", "badMethodUtf8", "noVersionKey", "badVersion", "methodMismatch", "protocolVersion"]
DESER_EXC = ["keyError", "valueError", "overflowError", "typeError", "arrowInvalid", "ipcError", "osError", "stopIteration", "other"]
BODIES = (["valid"] + [f"parseFail:{e}" for e in PARSE_EXC] + [f"badMeta:{m}" for m in META]
          + ["badParams:mismatch", "badParams:badNames", "cancel"] + [f"badValue:{e}" for e in DESER_EXC])
CTYPES = ["correct", "wrong", "missing", "wrongExtends"]
CENCS = ["none", "supported", "unsupported", "corrupt", "bomb", "atCap:gzip", "atCap:zstdSized", "atCap:zstdStream"]
SIZES = ["within", "oversize", "atCap"]
AUTHS = ["ok", "rejected"]
TOKENS = ["valid", "tampered", "missing"]
BEHS = ["ok", "raises", "turnRaises", "overshoot"]

# what `_read_request` does with a validation failure of the request batch (asked of the model's extracted tables at
# the start of a run): re-raised as RpcError("ProtocolError") or left as IPCError
SHAPE = {"readWrapsBatchValidation": False, "readWrapsKwargs": False, "readWrapsEmptyStream": False}


def expected_exc_name(cls: str, route: str) -> str | None:
    """`exception_type` the server's Arrow error body should carry when reading the body fails with class `cls`."""
    if cls == "ipcError" and route != "exchange" and SHAPE["readWrapsBatchValidation"]:
        return "RpcError"
    if cls == "stopIteration" and route != "exchange" and SHAPE["readWrapsEmptyStream"]:
        return "RpcError"
    if cls.startswith("late:"):  # raised while the kwargs are materialised (metadata intact)
        return "RpcError" if SHAPE["readWrapsKwargs"] else EXC_TYPE_NAME.get(cls.removeprefix("late:"))
    return EXC_TYPE_NAME.get(cls)


EXC_TYPE_NAME = {
    "arrowInvalid": "ArrowInvalid", "osError": "OSError", "arrowNotImplemented": "ArrowNotImplementedError",
    "arrowKeyError": "ArrowKeyError", "arrowTypeError": "ArrowTypeError", "ipcError": "IPCError", "ipcErrorLate": "IPCError",
    "unicodeDecode": "UnicodeDecodeError", "stopIteration": "StopIteration",
}

_FAIL_COUNT: dict[str, int] = {}


def _fail(ctx: Any, case: Any, key: str, what: str) -> None:
    """Report a property failure; at most 3 cases per key reach the (bounded) failure list, the rest are counted."""
    n = _FAIL_COUNT.get(key, 0) + 1
    _FAIL_COUNT[key] = n
    if n <= 3:
        ctx.fail(case, key, what)
    else:
        ctx.notes.setdefault("further_failures_per_key", {})[key] = n - 3


# ------------------------------------------------------------------------------------------ service

from vgi_rpc.metadata import CALL_STATE_KEY, CANCEL_KEY, PROTOCOL_VERSION_KEY, STATE_KEY  # noqa: E402
from vgi_rpc.rpc import AnnotatedBatch, AuthContext, CallContext, OutputCollector, RpcServer, Stream, StreamState  # noqa: E402
from vgi_rpc.utils import ArrowSerializableDataclass  # noqa: E402

CALLS: list[str] = []
RPC_METHOD_KEY = b"vgi_rpc.method"
REQUEST_VERSION_KEY = b"vgi_rpc.request_version"


def _clamp(n: Any) -> int:
    """Mutated requests may carry absurd sizes; the service under test must not exhaust memory."""
    return min(max(int(n or 0), 0), 20000)


@dataclass
class GenState(StreamState):
    n: int = 0
    size: int = 0
    fail_at: int = -1
    i: int = 0

    def process(self, input: AnnotatedBatch, out: OutputCollector, ctx: CallContext) -> None:
        CALLS.append("gen.process")
        if self.i == self.fail_at:
            raise ValueError("producer turn failed")
        if self.i >= min(self.n, 16):
            out.finish()
            return
        out.emit_pydict({"x": [b"z" * _clamp(self.size)]})
        self.i += 1

    def on_cancel(self, ctx: CallContext) -> None:
        CALLS.append("gen.cancel")


@dataclass
class ExState(StreamState):
    k: int = 0

    def process(self, input: AnnotatedBatch, out: OutputCollector, ctx: CallContext) -> None:
        CALLS.append("exch.process")
        v = input.batch.column(0)[0].as_py()
        if v == 13:
            raise ValueError("exchange failed")
        out.emit_pydict({"y": [b"z" * _clamp(v)]})

    def on_cancel(self, ctx: CallContext) -> None:
        CALLS.append("exch.cancel")


class Color(Enum):
    RED = "red"
    GREEN = "green"


@dataclass(frozen=True)
class Inner(ArrowSerializableDataclass):
    a: int = 0
    b: str = ""


class HttpProto(Protocol):
    protocol_version = PROTO_VERSION

    def paint(self, color: Color, inner: Inner) -> int: ...
    def paint_rows(self, color: Color, inner: Inner) -> Stream[GenState]: ...
    def paint_echo(self, color: Color, inner: Inner) -> Stream[ExState]: ...

    def echo(self, n: int, fail: bool) -> bytes: ...
    def gen(self, n: int, size: int, fail_init: bool, fail_at: int) -> Stream[GenState]: ...
    def exch(self, k: int, fail_init: bool) -> Stream[ExState]: ...


class Impl:
    def paint(self, color: Color, inner: Inner) -> int:
        CALLS.append("paint")
        return inner.a

    def paint_rows(self, color: Color, inner: Inner) -> Stream[GenState]:
        CALLS.append("paint_rows.init")
        return Stream(output_schema=pa.schema([("x", pa.binary())]), state=GenState(1, 1, -1))

    def paint_echo(self, color: Color, inner: Inner) -> Stream[ExState]:
        CALLS.append("paint_echo.init")
        return Stream(output_schema=pa.schema([("y", pa.binary())]), state=ExState(0),
                      input_schema=pa.schema([("v", pa.int64())]))

    def echo(self, n: int, fail: bool) -> bytes:
        CALLS.append("echo")
        if fail:
            raise ValueError("unary failed")
        return b"y" * _clamp(n)

    def gen(self, n: int, size: int, fail_init: bool, fail_at: int) -> Stream[GenState]:
        CALLS.append("gen.init")
        if fail_init:
            raise ValueError("init failed")
        return Stream(output_schema=pa.schema([("x", pa.binary())]), state=GenState(n, size, fail_at))

    def exch(self, k: int, fail_init: bool) -> Stream[ExState]:
        CALLS.append("exch.init")
        if fail_init:
            raise ValueError("init failed")
        return Stream(output_schema=pa.schema([("y", pa.binary())]), state=ExState(k),
                      input_schema=pa.schema([("v", pa.int64())]))


def _authenticate(req: Any) -> AuthContext:
    h = req.get_header("Authorization")
    if h != "Bearer ok":
        raise ValueError("bad credentials")
    return AuthContext(domain="t", authenticated=True, principal="u")


METHOD_OF_KIND = {"unary": "echo", "producer": "gen", "exchanger": "exch", "describe": "__describe__"}
UPLOAD_METHOD = "__upload_url__"
UPLOAD_SCHEMA = pa.schema([("count", pa.int64())])
UPLOAD_FAIL = [False]
UNKNOWN_NAMES = ["nope", "echo2", "Echo", "gen_", "x", "exchx", "add", "unknown_method_with_a_long_name", "e", "ECHO"]
IN_SCHEMA = pa.schema([("v", pa.int64())])


class UploadProvider:
    """`UploadUrlProvider` for the framework's upload-URL route; fails on demand."""

    def generate_upload_url(self, schema: pa.Schema) -> Any:
        from datetime import UTC, datetime, timedelta

        from vgi_rpc.external import UploadUrl

        CALLS.append("upload_url")
        if UPLOAD_FAIL[0]:
            raise RuntimeError("provider failed")
        return UploadUrl(upload_url="https://storage.invalid/u", download_url="https://storage.invalid/d",
                         expires_at=datetime.now(UTC) + timedelta(hours=1))


class Env:
    """The app under test + everything needed to build requests for it."""

    def __init__(self) -> None:
        import falcon.testing

        from vgi_rpc.http import make_wsgi_app

        self.server = RpcServer(HttpProto, Impl(), enable_describe=True)
        self.app = make_wsgi_app(self.server, token_key=TOKEN_KEY, max_request_bytes=MAX_REQ,
                                 max_response_bytes=MAX_RESP, authenticate=_authenticate,
                                 upload_url_provider=UploadProvider())
        self.client = falcon.testing.TestClient(self.app)
        self.schemas = {m: self.server._methods[m].params_schema for m in ("echo", "gen", "exch", "paint", "paint_rows", "paint_echo")}
        self.schemas[UPLOAD_METHOD] = UPLOAD_SCHEMA
        # how many batches the first producer turn holds (so a continuation can be made to fail on its first tick)
        md, nb = self._init_tokens("gen", {"n": 8, "size": 1500, "fail_init": False, "fail_at": -1})
        self.first_turn = nb
        self.tok: dict[str, dict[bytes, bytes]] = {
            "producer:ok": md,
            "producer:overshoot": md,
            "producer:raises": self._init_tokens("gen", {"n": 8, "size": 1500, "fail_init": False, "fail_at": nb})[0],
            "exchanger": self._init_tokens("exch", {"k": 1, "fail_init": False})[0],
        }
        # tokens minted under another key / for nobody: authentic-looking, not ours
        other = make_wsgi_app(RpcServer(HttpProto, Impl()), token_key=b"j" * 32, max_response_bytes=MAX_RESP,
                              authenticate=_authenticate)
        oc = falcon.testing.TestClient(other)
        r = oc.simulate_post("/exch/init", body=self.request("exch", {"k": 1, "fail_init": False}),
                             headers={"Content-Type": CT, "Authorization": "Bearer ok"})
        self.foreign = _find_tokens(r.content)[0]

    # ---- request bytes
    def request(self, method: str, kwargs: dict[str, Any], *, md_edit: Any = None, schema: pa.Schema | None = None,
                rows: list[dict[str, Any]] | None = None) -> bytes:
        sch = schema if schema is not None else self.schemas.get(method, pa.schema([]))
        if rows is None:
            batch = pa.RecordBatch.from_pydict({f.name: [kwargs.get(f.name)] for f in sch}, schema=sch)
        else:
            batch = pa.RecordBatch.from_pylist(rows, schema=sch)
        md: dict[bytes, bytes] = {RPC_METHOD_KEY: method.encode(), REQUEST_VERSION_KEY: b"1",
                                  PROTOCOL_VERSION_KEY: PROTO_VERSION.encode()}
        if md_edit is not None:
            md_edit(md)
        return _ipc(sch, [(batch, md)])

    def _init_tokens(self, method: str, kwargs: dict[str, Any]) -> tuple[dict[bytes, bytes], int]:
        r = self.client.simulate_post(f"/{method}/init", body=self.request(method, kwargs),
                                      headers={"Content-Type": CT, "Authorization": "Bearer ok"})
        assert r.status_code == 200, (r.status_code, r.content[:200])
        md, n = _find_tokens(r.content)
        assert md is not None, "init returned no token"
        return md, n


def _find_tokens(content: bytes) -> tuple[dict[bytes, bytes] | None, int]:
    n = 0
    tok = None
    for _sch, bs in rpcutil.read_all_streams(content):
        for b, md in bs:
            if STATE_KEY in md:
                tok = {STATE_KEY: md[STATE_KEY], CALL_STATE_KEY: md[CALL_STATE_KEY]}
            elif b.num_rows > 0:
                n += 1
    return tok, n


def _ipc(schema: pa.Schema, batches: list[tuple[pa.RecordBatch, dict[bytes, bytes] | None]]) -> bytes:
    buf = io.BytesIO()
    with ipc.new_stream(buf, schema) as w:
        for b, md in batches:
            if md:
                w.write_batch(b, custom_metadata=md)
            else:
                w.write_batch(b)
    return buf.getvalue()


# ------------------------------------------------------------------------------------------ classification


def classify_read(body: bytes, route: str) -> tuple[str, Any]:
    st, cls, _md = classify_read3(body, route)
    return st, cls


def classify_read3(body: bytes, route: str) -> tuple[str, Any, dict[bytes, bytes] | None]:
    """What reading `body` raises, by an independent pyarrow read that mirrors the server's reading steps.

    unary / init (`_read_request`): open, first batch + metadata, validate, drain to EOS — then, after the metadata
    checks, names and values are materialised (a failure there is reported as "late:<class>": same status, but the
    server may report a metadata error first).
    exchange (`_run_stream_exchange_sync`): open, first batch + metadata, validate — nothing else.
    Returns ("ok", (batch, metadata), metadata) or ("fail", class, metadata-if-read) — class "unmodelled:<T>" for a
    class outside ParseExc.
    """
    late = False
    mdd: dict[bytes, bytes] | None = None
    try:
        r = ipc.open_stream(pa.BufferReader(body))
        b, md = r.read_next_batch_with_custom_metadata()
        first_invalid = False
        try:
            b.validate(full=True)
        except pa.ArrowInvalid:
            if route == "exchange" or not SHAPE["readWrapsBatchValidation"]:
                return "fail", "ipcError", None
            first_invalid = True   # `_read_request` drains the rest (skipping further invalid batches), then refuses
        if route != "exchange":
            while True:
                try:
                    nb = r.read_next_batch()
                except StopIteration:
                    break
                try:
                    nb.validate(full=True)
                except pa.ArrowInvalid:
                    if not first_invalid:
                        return "fail", "ipcErrorLate", None
            if first_invalid:
                return "fail", "ipcError", None
            late = True
            mdd = dict(md) if md is not None else {}
            _ = [f.name for f in b.schema]
            if b.num_rows == 1:
                _ = [b.column(i)[0].as_py() for i in range(b.num_columns)]
        else:
            mdd = dict(md) if md is not None else {}
        return "ok", (b, mdd), mdd
    except StopIteration:
        cls = "stopIteration"
    except pa.ArrowInvalid:
        cls = "arrowInvalid"
    except pa.ArrowNotImplementedError:
        cls = "arrowNotImplemented"
    except pa.ArrowKeyError:
        cls = "arrowKeyError"
    except pa.ArrowTypeError:
        cls = "arrowTypeError"
    except UnicodeDecodeError:
        cls = "unicodeDecode"
    except OSError:
        cls = "osError"
    except pa.ArrowException:
        cls = "arrowOther"
    except Exception as e:  # noqa: BLE001 - anything else is outside the model's closed list
        cls = f"unmodelled:{type(e).__name__}"
    return "fail", ("late:" + cls if late else cls), mdd


def mutate(base: bytes, rng: Any) -> tuple[bytes, list[Any]]:
    b = bytearray(base)
    ops: list[Any] = []
    for _ in range(rng.choice([1, 1, 1, 2, 3])):
        if not b:
            break
        op = rng.choice(["flip", "flip", "set", "ins", "del", "zero", "trunc", "ff"])
        p = rng.randrange(len(b))
        if op == "flip":
            bit = rng.randrange(8)
            b[p] ^= 1 << bit
            ops.append(["flip", p, bit])
        elif op == "set":
            v = rng.randrange(256)
            b[p] = v
            ops.append(["set", p, v])
        elif op == "ff":
            b[p] = 0xFF
            ops.append(["set", p, 255])
        elif op == "ins":
            data = bytes(rng.randrange(256) for _ in range(rng.choice([1, 4, 8])))
            b[p:p] = data
            ops.append(["ins", p, data.hex()])
        elif op == "del":
            n = rng.choice([1, 4, 8])
            del b[p:p + n]
            ops.append(["del", p, n])
        elif op == "zero":
            n = rng.choice([4, 8, 16])
            b[p:p + n] = b"\0" * len(b[p:p + n])
            ops.append(["zero", p, n])
        else:
            b = b[:p]
            ops.append(["trunc", p])
    return bytes(b), ops


def apply_ops(base: bytes, ops: list[Any]) -> bytes:
    b = bytearray(base)
    for op in ops:
        k = op[0]
        if k == "flip":
            if op[1] < len(b):
                b[op[1]] ^= 1 << op[2]
        elif k == "set":
            if op[1] < len(b):
                b[op[1]] = op[2]
        elif k == "ins":
            b[op[1]:op[1]] = bytes.fromhex(op[2])
        elif k == "del":
            del b[op[1]:op[1] + op[2]]
        elif k == "zero":
            b[op[1]:op[1] + op[2]] = b"\0" * len(b[op[1]:op[1] + op[2]])
        elif k == "trunc":
            b = b[:op[1]]
    return bytes(b)


HAND_MADE = {
    # (exception class) -> functions of the base body giving a malformed stream of that class on every route
    "stopIteration": [lambda base: _ipc(pa.schema([]), []), lambda base: _ipc(IN_SCHEMA, []),
                      lambda base: _ipc(pa.schema([("a", pa.int64())]), [])],
    "arrowInvalid": [lambda base: b"", lambda base: b"\x00", lambda base: base[: len(base) // 2],
                     lambda base: b"this is not arrow ipc data at all", lambda base: b'{"a": 1}', lambda base: base[:9]],
}


class ParsePool:
    """Malformed bodies per (base kind, exception class): hand-made, corpus recipes, then seeded mutation search."""

    def __init__(self, env: Env, rng: Any, ctx: Any) -> None:
        self.env = env
        self.rng = rng
        self.pool: dict[tuple[str, str], list[tuple[bytes, Any]]] = {}
        self.recipes: dict[str, list[dict[str, Any]]] = {}
        p = Path(__file__).resolve().parents[1] / "corpus" / "C15" / "parse_recipes.json"
        if p.exists():
            for r in json.loads(p.read_text())["recipes"]:
                self.recipes.setdefault(r["base"], []).append(r)
        self.ctx = ctx

    def fill(self, base_kind: str, base: bytes, route: str, want: int, tries: int) -> None:
        base_md = classify_read3(base, route)[2]

        def add(body: bytes, how: Any) -> None:
            st, cls, md = classify_read3(body, route)
            if st == "fail" and cls.startswith("late:"):
                # raised while materialising names/values, i.e. after the metadata checks: usable as an instance of
                # the class only if the metadata is still the base request's (the server then gets that far too)
                if md != base_md:
                    return
                cls = cls.removeprefix("late:")
                how = ["late", how]
            if st == "fail":
                self.pool.setdefault((base_kind, cls), [])
                lst = self.pool[(base_kind, cls)]
                if len(lst) < want * 4 and all(body != b for b, _ in lst):
                    lst.append((body, how))

        for cls, fns in HAND_MADE.items():
            for i, fn in enumerate(fns):
                add(fn(base), ["hand", cls, i])
        for r in self.recipes.get(base_kind, []):
            add(apply_ops(base, r["ops"]), ["recipe", r["ops"]])
        for _ in range(tries):
            if all(len(self.pool.get((base_kind, e), [])) >= want for e in ("arrowInvalid", "osError", "arrowNotImplemented",
                                                                             "ipcError", "stopIteration")):
                break
            body, ops = mutate(base, self.rng)
            add(body, ["mut", ops])

    def get(self, base_kind: str, cls: str, rng: Any) -> tuple[bytes, Any] | None:
        lst = self.pool.get((base_kind, cls))
        return rng.choice(lst) if lst else None


# ------------------------------------------------------------------------------------------ the spec, in Python


def spec_defects(c: dict[str, str]) -> list[tuple[str, int]]:
    """Defects a request class has, from the property text (status per defect).  Order is irrelevant here."""
    d: list[tuple[str, int]] = []
    if c["size"] == "oversize":
        d.append(("oversize", 413))
    if c["cenc"] == "unsupported":
        d.append(("badEncoding", 415))
    if c["cenc"] == "corrupt":
        d.append(("undecodable", 400))
    if c["cenc"] == "bomb":
        d.append(("oversize", 413))
    if c["auth"] == "rejected":
        d.append(("authFailure", 401))
    if c["ctype"] != "correct":
        d.append(("wrongContentType", 415))
    route, kind, body = c["route"], c["kind"], c["body"]
    upload = route == "uploadUrl"   # the framework's own method on a literal route: `kind` plays no role
    if not upload:
        if kind == "unknown":
            d.append(("unknownMethod", 404))
        elif (route == "unary") != (kind in ("unary", "describe")):   # `__describe__` is a unary method
            d.append(("routeMismatch", 400))
    if body.startswith("parseFail"):
        d.append(("malformed", 400))
    elif body == "badMeta:protocolVersion":
        # not demanded of introspection (how a mismatched client learns the server's version) nor of the upload-URL method
        if route != "exchange" and not upload and kind != "describe":
            d.append(("malformed", 400))
    elif body.startswith("badMeta"):
        if route != "exchange":  # request metadata belongs to unary / init requests
            d.append(("malformed", 400))
    elif body.startswith("badValue"):
        if route != "exchange" and not upload:  # typed parameter values travel on unary / init requests
            d.append(("malformed", 400))
    elif body == "badParams:mismatch":
        if (route != "exchange" or kind == "exchanger") and not upload:   # upload-URL: one optional `count`, rest ignored
            d.append(("malformed", 400))
    elif body == "badParams:badNames":
        if route != "exchange" or kind == "exchanger":  # a producer continuation's tick columns are not looked at
            d.append(("malformed", 400))
    if route == "exchange" and c["token"] != "valid":
        d.append(("badToken", 400))
    return d


def spec_failed(c: dict[str, str]) -> bool:
    if c["route"] == "exchange" and c["body"] == "cancel":
        return False  # "the server ends the stream without dispatching the method"
    if c["route"] != "uploadUrl" and c["kind"] == "describe":
        return False  # introspection runs no user code and has no cap
    if c["beh"] in ("raises", "turnRaises"):
        return True
    if c["beh"] == "overshoot":  # hard cap: unary results and exchange turns; producer cap is soft
        return c["route"] == "unary" or (c["route"] == "exchange" and c["kind"] == "exchanger")
    return False


# ------------------------------------------------------------------------------------------ building one request

WRONG_CTYPES = ["text/plain", "application/json", "application/octet-stream", "application/vnd.apache.arrow.file",
                "application/x-www-form-urlencoded", "multipart/form-data; boundary=x", "arrow", "*/*"]
UNSUPPORTED_ENC = ["br", "deflate", "compress", "x-gzip", "bzip2", "zstd, gzip", "lz4", "snappy", "gzip;q=1", "zst"]
BAD_AUTH = [None, "Bearer nope", "Basic b2s6b2s=", "Bearer", "bearer ok", "Bearer ok ok", "Bearer  ok2"]


def _gzip(data: bytes) -> bytes:
    co = zlib.compressobj(6, zlib.DEFLATED, 31)
    return co.compress(data) + co.flush()


def _zstd(data: bytes) -> bytes:
    """One-shot frame: the header declares the content size (what the reference clients send)."""
    import zstandard

    return zstandard.ZstdCompressor(level=3).compress(data)


def _zstd_stream(data: bytes) -> bytes:
    """Streaming frame: no content size in the header (what streaming compressors produce)."""
    import zstandard

    co = zstandard.ZstdCompressor(level=3).compressobj()
    out = co.compress(data) + co.flush()
    assert zstandard.get_frame_parameters(out).content_size in (-1, 0, 18446744073709551615), "frame declares a size"
    return out


def _pad_to(env: "Env", plain: bytes, n: int, body_cls: str, route: str) -> bytes | None:
    """`plain` followed by zero bytes up to exactly `n` bytes (what follows the end-of-stream marker of a request is
    never read); None when that is impossible or would change what reading a malformed body raises."""
    if len(plain) > n:
        return None
    out = plain + b"\0" * (n - len(plain))
    if body_cls.startswith("parseFail:"):
        st, cls = classify_read(out, route)
        if st != "fail" or cls.removeprefix("late:") != body_cls.split(":")[1] or classify_read(plain, route)[1] != cls:
            return None
    return out   # (what follows a *well-formed* request stream is never looked at)


PAINT_OF_KIND = {"unary": "paint", "producer": "paint_rows", "exchanger": "paint_echo"}
GOOD_BLOB = Inner(7, "seven").serialize_to_bytes()
_BLOB_POOL: dict[str, list[bytes]] = {}


def classify_blob(blob: bytes) -> str | None:
    """What decoding a nested-dataclass blob raises (independent pyarrow read of the single-row IPC stream)."""
    try:
        r = ipc.open_stream(pa.BufferReader(blob))
        b = r.read_next_batch()
    except StopIteration:
        return "stopIteration"
    except pa.ArrowInvalid:
        return "arrowInvalid"
    except OSError:
        return "osError"
    except Exception:  # noqa: BLE001
        return None
    if b.num_rows != 1:
        return "valueError"      # documented: ValueError for a wrong row count
    return None


def _blob_pool(rng: Any) -> dict[str, list[bytes]]:
    if not _BLOB_POOL:
        r = ipc.open_stream(pa.BufferReader(GOOD_BLOB))
        sch = r.schema
        one = r.read_next_batch()
        cands = [b"", b"garbage", b"\x00", GOOD_BLOB[:40], GOOD_BLOB[: len(GOOD_BLOB) // 2], _ipc(sch, []),
                 _ipc(sch, [(pa.concat_batches([one, one]), None)]), _ipc(sch, [(one.slice(0, 0), None)])]
        import random as _r

        rr = _r.Random(1234)
        for _ in range(400):
            bb = bytearray(GOOD_BLOB)
            bb[rr.randrange(len(bb))] ^= 1 << rr.randrange(8)
            cands.append(bytes(bb))
        for c in cands:
            k = classify_blob(c)
            if k is not None and len(_BLOB_POOL.setdefault(k, [])) < 6:
                _BLOB_POOL[k].append(c)
    return _BLOB_POOL


def bad_value(exc: str, rng: Any) -> dict[str, Any] | None:
    """Parameter values whose conversion in `_deserialize_params` raises `exc` (None: no such value is known)."""
    if exc == "keyError":   # Enum members travel by name: `Color[name]`
        return {"color": rng.choice(["PURPLE", "", "red", "Red", "GREEN ", "RED\n", "0"]), "inner": GOOD_BLOB}
    lst = _blob_pool(rng).get(exc)
    if not lst:
        return None
    return {"color": rng.choice(["RED", "GREEN"]), "inner": rng.choice(lst)}


def _spoil_field_name(body: bytes, name: str, rng: Any) -> bytes:
    """Make the schema's field `name` invalid UTF-8 in place (flatbuffer string: uint32 length, bytes, NUL)."""
    import struct

    pat = struct.pack("<I", len(name)) + name.encode() + b"\0"
    i = body.find(pat)
    assert i >= 0, f"field name {name!r} not found in the serialized schema"
    b = bytearray(body)
    b[i + 4 + rng.randrange(len(name))] = rng.choice([0xFF, 0xFE, 0xC0, 0xAE, 0x80])
    out = bytes(b)
    st, payload = classify_read(out, "exchange")
    assert st == "ok", (st, payload)
    try:
        list(payload[0].schema.names)
    except UnicodeDecodeError:
        return out
    raise AssertionError("patched field name still decodes")


def build_request(env: Env, pool: ParsePool, c: dict[str, str], rng: Any) -> dict[str, Any] | None:
    """A concrete request of class `c`; None if the class cannot be realised (e.g. an exception class pyarrow never raises)."""
    route, kind, body_cls = c["route"], c["kind"], c["body"]
    name = METHOD_OF_KIND.get(kind) or rng.choice(UNKNOWN_NAMES)
    bad_kwargs = None
    if body_cls.startswith("badValue:") and route != "exchange":
        if kind == "describe" and route != "uploadUrl":
            return None  # `__describe__` has no parameters to convert
        bad_kwargs = bad_value(body_cls.split(":")[1], rng)
        if bad_kwargs is None:
            return None
        name = PAINT_OF_KIND.get(kind) or name
    if route == "uploadUrl":
        name = UPLOAD_METHOD   # a literal route: the framework's own method, whatever `kind` says
    path = "/" + name + {"unary": "", "init": "/init", "exchange": "/exchange", "uploadUrl": "/init"}[route]
    notes: dict[str, Any] = {"method": name}
    beh = c["beh"]

    # ---- plain (uncompressed) body
    if route in ("unary", "init", "uploadUrl"):
        if name == UPLOAD_METHOD:
            kwargs = {"count": rng.choice([1, 1, 2, 5, 0, -3, 1000])}
        elif name == "echo":
            kwargs = {"n": rng.choice([0, 1, 7, 100, 900]), "fail": False}
            if route == "unary":
                if beh in ("raises", "turnRaises"):
                    kwargs["fail"] = True
                elif beh == "overshoot":
                    kwargs["n"] = MAX_RESP + rng.choice([0, 1, 200, 5000])
        elif name == "gen":
            kwargs = {"n": rng.choice([0, 1, 2]), "size": rng.choice([1, 50, 400]), "fail_init": False, "fail_at": -1}
            if route == "init":
                if beh == "raises":
                    kwargs["fail_init"] = True
                elif beh == "turnRaises":
                    kwargs.update(n=3, size=rng.choice([10, 1500]), fail_at=rng.choice([0, 0, 1]))
                elif beh == "overshoot":
                    kwargs.update(n=rng.choice([4, 8]), size=rng.choice([1500, 3000, 5000]))
        elif name == "exch":
            kwargs = {"k": rng.randrange(100), "fail_init": False}
            if route == "init" and beh in ("raises", "turnRaises"):
                kwargs["fail_init"] = True
        else:
            kwargs = {}
        if bad_kwargs is not None:
            kwargs = dict(bad_kwargs)
        base_kind = "uploadUrl:upload" if route == "uploadUrl" else \
            f"{route}:{name if name in ('echo', 'gen', 'exch') else 'unknown'}"
        edit = None
        schema = None
        rows = None
        patch_name = None
        if bad_kwargs is not None:
            schema = env.schemas["paint"]   # unknown methods get the same columns
            notes["bad_value"] = body_cls.split(":")[1]
        if body_cls.startswith("badMeta:"):
            m = body_cls.split(":")[1]
            other = rng.choice([x for x in ("echo", "gen", "exch", "zzz", name + "x", "") if x != name])
            edit = {
                "noMethodKey": lambda md: md.pop(RPC_METHOD_KEY),
                "badMethodUtf8": lambda md: md.__setitem__(RPC_METHOD_KEY, rng.choice([b"\xff", b"ech\xc0o", b"\xed\xa0\x80"])),
                "noVersionKey": lambda md: md.pop(REQUEST_VERSION_KEY),
                "badVersion": lambda md: md.__setitem__(REQUEST_VERSION_KEY, rng.choice([b"0", b"2", b"", b"1 ", b"one", b"\xff"])),
                "methodMismatch": lambda md: md.__setitem__(RPC_METHOD_KEY, other.encode()),
                "protocolVersion": (lambda md: md.pop(PROTOCOL_VERSION_KEY)) if rng.random() < 0.4 else
                                   (lambda md: md.__setitem__(PROTOCOL_VERSION_KEY, rng.choice([b"2.0.0", b"1.3.9", b"1.5.0", b"x", b"1.4", b"\xff"]))),
            }[m]
            notes["meta"] = m
        elif body_cls == "badParams:badNames":
            sch0 = env.schemas.get(name, pa.schema([]))
            if not len(sch0):
                schema = pa.schema([pa.field("zz", pa.int64())])
                kwargs = {"zz": 1}
            patch_name = (schema if schema is not None else sch0).field(0).name
        elif body_cls == "badParams:mismatch":
            sch0 = env.schemas.get(name, pa.schema([]))
            variant = rng.choice(["extra", "missing", "renamed", "rows0", "rows2", "type"] if len(sch0) else ["extra", "rows2x"])
            if route == "uploadUrl":
                variant = rng.choice(["extra", "missing", "renamed", "type"])   # columns; the row count is `_read_request`'s
            notes["params"] = variant
            if variant == "extra":
                schema = sch0.append(pa.field("zz_extra", pa.int64()))
                kwargs = {**kwargs, "zz_extra": 1}
            elif variant == "missing":
                schema = pa.schema(list(sch0)[1:])
            elif variant == "renamed":
                f0 = sch0.field(0)
                schema = pa.schema([pa.field(f0.name + "_", f0.type)] + list(sch0)[1:])
            elif variant == "rows0":
                rows = []
            elif variant in ("rows2", "rows2x"):
                if variant == "rows2x":
                    schema = pa.schema([pa.field("zz_extra", pa.int64())])
                    rows = [{"zz_extra": 1}, {"zz_extra": 2}]
                else:
                    rows = [dict(kwargs), dict(kwargs)]
            elif variant == "type":
                f0 = sch0.field(0)
                schema = pa.schema([pa.field(f0.name, pa.utf8())] + list(sch0)[1:])
                kwargs = {**kwargs, f0.name: "not a number"}
        elif body_cls == "cancel":
            edit = lambda md: md.__setitem__(CANCEL_KEY, b"1")  # noqa: E731 - ignored outside /exchange
        tok_extra: dict[bytes, bytes] = {}
        if c["token"] == "tampered":  # tokens mean nothing on these routes
            tok_extra = {STATE_KEY: rng.choice([b"", b"AAAA", b"not-a-token", env.foreign[STATE_KEY]])}

        def edit2(md: dict[bytes, bytes], edit: Any = edit) -> None:
            md.update(tok_extra)
            if edit is not None:
                edit(md)

        plain = env.request(name, kwargs, md_edit=edit2, schema=schema, rows=rows)
        if patch_name is not None:
            plain = _spoil_field_name(plain, patch_name, rng)
            notes["params"] = "badNames"
        notes["kwargs"] = {k: v for k, v in kwargs.items()}
    else:
        # /exchange: an input batch carrying tokens
        if kind == "producer":
            tk = env.tok["producer:raises" if beh in ("raises", "turnRaises") else "producer:ok"]
        else:
            tk = env.tok["exchanger"]
        md: dict[bytes, bytes] = {}
        if c["token"] == "valid":
            md.update(tk)
            if rng.random() < 0.3:
                md.pop(CALL_STATE_KEY)  # the call is resolved from the warm cache; the echo is then optional
        elif c["token"] == "tampered":
            st = bytearray(tk[STATE_KEY])
            how = rng.choice(["flip", "trunc", "empty", "garbage", "foreign", "swap", "append"])
            notes["tamper"] = how
            if how == "flip":
                p = rng.randrange(len(st))
                st[p] = st[p] ^ 1 if chr(st[p] ^ 1).isalnum() else (ord("A") if st[p] != ord("A") else ord("B"))
            elif how == "trunc":
                st = st[: rng.randrange(1, len(st))]
            elif how == "empty":
                st = bytearray()
            elif how == "garbage":
                st = bytearray(rng.choice([b"AAAA", b"!!!!", b"not-a-token", b"\xff\xfe", b"A" * 80]))
            elif how == "foreign":
                st = bytearray(env.foreign[STATE_KEY])
            elif how == "swap":
                st = bytearray(tk[CALL_STATE_KEY])
            else:
                st = st + b"AAAA"
            md[STATE_KEY] = bytes(st)
            md[CALL_STATE_KEY] = tk[CALL_STATE_KEY]
        else:
            if rng.random() < 0.5:
                md[CALL_STATE_KEY] = tk[CALL_STATE_KEY]
        v = rng.choice([0, 1, 5, 200])
        if kind == "exchanger":
            if beh in ("raises", "turnRaises"):
                v = 13
            elif beh == "overshoot":
                v = MAX_RESP + rng.choice([0, 1, 300, 4000])
        sch = IN_SCHEMA if kind != "producer" else pa.schema([])
        batch = pa.RecordBatch.from_pydict({"v": [v]}, schema=IN_SCHEMA) if kind != "producer" else \
            pa.RecordBatch.from_pylist([], schema=pa.schema([]))
        if body_cls.startswith("badMeta:"):
            m = body_cls.split(":")[1]
            notes["meta"] = m
            md.update({
                "noMethodKey": {}, "noVersionKey": {},
                "badMethodUtf8": {RPC_METHOD_KEY: b"\xff"},
                "badVersion": {REQUEST_VERSION_KEY: b"9"},
                "methodMismatch": {RPC_METHOD_KEY: b"some_other_method", REQUEST_VERSION_KEY: b"1"},
                "protocolVersion": {PROTOCOL_VERSION_KEY: b"9.9.9"},
            }[m])
        elif body_cls == "badParams:badNames":
            sch = IN_SCHEMA
            batch = pa.RecordBatch.from_pydict({"v": [v]}, schema=IN_SCHEMA)
            notes["params"] = "badNames"
        elif body_cls == "badParams:mismatch":
            variant = rng.choice(["renamed", "extra", "missing"])
            notes["params"] = variant
            if variant == "renamed":
                sch = pa.schema([("w", pa.int64())])
                batch = pa.RecordBatch.from_pydict({"w": [v]}, schema=sch)
            elif variant == "extra":
                sch = pa.schema([("v", pa.int64()), ("zz", pa.int64())])
                batch = pa.RecordBatch.from_pydict({"v": [v], "zz": [1]}, schema=sch)
            else:
                sch = pa.schema([("zz", pa.utf8())])
                batch = pa.RecordBatch.from_pydict({"zz": ["a"]}, schema=sch)
        elif body_cls == "cancel":
            md[CANCEL_KEY] = b"1"
            if rng.random() < 0.5:
                batch = batch.slice(0, 0)
        plain = _ipc(sch, [(batch, md)])
        if body_cls == "badParams:badNames":
            plain = _spoil_field_name(plain, "v", rng)
        base_kind = f"exchange:{'gen' if kind == 'producer' else 'exch'}"
        notes["v"] = v

    predicted_exc = None
    if body_cls.startswith("parseFail:"):
        cls = body_cls.split(":")[1]
        got = pool.get(base_kind, cls, rng)
        if got is None:
            return None
        plain, how = got
        notes["malformed"] = how
        predicted_exc = ("late:" + cls) if (isinstance(how, list) and how and how[0] == "late") else cls

    # ---- content encoding + wire size (boundary sizes included: cap-1, cap, cap+1 on the wire and after decoding)
    headers: dict[str, str] = {}
    cenc = c["cenc"]
    if c["size"] == "atCap" and cenc in ("supported", "bomb") or (c["size"] == "atCap" and cenc.startswith("atCap:")):
        return None  # a compressed body cannot be padded to an exact wire length
    if cenc in ("none", "supported") and rng.random() < 0.35:
        near = _pad_to(env, plain, MAX_REQ - rng.choice([1, 1, 2]),
                       body_cls, route)
        if near is not None:
            plain = near
            notes["decoded_len"] = len(plain)
    wire = plain
    if cenc == "supported":
        codec = rng.choice(["gzip", "zstd", "zstd-stream"])
        wire = {"gzip": _gzip, "zstd": _zstd, "zstd-stream": _zstd_stream}[codec](plain)
        name_ = codec.split("-")[0]
        headers["Content-Encoding"] = rng.choice([name_, name_.upper(), f" {name_} "])
        notes["codec"] = codec
    elif cenc.startswith("atCap:"):
        coding = cenc.split(":")[1]
        exact = _pad_to(env, plain, MAX_REQ, body_cls, route)
        if exact is None:
            return None
        wire = {"gzip": _gzip, "zstdSized": _zstd, "zstdStream": _zstd_stream}[coding](exact)
        headers["Content-Encoding"] = "gzip" if coding == "gzip" else "zstd"
        notes["decoded_len"] = len(exact)
    elif cenc == "unsupported":
        headers["Content-Encoding"] = rng.choice(UNSUPPORTED_ENC)
        wire = plain if rng.random() < 0.5 else _gzip(plain)
    elif cenc == "corrupt":
        codec = rng.choice(["gzip", "zstd"])
        headers["Content-Encoding"] = codec
        good = _gzip(plain) if codec == "gzip" else _zstd(plain)
        # variants every decoder refuses at the frame header (a *truncated* gzip member is C17/C18's business)
        how = rng.choice(["plain", "trunc", "flip", "empty", "junk"] if codec == "zstd" else ["plain", "flip", "empty", "junk"])
        notes["corrupt"] = how
        if how == "plain" and len(plain) < 8:
            how = "junk"
        if how == "plain":
            wire = plain
        elif how == "trunc":
            wire = good[: max(1, len(good) // 2)]
        elif how == "flip":
            bb = bytearray(good)
            bb[0] ^= 0xFF
            wire = bytes(bb)
        elif how == "empty":
            wire = b"\x00\x01"
        else:
            wire = bytes(rng.randrange(256) for _ in range(40))
    elif cenc == "bomb":
        codec = rng.choice(["gzip", "zstd", "zstd-stream"])
        headers["Content-Encoding"] = codec.split("-")[0]
        over = rng.choice([1, 1, 2, 100, 50000])
        big = plain + b"\0" * max(MAX_REQ + over - len(plain), over)
        wire = {"gzip": _gzip, "zstd": _zstd, "zstd-stream": _zstd_stream}[codec](big)
        notes["decoded_len"] = len(big)
        notes["codec"] = codec
    if c["size"] == "oversize":
        pad = max(MAX_REQ + rng.choice([1, 1, 2, 1000]) - len(wire), 1)
        wire = wire + bytes(rng.randrange(256) for _ in range(pad))
    elif c["size"] == "atCap":
        if cenc == "none":
            exact = _pad_to(env, plain, MAX_REQ, body_cls, route)
            if exact is None:
                return None
            wire = exact
        else:  # unsupported / corrupt: the body is never decoded
            if len(wire) > MAX_REQ or (cenc == "corrupt" and notes.get("corrupt") == "trunc"):
                return None   # (a truncated frame keeps its header; padding it would hand the decoder a new frame)
            wire = wire + bytes(rng.randrange(1, 256) for _ in range(MAX_REQ - len(wire)))
            if cenc == "corrupt" and codec == "gzip" and wire[:2] == b"\x1f\x8b":
                return None
        assert len(wire) == MAX_REQ
    if len(wire) > MAX_REQ and c["size"] != "oversize":
        return None  # cannot realise "within" for this instance
    notes["wire_len"] = len(wire)
    if c["ctype"] == "correct":
        headers["Content-Type"] = CT
    elif c["ctype"] == "wrong":
        headers["Content-Type"] = rng.choice(WRONG_CTYPES)
    elif c["ctype"] == "wrongExtends":
        # a *different* media type that merely begins with the right one (no parameters: `;…` would be the same type)
        headers["Content-Type"] = CT + rng.choice(["2", "ing", "+json", ".v2", "x", "-batch", "s", "+zstd", "0", "_"])
    if c["auth"] == "ok":
        headers["Authorization"] = "Bearer ok"
    else:
        a = rng.choice(BAD_AUTH)
        if a is not None:
            headers["Authorization"] = a
    if rng.random() < 0.2:
        headers["X-Request-ID"] = "r" + str(rng.randrange(10**6))
    if rng.random() < 0.1:
        headers["Accept"] = rng.choice(["*/*", "text/html", CT])
    return {"path": path, "headers": headers, "body": wire, "notes": notes, "predicted_exc": predicted_exc,
            "upload_fail": route == "uploadUrl" and beh in ("raises", "turnRaises")}


# ------------------------------------------------------------------------------------------ observe / check


def observe(env: Env, path: str, headers: dict[str, str], body: bytes, upload_fail: bool = False) -> dict[str, Any]:
    CALLS.clear()
    UPLOAD_FAIL[0] = upload_fail
    r = env.client.simulate_post(path, body=body, headers=headers)
    UPLOAD_FAIL[0] = False
    if path == "/__describe__" and r.status_code == 200 and r.headers.get("X-VGI-RPC-Error") is None:
        CALLS.append("describe")   # answered from the pre-built batch: no implementation code to log the call
    arrow = False
    err = None
    if (r.headers.get("content-type") or "") == CT:
        try:
            streams = rpcutil.read_all_streams(r.content)
            arrow = len(streams) >= 1
            for _sch, bs in streams:
                err = err or rpcutil.error_of(bs)
        except Exception:  # noqa: BLE001
            arrow = False
    return {"status": r.status_code, "marker": r.headers.get("X-VGI-RPC-Error") == "true",
            "marker_raw": r.headers.get("X-VGI-RPC-Error"), "arrow": arrow, "dispatched": bool(CALLS),
            "err_type": (err or {}).get("type"), "has_error_batch": err is not None, "calls": list(CALLS),
            "ctype": r.headers.get("content-type")}


def cls_key(c: dict[str, str]) -> str:
    return "/".join(c[k] for k in ("route", "kind", "body", "ctype", "cenc", "size", "auth", "token", "beh"))


def oracle(ctx: Any, case: dict[str, Any], c: dict[str, str], obs: dict[str, Any]) -> None:
    """The property, directly."""
    defects = spec_defects(c)
    allowed = sorted({s for _, s in defects}) if defects else [200]
    st = obs["status"]
    first = defects[0][0] if defects else "none"
    if st >= 500:
        _fail(ctx, case, f"C15:5xx:{c['route']}:{c['body'].split(':')[0]}:{st}", f"status {st} for client-controlled input (class {cls_key(c)})")
        return
    if st not in allowed:
        _fail(ctx, case, f"C15:status:{st}-for-{'+'.join(sorted({d for d, _ in defects})) or 'valid'}:{c['route']}",
                 f"status {st}, property allows {allowed} (defects {defects}; class {cls_key(c)})")
        return
    want_marker = (not defects) and spec_failed(c)
    if obs["marker"] != want_marker:
        _fail(ctx, case, f"C15:marker:{'set' if obs['marker'] else 'missing'}:{c['route']}:{first}:{c['beh']}",
                 f"X-VGI-RPC-Error is {obs['marker_raw']!r}, should be {'true' if want_marker else 'absent'} (class {cls_key(c)})")
        return
    if st not in (401, 415) and not obs["arrow"]:
        _fail(ctx, case, f"C15:body-not-arrow:{st}:{first}", f"{st} response body is not a decodable Arrow IPC stream "
                 f"(content-type {obs['ctype']!r}; class {cls_key(c)})")
        return
    if obs["marker"] and not obs["has_error_batch"]:
        _fail(ctx, case, f"C15:marker-without-error-batch:{c['route']}", "X-VGI-RPC-Error set but the body carries no EXCEPTION batch")
        return
    if obs["dispatched"] and defects:
        _fail(ctx, case, f"C15:dispatched-despite:{first}:{c['route']}", f"method code ran ({obs['calls']}) for a request with defects {defects}")


def check_case(ctx: Any, env: Env, c: dict[str, str], req: dict[str, Any], sub: int, model: dict[str, Any] | None,
               lean_spec: dict[str, Any] | None) -> None:
    obs = observe(env, req["path"], req["headers"], req["body"], upload_fail=req.get("upload_fail", False))
    case = {"cls": c, "sub": sub, "path": req["path"], "headers": req["headers"], "notes": req["notes"],
            "body_len": len(req["body"]), "body_sha": __import__("hashlib").sha256(req["body"]).hexdigest()[:16]}
    defects = spec_defects(c)
    ctx.case(case, nontrivial=True, tags=(f"route:{c['route']}", f"kind:{c['kind']}", f"body:{c['body'].split(':')[0]}",
                                          f"status:{obs['status']}", f"defects:{min(len(defects), 3)}",
                                          f"marker:{int(obs['marker'])}", f"cenc:{c['cenc']}", f"ctype:{c['ctype']}"))
    oracle(ctx, case, c, obs)
    if model is not None:
        got = {k: obs[k] for k in ("status", "marker", "arrow", "dispatched")}
        if got != model:
            ctx.mismatch(case, model, got, "respond: model vs implementation")
        elif req["predicted_exc"] is not None and obs["status"] == 400 and not defects[:-1]:
            # only the malformed body is wrong: the server's error batch names the class it caught
            want = expected_exc_name(req["predicted_exc"], c["route"])
            if want is not None and obs["err_type"] != want:
                ctx.mismatch(case, {"exception": want}, {"exception": obs["err_type"]}, "exception class: harness prediction vs server")
    if lean_spec is not None:
        py = {"allowed": sorted({s for _, s in defects}), "dispatched": not defects, "failed": spec_failed(c)}
        ln = {"allowed": sorted(set(lean_spec["allowed"])), "dispatched": lean_spec["dispatched"], "failed": lean_spec["failed"]}
        if py != ln:
            ctx.mismatch(case, ln, py, "spec: Lean Spec/C15 vs the harness's Python reading of the property")


def weak_oracle(ctx: Any, case: dict[str, Any], route: str, obs: dict[str, Any]) -> None:
    """What holds of *any* POST with good headers whatever the body bytes are."""
    st = obs["status"]
    if st >= 500:
        _fail(ctx, case, f"C15:5xx:{route}:fuzz:{st}", f"status {st} for a mutated request body")
    elif st not in (200, 400):
        _fail(ctx, case, f"C15:status:{st}-for-mutated-body:{route}", f"status {st} for a mutated body with good headers (only 200/400 possible)")
    elif not obs["arrow"]:
        _fail(ctx, case, f"C15:body-not-arrow:{st}:fuzz", "response body is not a decodable Arrow IPC stream")
    elif obs["marker"] and (st != 200 or not obs["dispatched"]):
        _fail(ctx, case, f"C15:marker:set:{route}:fuzz", f"X-VGI-RPC-Error on a response whose request never reached method code (status {st})")
    elif st == 400 and obs["dispatched"]:
        _fail(ctx, case, f"C15:dispatched-despite:malformed:{route}", "400 but method code ran")


# ------------------------------------------------------------------------------------------ run


def _route_kinds(rng: Any) -> list[tuple[str, str]]:
    """(route, kind) pairs: the method kind is enumerated except on the literal upload-URL route, where it is drawn."""
    return [(r, k) for r in ROUTES if r != "uploadUrl" for k in KINDS] + [("uploadUrl", rng.choice(KINDS))]


def _classes_quick(rng: Any) -> list[dict[str, str]]:
    out = []
    for route, kind in _route_kinds(rng):
        for body in BODIES:
            for ctype in CTYPES:
                # the three at-the-cap codings are one class here (drawn), all three in the passes below
                for cenc in CENCS[:5] + [rng.choice(CENCS[5:])]:
                    # tokens are looked at on /exchange only: enumerated there, drawn elsewhere
                    for token in (TOKENS if route == "exchange" else [rng.choice(TOKENS)]):
                        out.append({"route": route, "kind": kind, "body": body, "ctype": ctype, "cenc": cenc,
                                    "size": rng.choice(["within"] * 7 + ["oversize"] * 2 + ["atCap"]),
                                    "auth": "ok" if rng.random() < 0.8 else "rejected",
                                    "token": token, "beh": rng.choice(BEHS)})
    for route, kind in _route_kinds(rng):
        for size in SIZES:
            for auth in AUTHS:
                for beh in BEHS:
                    for body in (("valid", "cancel") if route == "exchange" else ("valid",)):
                        for cenc in CENCS:
                            out.append({"route": route, "kind": kind, "body": body, "ctype": "correct", "cenc": cenc,
                                        "size": size, "auth": auth, "token": "valid", "beh": beh})
    # everything the resources decide on requests that pass the middleware chain and the content-type check
    for route, kind in _route_kinds(rng):
        for body in BODIES:
            for token in (TOKENS if route == "exchange" else [rng.choice(TOKENS)]):
                for beh in BEHS:
                    out.append({"route": route, "kind": kind, "body": body, "ctype": "correct",
                                "cenc": rng.choice(["none", "none", "supported"] + CENCS[5:]),
                                "size": rng.choice(["within", "within", "within", "atCap"]), "auth": "ok",
                                "token": token, "beh": beh})
    return out


def _classes_full(rng: Any) -> Any:
    """Thorough tier.  The full product (634 752 realisable classes) is factored the way the server — and the model, see
    `good_passing` in Proofs/C15 — looks at a request: the middleware chain reads only (wire size, encoding, auth), the
    resources read only the rest.  (a) every resource-level class behind every (size, encoding) pair the chain lets
    through; (b) every (size, encoding, auth) class in front of 1 500 drawn resource-level classes."""
    passing = [("within", "none"), ("atCap", "none"), ("within", "supported")] + [("within", c) for c in CENCS[5:]]
    for route, kind in _route_kinds(rng):
        for body in BODIES:
            for ctype in CTYPES:
                for token in TOKENS:
                    for beh in BEHS:
                        for size, cenc in passing:
                            yield {"route": route, "kind": kind, "body": body, "ctype": ctype, "cenc": cenc,
                                   "size": size, "auth": "ok", "token": token, "beh": beh}
    for cenc in CENCS:
        for size in SIZES:
            if size == "atCap" and cenc not in ("none", "unsupported", "corrupt"):
                continue  # a compressed body cannot be padded to an exact wire length
            for auth in AUTHS:
                for _ in range(1500):
                    yield {"route": rng.choice(ROUTES), "kind": rng.choice(KINDS), "body": rng.choice(BODIES),
                           "ctype": rng.choice(CTYPES), "cenc": cenc, "size": size, "auth": auth,
                           "token": rng.choice(TOKENS), "beh": rng.choice(BEHS)}


def _bases(env: Env) -> dict[str, tuple[bytes, str]]:
    ex_md = dict(env.tok["exchanger"])
    gen_md = dict(env.tok["producer:ok"])
    return {
        "unary:echo": (env.request("echo", {"n": 3, "fail": False}), "unary"),
        "unary:gen": (env.request("gen", {"n": 1, "size": 1, "fail_init": False, "fail_at": -1}), "unary"),
        "unary:exch": (env.request("exch", {"k": 1, "fail_init": False}), "unary"),
        "unary:unknown": (env.request("nope", {}), "unary"),
        "uploadUrl:upload": (env.request(UPLOAD_METHOD, {"count": 2}), "unary"),
        "init:echo": (env.request("echo", {"n": 3, "fail": False}), "init"),
        "init:gen": (env.request("gen", {"n": 1, "size": 1, "fail_init": False, "fail_at": -1}), "init"),
        "init:exch": (env.request("exch", {"k": 1, "fail_init": False}), "init"),
        "init:unknown": (env.request("nope", {}), "init"),
        "exchange:exch": (_ipc(IN_SCHEMA, [(pa.RecordBatch.from_pydict({"v": [5]}, schema=IN_SCHEMA), ex_md)]), "exchange"),
        "exchange:gen": (_ipc(pa.schema([]), [(pa.RecordBatch.from_pylist([], schema=pa.schema([])), gen_md)]), "exchange"),
    }


def _run_classes(ctx: Any, env: Env, pool: ParsePool, classes: list[dict[str, str]], per_class: int, seed_tag: str) -> None:
    import random

    CH = 4000
    unreal: dict[str, int] = {}
    for i in range(0, len(classes), CH):
        chunk = classes[i:i + CH]
        model = spec = None
        if ctx.driver is not None:
            model = ctx.driver.batch([("C15.respond", c) for c in chunk])
            spec = ctx.driver.batch([("C15.spec", c) for c in chunk])
        for j, c in enumerate(chunk):
            for k in range(per_class):
                sub = ctx.rng.randrange(2**32)
                rng = random.Random(f"{seed_tag}:{sub}")
                req = build_request(env, pool, c, rng)
                if req is None:
                    unreal[c["body"]] = unreal.get(c["body"], 0) + 1
                    break
                check_case(ctx, env, c, req, sub, model[j] if model else None, spec[j] if spec else None)
    for b, n in sorted(unreal.items()):
        ctx.tag(f"unrealized:{b}")
        ctx.notes.setdefault("unrealized_classes", {})[b] = ctx.notes.get("unrealized_classes", {}).get(b, 0) + n


def _setup(ctx: Any) -> tuple[Env, ParsePool, dict[str, tuple[bytes, str]]]:
    import logging

    logging.getLogger("falcon").setLevel(logging.CRITICAL)
    logging.getLogger("vgi_rpc").setLevel(logging.CRITICAL)
    logging.getLogger("vgi_rpc.http").setLevel(logging.CRITICAL)
    if ctx.driver is not None:
        SHAPE.update(ctx.driver.call("C15.shape", {}))
    env = Env()
    pool = ParsePool(env, ctx.rng, ctx)
    bases = _bases(env)
    tries = ctx.budget(2500, 40000)
    for bk, (base, route) in bases.items():
        pool.fill(bk, base, route, want=4, tries=tries)
    return env, pool, bases


def run(ctx: Any) -> None:
    _FAIL_COUNT.clear()
    import random

    env, pool, bases = _setup(ctx)
    found = sorted({e for (_bk, e) in pool.pool})
    ctx.note("parse_exception_classes_realized", found)
    unm = [e for e in found if e.startswith("unmodelled:")]
    for e in unm:
        ctx.mismatch({"exception_class": e}, {"ParseExc": PARSE_EXC}, {"raised": e}, "pyarrow raised a class outside the model's closed list")

    thorough = ctx.tier == "thorough"
    if ctx.deep and not thorough:
        # a proof / the correspondence is broken: search harder for a failing input, but stay within minutes
        _run_classes(ctx, env, pool, _classes_quick(ctx.rng), 4, "q")
        ctx.note("class_product", "raised-budget search: quick class set x 4 instances")
    elif thorough:
        classes = list(_classes_full(ctx.rng))
        _run_classes(ctx, env, pool, classes, 1, "full")
        ctx.exhaustive = True
        ctx.note("class_product", len(classes))
        _run_classes(ctx, env, pool, _classes_quick(ctx.rng), 2, "q")
    else:
        classes = _classes_quick(ctx.rng)
        _run_classes(ctx, env, pool, classes, 1, "q")
        ctx.exhaustive = True
        ctx.note("class_product", "route x kind x body x content-type x content-encoding x token (exhaustive); "
                                  "size/auth/behaviour drawn per class")

    # ---- byte-level fuzz stream: good headers, mutated bodies, all routes
    n_fuzz = ctx.budget(4000, 80000)
    hdr = {"Content-Type": CT, "Authorization": "Bearer ok"}
    paths = {"unary:echo": "/echo", "init:gen": "/gen/init", "init:exch": "/exch/init", "exchange:exch": "/exch/exchange",
             "exchange:gen": "/gen/exchange", "uploadUrl:upload": "/__upload_url__/init", "unary:unknown": "/__describe__"}
    keys = sorted(paths)
    for _ in range(n_fuzz):
        sub = ctx.rng.randrange(2**32)
        rng = random.Random(f"fuzz:{sub}")
        bk = rng.choice(keys)
        base, route = bases[bk]
        body, ops = mutate(base, rng)
        obs = observe(env, paths[bk], hdr, body)
        st, cls = classify_read(body, route)
        case = {"fuzz": bk, "sub": sub, "ops": ops}
        ctx.case(case, nontrivial=True, tags=("fuzz", f"fuzz:{route}", f"fuzz:status:{obs['status']}",
                                              f"fuzz:read:{cls if st == 'fail' else 'ok'}"))
        weak_oracle(ctx, case, route, obs)
        if st == "fail":
            late = cls.startswith("late:")
            cls = cls.removeprefix("late:")
            if cls.startswith("unmodelled:"):
                ctx.mismatch(case, {"ParseExc": PARSE_EXC}, {"raised": cls}, "pyarrow raised a class outside the model's closed list")
            elif obs["status"] < 500 and (obs["status"] != 400 or obs["dispatched"]):
                _fail(ctx, case, f"C15:status:{obs['status']}-for-malformed:{route}", f"body that fails to read ({cls}) answered {obs['status']}")
            elif not late and obs["status"] == 400 and expected_exc_name(cls, route) and obs["err_type"] != expected_exc_name(cls, route):
                ctx.mismatch(case, {"exception": expected_exc_name(cls, route)}, {"exception": obs["err_type"]},
                             "exception class: harness prediction vs server")


def replay(ctx: Any, case: dict[str, Any]) -> None:
    import random

    env, pool, bases = _setup(ctx)
    if "fuzz" in case:
        bk = case["fuzz"]
        base, route = bases[bk]
        body = apply_ops(base, case["ops"])
        paths = {"unary:echo": "/echo", "init:gen": "/gen/init", "init:exch": "/exch/init", "exchange:exch": "/exch/exchange",
                 "exchange:gen": "/gen/exchange", "uploadUrl:upload": "/__upload_url__/init", "unary:unknown": "/__describe__"}
        obs = observe(env, paths[bk], {"Content-Type": CT, "Authorization": "Bearer ok"}, body)
        ctx.case(case)
        weak_oracle(ctx, case, route, obs)
        st, cls = classify_read(body, route)
        if st == "fail" and obs["status"] < 500 and obs["status"] != 400:
            _fail(ctx, case, f"C15:status:{obs['status']}-for-malformed:{route}", f"body that fails to read ({cls}) answered {obs['status']}")
        return
    c = case["cls"]
    tag = "full" if ctx.tier == "thorough" else "q"
    for t in (tag, "q", "full"):
        rng = random.Random(f"{t}:{case['sub']}")
        req = build_request(env, pool, c, rng)
        if req is not None and req["path"] == case["path"] and req["headers"] == case["headers"]:
            break
    if req is None:
        return
    model = ctx.driver.call("C15.respond", c) if ctx.driver is not None else None
    spec = ctx.driver.call("C15.spec", c) if ctx.driver is not None else None
    check_case(ctx, env, c, req, case["sub"], model, spec)
