"""C24 — precondition gates compose with AND semantics.

K (correspondence): the Lean model (`Model/C24.lean`, `Model/C24Stack.lean`) vs the real code —
    * `require_all(PreconditionGate(stub), inner_stub)` for every stub gate behaviour x every inner behaviour:
      returned `AuthContext` (all four fields, claims in order) or exception class, inner invocation count;
    * `chain_authenticate` / `require_all` constructor guards for every argument list over {callback, gate, other}
      up to length 3;  the chain's OR loop on every outcome list up to length 3;
    * the full stack `make_wsgi_app(authenticate=require_all(proxy_proof_gate(cfg), inner))`: modes x inner kinds x
      proof states (+ a random stream from the C22 token grammar): HTTP outcome, the `AuthContext` the method
      received, inner invocation count.
O (direct oracle, from the property text): a method sees `authenticated=True` only if the §6 table accepted the
    proof (no inner) / the inner authenticator itself returned an authenticated context; in allow mode a request
    whose proof the table refuses gets the same HTTP status and the same identity (domain, authenticated,
    principal, other claims) as the same request against the same app *without* the gate (inner alone, or no
    authenticator), with inner consulted exactly as often; in require mode it gets 401, the method does not run and
    inner is never called; `chain_authenticate` raises TypeError whenever a gate is among its arguments, and a
    `require_all` result placed in a chain still refuses (401) without consulting later members.
"""

from __future__ import annotations

import io
import itertools
from typing import Any, Protocol

from harness.common import proofutil as pu
from harness.common import rpcutil
from harness.common.lean import j2s, s2j

PROPERTY = "C24"
LEAN_MODULES = ["VgiVerif.Proofs.C24"]
EXTRACTORS = ["gen_c24", "gen_c22"]
OBLIGATIONS = [
    "VgiVerif.C24.C24_and",
    "VgiVerif.C24.C24_allow",
    "VgiVerif.C24.C24_require",
    "VgiVerif.C24.C24_refusal_not_swallowed",
    "VgiVerif.C24.C24_no_or",
    "VgiVerif.C24.C24_require_all_needs_gate",
    "VgiVerif.C24.C24_chain_swallows",
    "VgiVerif.C24.C24_proof_gate",
    "VgiVerif.C24.C24_stack",
]
TRUSTED = [
    "callbacks are modelled by what they do on the current request (deterministic in the request); isinstance / exception-class "
    "dispatch of CPython (ValueError vs PermissionError vs other) as rendered by the three-way error class",
    "Falcon middleware order and `_AuthMiddleware` handing the returned AuthContext to the method unchanged (exercised, and "
    "modelled only as dispatch / 401 / 500)",
    "the proxy-proof gate itself is the C22 model (HMAC abstract)",
]
RULE = (
    "finite table enumerated exhaustively: modes {allow, require} x inner {absent, accepting, accepting with a clashing claims key, "
    "accepting-unauthenticated, ValueError, AuthFailure, PermissionError, RuntimeError} x proof {valid, absent, empty, malformed, "
    "two instances, unknown kid, expired, not yet valid, bad MAC, replayed}; stub gates x inner stubs; every constructor argument "
    "list over {callback, gate, other} up to length 3; then a seeded stream of C22-grammar tokens through the stack. "
    "Non-trivial when a gate is involved; distinct by (mode, inner, header value / stub behaviour)."
)
MANIFEST = {
    "level": "proof",
    "text": "Lean theorems over the model of require_all / chain_authenticate / the middleware: authenticated only if gate verified "
            "(no inner) or inner accepted (C24_and), allow-mode pass-through equals the gateless outcome up to the attribution entry "
            "with inner consulted once (C24_allow), a refusing gate means zero inner calls and the gate's own error (C24_require), "
            "PermissionError ends an OR chain and is a 401, a gate in chain_authenticate is a construction-time TypeError (C24_no_or); "
            "C24_stack instantiates the gate with the C22 verifier model and the §6 table. Shapes of the gate-only branch and of the guards are "
            "extracted from the source; finite behaviour table enumerated exhaustively against the real WSGI stack",
    "note": "callbacks deterministic per request; Falcon/WSGI plumbing exercised not modelled",
    "technique": "Lean 4 proof (kernel-checked) + extraction + exhaustive model/implementation correspondence + direct oracle",
}

NOW0 = 1_700_000_000
SECRET = bytes(range(32))
KEYS = {"kid-1": (SECRET, "edge-proxy"), "kid-1-v2": (b"\x42" * 32, "edge-proxy")}
ORIGIN = "worker-a"
SKEW = 30
CLAIMS_KEY = "vgi_proxy_proof"


# ------------------------------------------------------------------------------------------ inner authenticators

INNER_KINDS = ["absent", "accept", "accept_clash", "accept_unauth", "value_error", "auth_failure", "permission_error", "runtime_error"]


def make_inner(kind: str, log: list[str]) -> Any:
    from vgi_rpc.http import AuthFailure, AuthReason
    from vgi_rpc.rpc import AuthContext

    if kind == "absent":
        return None

    def inner(req: Any) -> Any:
        log.append(kind)
        if kind == "accept":
            return AuthContext(domain="bearer", authenticated=True, principal="alice", claims={"role": "admin"})
        if kind == "accept_clash":
            return AuthContext(domain="bearer", authenticated=True, principal="bob", claims={CLAIMS_KEY: "spoofed", "z": "1"})
        if kind == "accept_unauth":
            return AuthContext(domain="guest", authenticated=False, principal=None, claims={})
        if kind == "value_error":
            raise ValueError("bad token")
        if kind == "auth_failure":
            raise AuthFailure(AuthReason.INVALID_CREDENTIAL, "nope")
        if kind == "permission_error":
            raise PermissionError("forbidden")
        raise RuntimeError("boom")

    return inner


def inner_model(kind: str) -> Any:
    """what the inner callback does on a request, for the driver"""
    if kind == "absent":
        return None
    if kind == "accept":
        return {"ok": {"domain": s2j("bearer"), "authenticated": True, "principal": s2j("alice"), "claims": [[s2j("role"), s2j("admin")]]}}
    if kind == "accept_clash":
        return {"ok": {"domain": s2j("bearer"), "authenticated": True, "principal": s2j("bob"),
                       "claims": [[s2j(CLAIMS_KEY), s2j("spoofed")], [s2j("z"), s2j("1")]]}}
    if kind == "accept_unauth":
        return {"ok": {"domain": s2j("guest"), "authenticated": False, "principal": None, "claims": []}}
    cls = {"value_error": "value", "auth_failure": "value", "permission_error": "permission", "runtime_error": "other"}[kind]
    return {"err": {"cls": cls, "what": s2j(kind)}}


INNER_AUTHENTICATED = {"accept": True, "accept_clash": True, "accept_unauth": False}


def ctx_canon(ctx: Any) -> dict[str, Any]:
    """AuthContext → comparable dict (claims as an ordered list; nested flat maps marked)"""
    cl = []
    for k, v in ctx.claims.items():
        cl.append([k, {"map": [[a, b] for a, b in v.items()]} if isinstance(v, dict) or hasattr(v, "items") else v])
    return {"domain": ctx.domain, "authenticated": bool(ctx.authenticated), "principal": ctx.principal, "claims": cl}


def ctx_of_model(j: dict[str, Any]) -> dict[str, Any]:
    cl = []
    for k, v in j["claims"]:
        cl.append([j2s(k), {"map": [[j2s(a), j2s(b)] for a, b in v["map"]]} if isinstance(v, dict) else j2s(v)])
    return {"domain": j2s(j["domain"]) if j["domain"] is not None else None, "authenticated": j["authenticated"],
            "principal": j2s(j["principal"]) if j["principal"] is not None else None, "claims": cl}


def identity(c: dict[str, Any] | None) -> Any:
    """what the property compares: everything but the attribution entry"""
    if c is None:
        return None
    return {"domain": c["domain"], "authenticated": c["authenticated"], "principal": c["principal"],
            "claims": [kv for kv in c["claims"] if kv[0] != CLAIMS_KEY]}


def err_class(e: BaseException) -> str:
    if isinstance(e, ValueError):
        return "value"
    if isinstance(e, PermissionError):
        return "permission"
    return "other"


# ------------------------------------------------------------------------------------------ unit level: require_all on stubs

GATE_STUBS: list[tuple[str, Any]] = [
    ("claims-empty", {}),
    ("claims-verified-true", {"verified": "true", "proxy": "p", "kid": "k", "origin_id": "w", "reason": "ok"}),
    ("claims-verified-false", {"verified": "false", "proxy": "", "kid": "", "origin_id": "w", "reason": "no_proof"}),
    ("claims-verified-false-with-proxy", {"verified": "false", "proxy": "claimed"}),
    ("claims-verified-FALSE", {"verified": "FALSE", "proxy": "p"}),
    ("claims-proxy-only", {"proxy": "x"}),
    ("raise-proof-error", ("ProofError", "bad_mac")),
    ("raise-permission", ("PermissionError", "no")),
    ("raise-value", ("ValueError", "v")),
    ("raise-runtime", ("RuntimeError", "r")),
]


def make_stub_gate(spec: Any, name: str = "stub_gate", key: str = "stub_claims") -> Any:
    from vgi_rpc.http._bearer import PreconditionGate
    from vgi_rpc.http._proof import ProofError

    def fn(req: Any) -> Any:
        if isinstance(spec, dict):
            return dict(spec)
        cls, msg = spec
        if cls == "ProofError":
            raise ProofError(msg, "proxy proof required")
        raise {"PermissionError": PermissionError, "ValueError": ValueError, "RuntimeError": RuntimeError}[cls](msg)

    return PreconditionGate(fn, name=name, claims_key=key)


def gate_model(spec: Any, name: str = "stub_gate", key: str = "stub_claims") -> dict[str, Any]:
    g: dict[str, Any] = {"name": s2j(name), "claims_key": s2j(key)}
    if isinstance(spec, dict):
        g["claims"] = [[s2j(k), s2j(v)] for k, v in spec.items()]
    else:
        cls = {"ProofError": "permission", "PermissionError": "permission", "ValueError": "value", "RuntimeError": "other"}[spec[0]]
        g["err"] = {"cls": cls, "what": s2j(spec[1])}
    return g


def unit_require_all(ctx: Any) -> None:
    from vgi_rpc.http import require_all

    req = pu.make_request(None)
    for (gname, gspec), ikind in itertools.product(GATE_STUBS, INNER_KINDS):
        for key in ("stub_claims", CLAIMS_KEY):
            log: list[str] = []
            auth = require_all(make_stub_gate(gspec, key=key), make_inner(ikind, log))
            try:
                impl: dict[str, Any] = {"ok": ctx_canon(auth(req))}
            except BaseException as e:  # noqa: BLE001
                impl = {"err": err_class(e)}
            impl["inner_calls"] = len(log)
            case = {"unit": "require_all", "gate": gname, "inner": ikind, "claims_key": key}
            ctx.case(case, nontrivial=True, tags=("unit:require_all", f"gate:{gname.split('-')[0]}", f"inner:{ikind}"))
            # ---- O on the unit: the three sentences of the property
            verified = isinstance(gspec, dict) and gspec.get("verified") != "false"
            passed_unverified = isinstance(gspec, dict) and gspec.get("verified") == "false"
            if "ok" in impl and impl["ok"]["authenticated"]:
                if ikind == "absent" and not verified:
                    ctx.fail(case, f"C24:authenticated-without-verification:gate-only:{gname}",
                             f"require_all(gate) returned authenticated=True although the gate did not verify: {impl['ok']}")
                if ikind != "absent" and not INNER_AUTHENTICATED.get(ikind, False):
                    ctx.fail(case, f"C24:authenticated-without-inner-acceptance:{ikind}", f"authenticated=True although inner is {ikind}")
            if passed_unverified:
                log2: list[str] = []
                ref_inner = make_inner(ikind, log2)
                try:
                    ref: dict[str, Any] = {"ok": ctx_canon(ref_inner(req))} if ref_inner is not None else {"ok": {"domain": None, "authenticated": False, "principal": None, "claims": []}}
                except BaseException as e:  # noqa: BLE001
                    ref = {"err": err_class(e)}
                same = (("err" in impl and impl.get("err") == ref.get("err")) or
                        ("ok" in impl and "ok" in ref and _identity_key(impl["ok"], key) == _identity_key(ref["ok"], key)))
                if not same or impl["inner_calls"] != len(log2):
                    ctx.fail(case, f"C24:allow-not-anonymous:{ikind}", f"unverified pass-through gives {impl}, without the gate {ref}")
            if not isinstance(gspec, dict):
                if impl.get("inner_calls") != 0 or "err" not in impl:
                    ctx.fail(case, f"C24:inner-consulted-after-gate-failure:{ikind}", f"gate raised, composed callback gave {impl}")
            # ---- K
            if ctx.driver is not None:
                m = ctx.driver.call("C24.requireAll", {"gate": gate_model(gspec, key=key), "inner": inner_model(ikind)})
                mc: dict[str, Any] = {"ok": ctx_of_model(m["out"]["ok"])} if "ok" in m["out"] else {"err": m["out"]["err"]["cls"]}
                mc["inner_calls"] = m["inner_calls"]
                if mc != impl:
                    ctx.mismatch(case, mc, impl, "require_all: model vs implementation")


def _identity_key(c: dict[str, Any], key: str) -> Any:
    return {"domain": c["domain"], "authenticated": c["authenticated"], "principal": c["principal"],
            "claims": [kv for kv in c["claims"] if kv[0] != key]}


def unit_constructors(ctx: Any) -> None:
    from vgi_rpc.http import chain_authenticate, require_all
    from vgi_rpc.rpc import AuthContext

    def plain(req: Any) -> Any:
        return AuthContext(domain="x", authenticated=True, principal="p")

    def mk(kind: str) -> Any:
        if kind == "fn":
            return plain
        if kind == "gate":
            return make_stub_gate({"verified": "true"})
        if kind == "composed":
            return require_all(make_stub_gate({"verified": "true"}), plain)
        return object()

    for n in range(0, 4):
        for kinds in itertools.product(["fn", "gate", "composed"], repeat=n):
            try:
                chain_authenticate(*[mk(k) for k in kinds])
                impl = "ok"
            except TypeError:
                impl = "TypeError"
            except ValueError:
                impl = "ValueError"
            case = {"unit": "chain_authenticate", "members": list(kinds)}
            ctx.case(case, nontrivial="gate" in kinds, tags=("unit:chain-ctor", f"ctor:{impl}"))
            want = "ValueError" if n == 0 else ("TypeError" if "gate" in kinds else "ok")
            if "gate" in kinds and impl != "TypeError":
                ctx.fail(case, "C24:gate-accepted-in-or-chain", f"chain_authenticate({kinds}) -> {impl}")
            elif impl != want:
                ctx.fail(case, f"C24:chain-constructor:{want}->{impl}", f"chain_authenticate({kinds}) -> {impl}, expected {want}")
            if ctx.driver is not None:
                m = ctx.driver.call("C24.chainConstruct", {"members": [{"kind": "gate" if k == "gate" else "fn"} for k in kinds]})
                mc = "ok" if "ok" in m else m["error"]
                if mc != impl:
                    ctx.mismatch(case, mc, impl, "chain_authenticate constructor: model vs implementation")
    for kind in ("fn", "gate", "composed", "other"):
        try:
            require_all(mk(kind), plain)
            impl = "ok"
        except TypeError:
            impl = "TypeError"
        case = {"unit": "require_all-ctor", "gate_arg": kind}
        ctx.case(case, nontrivial=True, tags=("unit:require_all-ctor",))
        if (kind == "gate") != (impl == "ok"):
            ctx.fail(case, f"C24:require_all-constructor:{kind}->{impl}", f"require_all({kind}, inner) -> {impl}")
        if ctx.driver is not None:
            m = ctx.driver.call("C24.requireAllConstruct", {"member": {"kind": {"fn": "fn", "gate": "gate", "composed": "fn", "other": "other"}[kind]}})
            mc = "ok" if "ok" in m else m["error"]
            if mc != impl:
                ctx.mismatch(case, mc, impl, "require_all constructor: model vs implementation")
    # the OR loop: every outcome list up to length 3
    outs = ["accept", "value_error", "auth_failure", "permission_error", "runtime_error"]
    req = pu.make_request(None)
    for n in range(1, 4):
        for kinds in itertools.product(outs, repeat=n):
            log: list[str] = []
            auth = chain_authenticate(*[make_inner(k, log) for k in kinds])
            try:
                impl2: dict[str, Any] = {"ok": ctx_canon(auth(req))}
            except BaseException as e:  # noqa: BLE001
                impl2 = {"err": err_class(e)}
            impl2["tried"] = len(log)
            case = {"unit": "chain-run", "members": list(kinds)}
            ctx.case(case, nontrivial=False, tags=("unit:chain-run",))
            if ctx.driver is not None:
                m = ctx.driver.call("C24.chainRun", {"outs": [inner_model(k) for k in kinds]})
                mc2: dict[str, Any] = {"ok": ctx_of_model(m["out"]["ok"])} if "ok" in m["out"] else {"err": m["out"]["err"]["cls"]}
                mc2["tried"] = m["tried"]
                if mc2 != impl2:
                    ctx.mismatch(case, mc2, impl2, "chain_authenticate loop: model vs implementation")


# ------------------------------------------------------------------------------------------ the real stack


class WhoSvc(Protocol):
    def whoami(self) -> str: ...


def make_apps(mode: str, ikind: str) -> dict[str, Any]:
    """the app under test (gate AND inner) and the reference app without the gate, sharing one service"""
    import falcon.testing

    from vgi_rpc.http import make_wsgi_app, require_all
    from vgi_rpc.rpc import CallContext, RpcServer

    seen: list[Any] = []

    class Impl:
        def whoami(self, ctx: CallContext) -> str:
            seen.append(ctx.auth)
            return "ok"

    server = RpcServer(WhoSvc, Impl())
    log: list[str] = []
    log_ref: list[str] = []
    cur = {"now": NOW0}
    gate, clock, cache = pu.make_gate(mode, ORIGIN, KEYS, SKEW, 1000, True, lambda: cur["now"])
    app = make_wsgi_app(server, authenticate=require_all(gate, make_inner(ikind, log)), proxy_proof_required=(mode == "require"),
                        token_key=b"k" * 32)
    ref = make_wsgi_app(server, authenticate=make_inner(ikind, log_ref), token_key=b"k" * 32)
    body = rpcutil.request_bytes("whoami", server._methods["whoami"].params_schema, {})
    return {"client": falcon.testing.TestClient(app), "ref": falcon.testing.TestClient(ref), "seen": seen, "log": log, "log_ref": log_ref,
            "cur": cur, "clock": clock, "body": body, "spec_cache": pu.SpecCache(ttl=SKEW, capacity=1000), "mode": mode, "inner": ikind}


def post(client: Any, body: bytes, vals: list[str]) -> Any:
    headers = [("Content-Type", "application/vnd.apache.arrow.stream")] + [("VGI-Proxy-Proof", v) for v in vals]
    return client.simulate_post("/whoami", body=body, headers=headers, wsgierrors=io.StringIO())


def proof_states() -> list[tuple[str, list[str]]]:
    good = pu.spec_mint(SECRET, "kid-1", NOW0, "A" * 22, ORIGIN)
    rot = pu.spec_mint(b"\x42" * 32, "kid-1-v2", NOW0, "B" * 22, ORIGIN)
    return [
        ("valid", [good]),
        ("replayed", [good]),                     # the same token again
        ("valid-rotated-kid", [rot]),
        ("absent", []),
        ("empty", [""]),
        ("malformed", ["v1.kid-1.notanumber." + "A" * 22 + "." + "A" * 43]),
        ("two-instances", [pu.spec_mint(SECRET, "kid-1", NOW0, "C" * 22, ORIGIN)] * 2),
        ("unknown-kid", [pu.spec_mint(SECRET, "kid-9", NOW0, "D" * 22, ORIGIN)]),
        ("expired", [pu.spec_mint(SECRET, "kid-1", NOW0 - SKEW - 1, "E" * 22, ORIGIN)]),
        ("not-yet-valid", [pu.spec_mint(SECRET, "kid-1", NOW0 + SKEW + 1, "F" * 22, ORIGIN)]),
        ("bad-mac", [pu.spec_mint(b"\x00" * 32, "kid-1", NOW0, "G" * 22, ORIGIN)]),
        ("wrong-origin", [pu.spec_mint(SECRET, "kid-1", NOW0, "H" * 22, "worker-b")]),
    ]


def stack_request(ctx: Any, env: dict[str, Any], pname: str, vals: list[str]) -> None:
    mode, ikind = env["mode"], env["inner"]
    svals = [v.strip() for v in vals]  # falcon.testing strips every instance; the joined value is what the gate sees
    raw = ",".join(svals) if svals else None
    env["seen"].clear()
    env["log"].clear()
    env["log_ref"].clear()
    with pu.quiet_proof_logger():
        r = post(env["client"], env["body"], vals)
    got_ctx = ctx_canon(env["seen"][0]) if env["seen"] else None
    dispatched = bool(env["seen"])
    inner_calls = len(env["log"])
    env["seen"].clear()
    with pu.quiet_proof_logger():
        r_ref = post(env["ref"], env["body"], [])
    ref_ctx = ctx_canon(env["seen"][0]) if env["seen"] else None
    ref_calls = len(env["log_ref"])
    skind, sval, step = pu.spec_table(svals, NOW0, KEYS, ORIGIN, SKEW, env["spec_cache"], 0)
    proof_ok = skind == "ok"
    case = {"stack": True, "mode": mode, "inner": ikind, "proof": pname, "vals": vals}
    ctx.case(case, nontrivial=True, tags=("stack", f"mode:{mode}", f"inner:{ikind}", f"proof:{'ok' if proof_ok else sval}",
                                         f"http:{r.status_code}"))
    # ---------------- O
    if dispatched and got_ctx["authenticated"]:
        if ikind == "absent" and not proof_ok:
            ctx.fail(case, f"C24:authenticated-without-verification:{mode}:{sval}",
                     f"method saw {identity(got_ctx)} although the table refuses the proof ({sval}) and there is no inner authenticator")
        if ikind != "absent" and not INNER_AUTHENTICATED.get(ikind, False):
            ctx.fail(case, f"C24:authenticated-without-inner-acceptance:{ikind}", f"method saw authenticated=True, inner is {ikind}")
    if not proof_ok and mode == "allow":
        if r.status_code != r_ref.status_code or identity(got_ctx) != identity(ref_ctx) or inner_calls != ref_calls:
            ctx.fail(case, f"C24:allow-not-anonymous:{ikind}:{'identity' if r.status_code == r_ref.status_code else 'status'}",
                     f"allow mode, proof {sval}: status {r.status_code}, identity {identity(got_ctx)}, inner calls {inner_calls}; "
                     f"without the gate: status {r_ref.status_code}, identity {identity(ref_ctx)}, inner calls {ref_calls}")
    if not proof_ok and mode == "require":
        if r.status_code != 401 or dispatched or inner_calls != 0:
            ctx.fail(case, f"C24:require-gate-failure:{'inner-consulted' if inner_calls else 'not-refused'}:{ikind}",
                     f"require mode, proof {sval}: status {r.status_code}, dispatched {dispatched}, inner calls {inner_calls}")
    if proof_ok and ikind != "absent" and (r.status_code != r_ref.status_code or identity(got_ctx) != identity(ref_ctx)):
        ctx.fail(case, f"C24:valid-proof-changes-identity:{ikind}",
                 f"valid proof: status {r.status_code} identity {identity(got_ctx)}; inner alone: {r_ref.status_code} {identity(ref_ctx)}")
    # ---------------- K
    if ctx.driver is not None and not any(0xD800 <= ord(c) <= 0xDFFF for c in (raw or "")):
        m = ctx.driver.call("C24.stack", {
            "mode": mode, "keys": [[s2j(k), v[0].hex(), s2j(v[1])] for k, v in KEYS.items()], "origin": s2j(ORIGIN), "skew": SKEW,
            "hmac": pu.hmac_rows([raw], KEYS, ORIGIN), "cache": env["model_cache"],
            "reqs": [{"raw": s2j(raw) if raw is not None else None, "now": NOW0, "mono": 0, "inner": inner_model(ikind)}]})
        out = m["outs"][0]
        served = out["served"]["served"]
        mc = {"served": served, "ctx": ctx_of_model(out["served"]["ctx"]) if served == "dispatch" else None, "inner_calls": out["inner_calls"]}
        ic = {"served": "dispatch" if dispatched else str(r.status_code), "ctx": got_ctx, "inner_calls": inner_calls}
        if mc != ic:
            ctx.mismatch(case, mc, ic, "stack: model vs implementation")
        env["model_cache"] = m["cache"]  # the replay cache, threaded through the model like the real gate's


def stack_all(ctx: Any) -> None:
    from harness import c22

    rng = ctx.rng
    envs = {}
    for mode in ("allow", "require"):
        for ikind in INNER_KINDS:
            env = make_apps(mode, ikind)
            env["model_cache"] = {"ttl": SKEW, "capacity": 1000, "entries": []}
            envs[(mode, ikind)] = env
            for pname, vals in proof_states():
                stack_request(ctx, env, pname, vals)
    # a gate-bearing composite inside an OR chain still refuses, and later members are not consulted
    chain_case(ctx)
    # seeded stream from the C22 grammar
    history: list[str] = []
    for _ in range(ctx.budget(300, 6000)):
        mode = rng.choice(["allow", "require"])
        ikind = rng.choice(INNER_KINDS)
        vals, tag = c22.gen_request(rng, KEYS, ORIGIN, SKEW, NOW0, history, b"\x07" * 32)
        if any(ord(c) > 255 or c in "\r\n\x00" for v in vals for c in v):
            continue
        stack_request(ctx, envs[(mode, ikind)], "gen:" + tag, vals)


def chain_case(ctx: Any) -> None:
    import falcon.testing

    from vgi_rpc.http import chain_authenticate, make_wsgi_app, require_all
    from vgi_rpc.rpc import CallContext, RpcServer

    seen: list[Any] = []

    class Impl:
        def whoami(self, ctx: CallContext) -> str:  # the parameter must be called `ctx`
            seen.append(ctx.auth)
            return "ok"

    server = RpcServer(WhoSvc, Impl())
    body = rpcutil.request_bytes("whoami", server._methods["whoami"].params_schema, {})
    for mode in ("require", "allow"):
        log_a: list[str] = []
        log_b: list[str] = []
        gate, _clock, _cache = pu.make_gate(mode, ORIGIN, KEYS, SKEW, 1000, True, lambda: NOW0)
        auth = chain_authenticate(require_all(gate, make_inner("value_error", log_a)), make_inner("accept", log_b))
        client = falcon.testing.TestClient(make_wsgi_app(server, authenticate=auth, token_key=b"k" * 32))
        seen.clear()
        with pu.quiet_proof_logger():
            r = post(client, body, [])
        case = {"stack": True, "chain": True, "mode": mode}
        ctx.case(case, nontrivial=True, tags=("stack:chain-of-composite", f"mode:{mode}"))
        if mode == "require" and (r.status_code != 401 or log_a or log_b or seen):
            ctx.fail(case, "C24:gated-composite-bypassed-in-chain",
                     f"chain(require_all(gate, a), b) without a proof: status {r.status_code}, a calls {len(log_a)}, b calls {len(log_b)}")
        if mode == "allow" and not (log_a == ["value_error"] and log_b == ["accept"] and seen and seen[0].principal == "alice"):
            ctx.fail(case, "C24:allow-not-anonymous:chain", f"allow-mode composite in a chain: status {r.status_code}, a {log_a}, b {log_b}")


class quiet_falcon:
    """inner authenticators that raise RuntimeError make Falcon log a traceback per request"""

    def __enter__(self) -> None:
        import logging

        self.lg = logging.getLogger("falcon")
        self.old = self.lg.disabled
        self.lg.disabled = True

    def __exit__(self, *a: Any) -> None:
        self.lg.disabled = self.old


def run(ctx: Any) -> None:
    with quiet_falcon():
        unit_require_all(ctx)
        unit_constructors(ctx)
        stack_all(ctx)
    ctx.exhaustive = True
    ctx.note("exhaustive_table", "modes x inner kinds x proof states; stub gates x inner stubs x claims keys; constructor lists up to length 3")


def replay(ctx: Any, case: dict[str, Any]) -> None:
    with quiet_falcon():
        _replay(ctx, case)


def _replay(ctx: Any, case: dict[str, Any]) -> None:
    if case.get("unit") == "require_all":
        unit_require_all(ctx)
    elif case.get("unit"):
        unit_constructors(ctx)
    elif case.get("chain"):
        chain_case(ctx)
    else:
        env = make_apps(case["mode"], case["inner"])
        env["model_cache"] = {"ttl": SKEW, "capacity": 1000, "entries": []}
        if case["proof"] == "replayed":
            stack_request(ctx, env, "valid", case["vals"])
        stack_request(ctx, env, case["proof"], case["vals"])
