"""C18 — compression codecs round-trip and respect output caps (`vgi_rpc/_codec.py`).

O (direct oracle, the property sentence): for every plaintext `x`, every frame of `x` (the repository's own
    `compress` at every level, one-shot / streaming / Arrow-produced frames with and without a stored content size,
    zlib / gzip-module members) and every cap: `decompress` returns `x` when no cap is given or `len(x) <= cap`, and
    raises `DecompressionLimitExceeded` otherwise.  `identity` returns its input.
    The same is demanded while the library wrappers *shorten reads* (any non-empty prefix ≤ n is a legal answer).
K (correspondence): the real loops run against recording wrappers of zstandard / zlib; the Lean model is run
    against a scripted library replaying the recorded answers and must issue the same size requests, reach the same
    outcome, return the same bytes and account the same number of decoded bytes.  Malformed inputs (truncated,
    garbage, lying content-size headers, bit flips) are part of K only: C18 states nothing about them (C17 does).
"""

from __future__ import annotations

import itertools
import re
import random
from typing import Any

from harness.common import codecshim as cs
from harness.common.lean import b2j

PROPERTY = "C18"
LEAN_MODULES = ["VgiVerif.Proofs.C18"]
EXTRACTORS = ["gen_c18"]
OBLIGATIONS = [
    "VgiVerif.C18.C18_cap",
    "VgiVerif.C18.C18_cap_zstd",
    "VgiVerif.C18.C18_cap_gzip",
    "VgiVerif.C18.C18_declared",
    "VgiVerif.C18.C18_identity",
    "VgiVerif.C18.C18_terminates_zstd",
    "VgiVerif.C18.C18_terminates_gzip",
    "VgiVerif.C18.C18_alloc_zstd",
    "VgiVerif.C18.C18_alloc_gzip",
    "VgiVerif.C18.C18_library_defaults",
]
TRUSTED = [
    "zstandard / zlib: dec(enc x) = x, content-size reporting, readers return a non-empty prefix of at most the requested "
    "size (stated as the predicates HonestZ / HonestG / ReaderFor of Spec/C18.lean; exercised on every run, not proved)",
    "the recording / read-shortening wrappers of harness/common/codecshim.py forward faithfully to the real library objects",
]
RULE = (
    "exhaustive byte strings over {00,61,ff} up to length 5 (quick; the length-5 strings alternate over halves of the "
    "frame kinds) / 6 (thorough) x 12 frame kinds x caps "
    "{none,0,len-1,len,len+1,large}; structured large plaintexts (zeros/random/text) of sizes around CHUNK=65536 and its "
    "multiples x caps around len and around CHUNK; all codec levels (thorough: zstd -7..22, gzip -1..9); zstd frames written "
    "with explicit compressor parameters (window_log 10..27 = up to the 128 MiB a level-22 streaming compressor declares, "
    "long-distance matching; size-less and size-declaring; thorough also the real streaming levels 20-22); every case once "
    "with full reads and once with rng-shortened reads; malformed frames (truncated / garbage / lying declared size / "
    "bit flip) for K only.  Distinct by (codec, frame kind, level, plaintext, cap, read-shortening seed); non-trivial "
    "when a cap is given or the frame is not identity"
)
PARTIAL = [
    "dec(enc x) = x for zstd / DEFLATE themselves is the libraries' contract (exercised, not proved); the cap logic, "
    "the declared-size pre-check, the sentinel read and termination — this repository's code — are proved",
    "identity is not subject to max_output_size (documented pass-through; nothing is decoded or allocated)",
]
MANIFEST = {
    "level": "proof",
    "text": "Lean theorems: for every plaintext, every honest zstd frame (size-declaring or size-less) / gzip member, every "
    "reader obeying the contract and every cap, the bounded decoders return the plaintext iff it fits and the limit error "
    "otherwise; they terminate for every reader; identity is a no-op.  The model is tied to _codec.py by extraction of the "
    "chunk constant, sentinel, comparison operators and loop shapes, and by replaying recorded library answers.",
    "note": "library round-trip and reader contract are assumptions (structure predicates), exercised on every run",
    "technique": "Lean 4 proof (induction on the loop with fuel cap+2) + scripted-library correspondence + direct oracle",
}

ALPHABET = (0x00, 0x61, 0xFF)
ZSTD_KINDS = ["repo", "oneshot_checksum", "streaming", "streaming_pieces", "stream_writer_size", "stream_writer_nosize", "arrow"]
GZIP_KINDS = ["repo", "zlib_pieces", "gzipmod", "arrow"]
# frames written with explicit compressor parameters: window sizes up to the 128 MiB a level-22 streaming compressor declares
# (27 is also the largest window a default zstd decoder accepts), long-distance matching, on size-less and size-declaring frames
ZSTD_PARAM_KINDS = ["stream_wlog23", "stream_wlog24", "stream_wlog25", "stream_wlog26", "stream_wlog27", "writer_wlog27", "stream_ldm27",
                    "stream_ldm", "stream_lvl19_wlog27", "oneshot_wlog27", "oneshot_ldm27", "stream_wlog10"]


def make_plain(spec: dict[str, Any]) -> bytes:
    if "hex" in spec:
        return bytes.fromhex(spec["hex"])
    n, pat = spec["n"], spec["pattern"]
    if pat == "zeros":
        return bytes(n)
    if pat == "random":
        return random.Random(f"plain:{spec.get('seed', 0)}").randbytes(n)
    if pat == "text":
        unit = b"the quick brown fox jumps over the lazy dog 0123456789\n"
        return (unit * (n // len(unit) + 1))[:n]
    if pat == "ramp":
        return bytes(i % 251 for i in range(n))
    raise ValueError(pat)


def build_frame(codec: str, kind: str, x: bytes, level: int | None) -> bytes:
    from vgi_rpc._codec import Encoding, compress

    if codec == "identity":
        return compress(Encoding.IDENTITY, x, level=level)
    if codec == "zstd":
        lv = 3 if level is None else level
        if kind == "repo":
            return compress(Encoding.ZSTD, x, level=level)
        if kind == "oneshot_checksum":
            return cs.zstd_oneshot(x, lv, checksum=True)
        if kind == "streaming":
            return cs.zstd_streaming(x, lv)
        if kind == "streaming_pieces":
            return cs.zstd_streaming(x, lv, pieces=3)
        if kind == "stream_writer_size":
            return cs.zstd_stream_writer(x, lv, with_size=True)
        if kind == "stream_writer_nosize":
            return cs.zstd_stream_writer(x, lv, with_size=False)
        if kind == "arrow":
            return cs.arrow_compressed(x, "zstd")
        m = re.fullmatch(r"(stream|writer|oneshot)_(?:lvl(\d+)_)?(wlog|ldm)(\d*)", kind)
        if m:
            lvl_ = int(m.group(2)) if m.group(2) else (1 if level is None else level)
            wlog = int(m.group(4)) if m.group(4) else 0
            ldm = m.group(3) == "ldm"
            if m.group(1) == "oneshot":
                return cs.zstd_oneshot_params(x, lvl_, wlog, ldm)
            return cs.zstd_params_streaming(x, lvl_, wlog, ldm, writer=(m.group(1) == "writer"))
    if codec == "gzip":
        lv = 6 if level is None else level
        if kind == "repo":
            return compress(Encoding.GZIP, x, level=level)
        if kind == "zlib_pieces":
            return cs.gzip_zlib(x, lv, pieces=3)
        if kind == "gzipmod":
            return cs.gzip_module(x, lv)
        if kind == "arrow":
            return cs.arrow_compressed(x, "gzip")
    raise ValueError((codec, kind))


def mangle(frame: bytes, how: dict[str, Any]) -> bytes | None:
    """Malformed variants (K only)."""
    t = how["type"]
    if t == "truncate":
        return frame[: max(0, len(frame) - how["cut"])]
    if t == "garbage":
        return random.Random(f"garbage:{how['seed']}").randbytes(how["n"])
    if t == "lying":
        return cs.patch_declared(frame, how["declared"])
    if t == "flip":
        if not frame:
            return None
        p = how["pos"] % len(frame)
        return frame[:p] + bytes([frame[p] ^ (1 << (how["bit"] % 8))]) + frame[p + 1 :]
    if t == "append":
        return frame + bytes.fromhex(how["hex"])
    if t == "members":
        # a series of `count` complete frames / gzip members (RFC 1952 multi-member stream, `cat a.gz b.gz`): each one is
        # within whatever cap fits one plaintext, the whole decodes to `count` times as much
        return frame * how["count"]
    if t == "append_frame":
        # one complete frame followed by a complete frame of another codec / kind
        other = build_frame(how["codec"], how["fkind"], make_plain(how["plain"]), None)
        return frame + other
    raise ValueError(t)


def cap_rel(n: int, cap: int | None) -> str:
    if cap is None:
        return "cap:none"
    if cap == 0 and n > 0:
        return "cap:0"
    if cap < n:
        return "cap:lt"
    if cap == n:
        return "cap:eq"
    if cap == n + 1:
        return "cap:eq+1"
    return "cap:gt"


def size_class(n: int) -> str:
    if n <= 6:
        return f"len:{n}"
    if n < 65536:
        return "len:<chunk"
    if n <= 65537:
        return "len:~chunk"
    return "len:>chunk"


def observe(codec: str, frame: bytes, cap: int | None, short_seed: int | None) -> tuple[tuple[Any, ...], cs.Trace]:
    from vgi_rpc._codec import DecompressionLimitExceeded, Encoding, decompress

    enc = {"zstd": Encoding.ZSTD, "gzip": Encoding.GZIP, "identity": Encoding.IDENTITY}[codec]
    rng = random.Random(f"short:{short_seed}") if short_seed is not None else None
    with cs.instrument(rng) as tr:
        try:
            out = decompress(enc, frame, max_output_size=cap)
            impl: tuple[Any, ...] = ("ok", out)
        except DecompressionLimitExceeded:
            impl = ("limit",)
        except Exception as e:  # noqa: BLE001  — zstandard.ZstdError / zlib.error / DecompressionError
            impl = ("corrupt", type(e).__name__)
    return impl, tr


def model_request(codec: str, frame: bytes, cap: int | None, tr: cs.Trace) -> tuple[str, dict[str, Any]]:
    a: dict[str, Any] = {"enc": codec.upper(), "cap": cap}
    if codec == "identity":
        a["data"] = b2j(frame)
    elif codec == "zstd":
        a["zstd"] = tr.zstd_desc()
    else:
        a["gzip"] = tr.gzip_desc(bool(frame))
    return ("C18.decompress", a)


def compare(ctx: Any, case: dict[str, Any], codec: str, impl: tuple[Any, ...], tr: cs.Trace, m: dict[str, Any]) -> None:
    want_reads = tr.zstd_requests() if codec == "zstd" else tr.gzip_requests() if codec == "gzip" else []
    impl_c = {"out": impl[0], "bytes": impl[1].hex() if impl[0] == "ok" else None, "reads": want_reads}
    model_c = {"out": m["out"], "bytes": m["bytes"], "reads": m["reads"]}
    if impl_c != model_c:
        # keep the report small
        for d in (impl_c, model_c):
            if d["bytes"] and len(d["bytes"]) > 64:
                d["bytes"] = f"<{len(d['bytes']) // 2} bytes sha={hash(d['bytes']) & 0xffffffff:x}>"
        ctx.mismatch(case, model_c, impl_c, "decompress: outcome / bytes / requested read sizes")
        return
    streamed = bool(want_reads) or any(ev[0] in ("flush", "decall", "readall") for ev in tr.events)
    if streamed and m["peak"] != tr.decoded_bytes():
        ctx.mismatch(case, {"peak": m["peak"]}, {"decoded_bytes": tr.decoded_bytes()}, "decoded bytes accounted by the loop")


def check_honest(ctx: Any, pending: list[Any], codec: str, kind: str, level: int | None, pspec: dict[str, Any], x: bytes,
                 frame: bytes, cap: int | None, short_seed: int | None) -> None:
    case = {"codec": codec, "kind": kind, "level": level, "plain": pspec, "cap": cap, "short": short_seed}
    impl, tr = observe(codec, frame, cap, short_seed)
    ctx.case(case, nontrivial=(cap is not None or codec != "identity"),
             tags=(f"codec:{codec}", f"kind:{codec}/{kind}", cap_rel(len(x), cap), size_class(len(x)),
                   "reads:short" if short_seed is not None else "reads:full"))
    if codec == "identity" or cap is None or len(x) <= cap:
        want: tuple[Any, ...] = ("ok", x)
    else:
        want = ("limit",)
    if impl != want:
        rel = cap_rel(len(x), cap)
        got = impl[0] if impl[0] != "ok" else ("ok-wrong-bytes" if impl[1] != x else "ok")
        ctx.fail(case, f"C18:{codec}:{kind}:{rel}:want-{want[0]}:got-{got}",
                 f"decompress({codec}, <{kind} frame of {len(x)} bytes>, cap={cap}) -> {got}"
                 f"{'' if impl[0] != 'ok' else f' ({len(impl[1])} bytes)'}; the property demands {want[0]}")
    pending.append((case, codec, impl, tr, model_request(codec, frame, cap, tr)))


def check_malformed(ctx: Any, pending: list[Any], codec: str, kind: str, pspec: dict[str, Any], how: dict[str, Any],
                    frame: bytes, cap: int | None, short_seed: int | None) -> None:
    case = {"codec": codec, "kind": kind, "level": None, "plain": pspec, "mangle": how, "cap": cap, "short": short_seed}
    impl, tr = observe(codec, frame, cap, short_seed)
    ctx.case(case, nontrivial=True, tags=(f"codec:{codec}", f"malformed:{how['type']}", f"malformed-out:{impl[0]}"))
    pending.append((case, codec, impl, tr, model_request(codec, frame, cap, tr)))


def flush(ctx: Any, pending: list[Any]) -> None:
    if ctx.driver is None or not pending:
        pending.clear()
        return
    res = ctx.driver.batch([p[4] for p in pending])
    for (case, codec, impl, tr, _req), m in zip(pending, res):
        compare(ctx, case, codec, impl, tr, m)
    pending.clear()


def caps_for(n: int) -> list[int | None]:
    out: list[int | None] = [None, 0, n, n + 1, n + 1000, 1 << 40]
    if n >= 1:
        out.append(n - 1)
    seen: list[int | None] = []
    for c in out:
        if c not in seen:
            seen.append(c)
    return seen


def run(ctx: Any) -> None:
    from vgi_rpc import _codec
    from vgi_rpc._codec import Encoding, compress

    rng = ctx.rng
    thorough = ctx.tier == "thorough" or ctx.deep
    pending: list[Any] = []

    # ---- K0: constants, enum, sentinel, compress dispatch ------------------------------------------------------
    if ctx.driver is not None:
        c = ctx.driver.call("C18.consts", {})
        impl_c = {"chunk": _codec._DECOMPRESS_CHUNK_BYTES, "members": [(e.name, e.value) for e in Encoding]}
        model_c = {"chunk": c["chunk"], "members": [(m["name"], "".join(chr(k) for k in m["value"])) for m in c["members"]]}
        ctx.case({"consts": True}, nontrivial=False, tags=("k:consts",))
        if impl_c != model_c:
            ctx.mismatch({"consts": True}, model_c, impl_c, "extracted constants / enum members")
        import zstandard

        real_gfp = zstandard.get_frame_parameters
        raws = [-1, 0, 1, 5, 255, 256, 65536, 2**32, 2**63, 2**64 - 2, 2**64 - 1] + [rng.randrange(0, 2**64) for _ in range(20)]
        for raw in raws:

            class _P:
                content_size = raw

            zstandard.get_frame_parameters = lambda data, _p=_P: _p  # type: ignore[assignment]
            try:
                got = _codec._zstd_content_size(b"")
            finally:
                zstandard.get_frame_parameters = real_gfp  # type: ignore[assignment]
            m = ctx.driver.call("C18.contentSize", {"raw": raw})
            ctx.case({"content_size_raw": raw}, nontrivial=True, tags=("k:sentinel",))
            if m != got:
                ctx.mismatch({"content_size_raw": raw}, m, got, "_zstd_content_size: model vs implementation")
        for enc, lvls in ((Encoding.ZSTD, [None, 1, 3, 19, -5]), (Encoding.GZIP, [None, 0, 6, 9]), (Encoding.IDENTITY, [None, 4])):
            for lv in lvls:
                x = b"compress-dispatch"
                got_b = compress(enc, x, level=lv)
                m = ctx.driver.call("C18.compress", {"enc": enc.name, "data": b2j(x), "level": lv})
                mb = bytes.fromhex(m) if m is not None else None
                case = {"compress": enc.name, "level": lv}
                ctx.case(case, nontrivial=True, tags=("k:compress",))
                if enc is Encoding.IDENTITY:
                    ok = mb == got_b
                elif enc is Encoding.ZSTD:
                    ok = mb is not None and mb[0] == 1 and got_b == cs.zstd_oneshot(x, mb[1] - 128)
                else:
                    ok = mb is not None and mb[0] == 2 and got_b == cs.gzip_zlib(x, mb[1] - 128)
                if not ok:
                    ctx.mismatch(case, m, got_b.hex(), "compress: which library call at which level")

    # ---- exhaustive small plaintexts ----------------------------------------------------------------------------
    max_len = 6 if thorough else 5
    small: list[bytes] = [bytes(t) for n in range(max_len + 1) for t in itertools.product(ALPHABET, repeat=n)]
    seed_ctr = 0
    for x in small:
        pspec = {"hex": x.hex()}
        combos = [("identity", "identity")] + [("zstd", k) for k in ZSTD_KINDS] + [("gzip", k) for k in GZIP_KINDS]
        if not thorough and len(x) == max_len:
            # quick tier: the longest strings alternate between the two halves of the frame kinds
            combos = combos[(small.index(x) % 2) :: 2]
        for codec, kind in combos:
            frame = build_frame(codec, kind, x, None)
            for cap in caps_for(len(x)):
                check_honest(ctx, pending, codec, kind, None, pspec, x, frame, cap, None)
                if cap is not None and codec != "identity" and (thorough or len(x) == 4 or (len(x) == 5 and rng.random() < 0.25)):
                    seed_ctr += 1
                    check_honest(ctx, pending, codec, kind, None, pspec, x, frame, cap, seed_ctr)
        if len(pending) > 1500:
            flush(ctx, pending)
    flush(ctx, pending)
    ctx.note("small_plaintexts_exhaustive_up_to", max_len)

    # ---- every level -------------------------------------------------------------------------------------------
    zl = list(range(-7, 23)) if thorough else [-5, -1, 0, 1, 3, 9, 19, 22]
    gl = list(range(-1, 10)) if thorough else [-1, 0, 1, 6, 9]
    lvl_plain = [{"hex": ""}, {"hex": "61"}, {"pattern": "text", "n": 300}, {"pattern": "random", "n": 257, "seed": 1},
                 {"pattern": "zeros", "n": 5000}]
    for pspec in lvl_plain:
        x = make_plain(pspec)
        for codec, levels, kinds in (("zstd", zl, ["repo", "streaming"]), ("gzip", gl, ["repo", "zlib_pieces"])):
            for lv in levels:
                for kind in kinds:
                    if codec == "zstd" and kind == "streaming" and lv > (9 if thorough else 3):
                        continue  # a size-less zstd compressor at level >= 10 allocates its full window: seconds per frame
                    frame = build_frame(codec, kind, x, lv)
                    for cap in caps_for(len(x)):
                        check_honest(ctx, pending, codec, kind, lv, pspec, x, frame, cap, None)
    flush(ctx, pending)

    # ---- compressor parameters: large windows (what ultra levels declare), long-distance matching ---------------------
    par_plain = [{"hex": ""}, {"hex": "61"}, {"pattern": "text", "n": 300}, {"pattern": "zeros", "n": 70000}]
    if thorough:
        par_plain += [{"pattern": "random", "n": 66000, "seed": 5}, {"pattern": "ramp", "n": 200000}]
    for pi, pspec in enumerate(par_plain):
        x = make_plain(pspec)
        for kind in ZSTD_PARAM_KINDS:
            if not thorough and pi >= 2 and kind in ("stream_wlog23", "stream_wlog25", "stream_wlog26", "oneshot_ldm27"):
                continue
            frame = build_frame("zstd", kind, x, None)
            for cap in caps_for(len(x)):
                check_honest(ctx, pending, "zstd", kind, None, pspec, x, frame, cap, None)
                if cap is not None and len(x) > 1:
                    seed_ctr += 1
                    check_honest(ctx, pending, "zstd", kind, None, pspec, x, frame, cap, seed_ctr)
    flush(ctx, pending)
    # the real ultra levels through a streaming compressor (tens of seconds of compressor set-up each): thorough tier only
    if thorough:
        for lv in (20, 21, 22):
            pspec = {"pattern": "text", "n": 480}
            x = make_plain(pspec)
            for kind in ("streaming", "stream_writer_nosize"):
                frame = build_frame("zstd", kind, x, lv)
                for cap in caps_for(len(x)):
                    check_honest(ctx, pending, "zstd", kind, lv, pspec, x, frame, cap, None)
        flush(ctx, pending)

    # ---- structured large plaintexts around CHUNK ---------------------------------------------------------------
    chunk = _codec._DECOMPRESS_CHUNK_BYTES
    sizes = [chunk - 1, chunk, chunk + 1, 2 * chunk - 1, 2 * chunk, 2 * chunk + 1, 200_000]
    if thorough:
        sizes += [3 * chunk, 3 * chunk + 1, 1 << 20]
    patterns = ["zeros", "random", "text"]
    combos_l = [("zstd", "repo"), ("zstd", "streaming"), ("zstd", "stream_writer_nosize"), ("zstd", "arrow"),
                ("gzip", "repo"), ("gzip", "arrow"), ("gzip", "zlib_pieces")]
    big_cases = []
    for n in sizes:
        for pat in patterns:
            for codec, kind in combos_l:
                caps = [None, 0, n - 1, n, n + 1, n - chunk, n + chunk, chunk - 1, chunk, chunk + 1, n - chunk - 1, 1 << 40]
                for cap in caps:
                    if cap is None or cap >= 0:
                        big_cases.append((n, pat, codec, kind, cap))
    rng.shuffle(big_cases)
    n_big = ctx.budget(120, 2500)
    frames_cache: dict[Any, tuple[bytes, bytes]] = {}
    for i, (n, pat, codec, kind, cap) in enumerate(big_cases[:n_big]):
        pspec = {"pattern": pat, "n": n, "seed": 7}
        key = (n, pat, codec, kind)
        if key not in frames_cache:
            if len(frames_cache) > 40:
                frames_cache.clear()
            x = make_plain(pspec)
            frames_cache[key] = (x, build_frame(codec, kind, x, None))
        x, frame = frames_cache[key]
        check_honest(ctx, pending, codec, kind, None, pspec, x, frame, cap, None if i % 3 else 100000 + i)
        if len(pending) >= 20:
            flush(ctx, pending)
    flush(ctx, pending)

    # ---- malformed frames: K only -------------------------------------------------------------------------------
    n_mal = ctx.budget(400, 8000)
    base_plain = [{"hex": ""}, {"hex": "616263"}, {"pattern": "text", "n": 1000}, {"pattern": "zeros", "n": 70000},
                  {"pattern": "random", "n": 3000, "seed": 3}, {"pattern": "ramp", "n": 66000}]
    for i in range(n_mal):
        pspec = rng.choice(base_plain)
        x = make_plain(pspec)
        codec = rng.choice(["zstd", "gzip"])
        kind = rng.choice(ZSTD_KINDS if codec == "zstd" else GZIP_KINDS)
        t = rng.choice(["truncate", "truncate", "garbage", "lying", "flip", "append", "members", "append_frame"])
        if t == "lying":
            codec, kind = "zstd", rng.choice(["repo", "oneshot_checksum", "stream_writer_size"])
        frame = build_frame(codec, kind, x, None)
        if t == "truncate":
            how: dict[str, Any] = {"type": t, "cut": rng.choice([1, 2, 4, 8, 9, 12, len(frame) // 2, len(frame) - 1, len(frame)])}
        elif t == "garbage":
            how = {"type": t, "seed": i, "n": rng.choice([0, 1, 4, 5, 18, 100])}
        elif t == "lying":
            how = {"type": t, "declared": rng.choice([0, 1, max(0, len(x) - 1), len(x) + 1, 2 * len(x) + 7, 256, 70000, 10**6, 2**31])}
        elif t == "flip":
            how = {"type": t, "pos": rng.randrange(0, 1 << 20), "bit": rng.randrange(8)}
        elif t == "members":
            how = {"type": t, "count": rng.choice([2, 3, 5, 10, 40])}
        elif t == "append_frame":
            oc = rng.choice(["zstd", "gzip"])
            how = {"type": t, "codec": oc, "fkind": rng.choice(ZSTD_KINDS if oc == "zstd" else GZIP_KINDS),
                   "plain": rng.choice([{"hex": "78"}, {"pattern": "text", "n": 500}, {"pattern": "zeros", "n": 70000}])}
        else:
            how = {"type": t, "hex": rng.choice(["00", "deadbeef", frame[:16].hex()])}
        bad = mangle(frame, how)
        if bad is None:
            continue
        cap = rng.choice([None, 0, len(x) - 1 if x else 0, len(x), len(x) + 1, 100, 65536, 1 << 30])
        check_malformed(ctx, pending, codec, kind, pspec, how, bad, cap, None if i % 2 else 200000 + i)
        if len(pending) >= 200:
            flush(ctx, pending)
    flush(ctx, pending)


def replay(ctx: Any, case: dict[str, Any]) -> None:
    pending: list[Any] = []
    if "codec" not in case:
        ctx.case(case, nontrivial=False)
        return
    x = make_plain(case["plain"])
    frame = build_frame(case["codec"], case["kind"], x, case.get("level"))
    if "mangle" in case:
        bad = mangle(frame, case["mangle"])
        if bad is not None:
            check_malformed(ctx, pending, case["codec"], case["kind"], case["plain"], case["mangle"], bad, case["cap"], case.get("short"))
    else:
        check_honest(ctx, pending, case["codec"], case["kind"], case.get("level"), case["plain"], x, frame, case["cap"], case.get("short"))
    flush(ctx, pending)
