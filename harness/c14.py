"""C14 — the call-state cache never changes a request's outcome.

Histories of init / continuation / exchange / cancel requests over 2–3 *real* app instances (``make_wsgi_app`` behind
``falcon.testing.TestClient``) that share one ``token_key``, with cache capacities 0..3, several caller identities
(an ``authenticate`` callback), and a logical clock (the ``time`` module attribute of ``_state_token`` / ``_app_stream``
is replaced for the duration of a run) that steps across the token TTL in quarter seconds.

O (direct oracle, the property on the implementation):
    every continuation request is also sent, at the same clock value, to a reference instance whose cache is empty;
    for a *conforming* request (the client echoes the call token it was handed — WIRE_PROTOCOL "MUST echo") the worker's
    response must equal the reference's: status, decoded rows, error class, rejection category.
    A non-conforming request must get the reference's answer to it or the reference's answer to the conforming request.
    Whatever is served must have been minted for an identity with the caller's AAD.
K (correspondence): the whole history is run through the Lean model in one driver call; per request the model's warm and
    cold outcomes are compared with the two real responses, and after every request the contents of every worker's
    ``_CallStateCache._entries`` (keys in order, expiry) with the model's caches.
"""

import base64
import io
import itertools
from dataclasses import dataclass
from typing import Any, ClassVar, Protocol

import pyarrow as pa

from harness.common import c14sched, rpcutil
from harness.common.lean import s2j

PROPERTY = "C14"
LEAN_MODULES = ["VgiVerif.Proofs.C14"]
OBLIGATIONS = [
    "VgiVerif.C14.shapes_recognised",
    "VgiVerif.C14.cache_inv",
    "VgiVerif.C14.cursor_owner",
    "VgiVerif.C14.identKey_not_injective",
    "VgiVerif.C14.aad_refines_key",
    "VgiVerif.C14.lru_bound",
    "VgiVerif.C14.cache_calls_atomic",
    "VgiVerif.C14.cache_calls_sound",
    "VgiVerif.C14.cache_expiry_aligned",
    "VgiVerif.C14.C14_transparent",
    "VgiVerif.C14.C14_transparent_partial",
    "VgiVerif.C14.C14_no_cross_identity",
    "VgiVerif.C14.C14_nonconforming",
]
TRUSTED = [
    "AEAD tokens are symbolic (Dolev-Yao): a client presents issued tokens or junk, cannot seal; opening succeeds iff the "
    "AAD identity (for the call token: and the endpoint's method) matches and the token is fresh (byte-level framing and "
    "AAD layout are C12's model); method names are distinct NUL-free identifiers",
    "call ids (os.urandom(16)) are unique: a call id is the index of its /init",
    "a call state deserialised from its token equals the object /init cached (C11/C02 round trip); call-state class names "
    "are unique within a service",
    "in the history model a request is atomic; concurrency inside a worker is covered at the level of the cache's calls: "
    "extraction pins that every access to _entries is under the cache's lock, cache_calls_atomic / cache_calls_sound hold "
    "for every sequence of get/put calls (= every interleaving of atomic calls), and the real get/put are run from two "
    "threads under harness/common/detsched.py with line-level preemption",
    "the clock is read once per request (the harness pins time.time() during a request)",
    "Falcon, pyarrow IPC and the stream dispatch after state recovery are exercised, not modelled",
]
RULE = (
    "hand-written corpus (DESIGN §7.1 witness, cross-method, non-echoing, key-colliding identities, LRU order, capacity 0, "
    "TTL boundaries in quarter seconds, a busy stream driven past its call token's expiry) + generated histories (two thirds "
    "mixed, one third following one busy stream with sticky routing and clock steps below the TTL): 2-3 workers, capacities 0..3, token_ttl in {0,2,3,10}, "
    "<=12 (quick) / <=25 (thorough) steps of tick/init/continuation over 9 stream methods (two exchange methods with "
    "different call-state classes, a producer without call state, one whose state does not decode foreign cursors, one "
    "whose state never rehydrates; call-state class relations: /init hands out the declared class, an unrelated class, a "
    "subclass of the declared class, an unrelated class with the same name and fields, the declared classes of a union state) and 8 identities; continuation "
    "requests are mostly conforming, with streams of wrong identity / wrong method / missing, junk or mispaired call "
    "token / junk cursor / cancel; clock steps biased to the TTL boundary. A history is non-trivial when at least one "
    "continuation hit a warm cache; distinct by the symbolic history. Schedules: hand-written + generated two-thread "
    "programs of get/put on the real _CallStateCache (capacity 0..3, keys sharing call ids across identities, times around "
    "the expiry), and a continuation racing /init or another stream's continuation on one real worker at capacity; "
    "iterative context bounding (<= 2 preemptions) over every line of get/put, then seeded PCT/random-walk schedules; "
    "non-trivial when the schedule has a preemption; distinct by (programs, schedule)"
)
PARTIAL = [
    "schedules: two threads, <= 3 cache calls each (cache level) / two racing requests (through the app), preemption "
    "bound 2 + seeded random schedules; preemption points inside a worker other than the lines of _CallStateCache.get/put "
    "and the lock operations are not explored",
    "sub-request clock movement (time.time() read twice in one request)",
]
MANIFEST = {
    "level": "proof",
    "text": "Lean theorems over all histories / worker counts / capacities / TTLs: cache invariant, expiry alignment, "
            "transparency for conforming continuation requests, refinement for non-conforming ones, no cross-identity "
            "call state, LRU bound; the model follows the extracted shape of the cache call sites and is compared with "
            "real app instances on every run",
    "note": "tokens symbolic; 'continuation request' = request that echoes the call token (WIRE_PROTOCOL MUST); the tree "
            "carries fix: commits aligning entry expiry with the call token and re-applying on a hit what the miss path "
            "checks about the call (method binding, declared call-state type); token rejections are uniform on the wire, so "
            "outcomes are compared at the granularity tokenRejected / callMissing / callType / stateDecode",
    "technique": "Lean 4 proof: invariant + refinement over histories; extraction of constants, comparison operators and "
                 "call-site shape; differential correspondence on falcon.testing apps with a patched clock",
}

TPS = 4  # clock resolution of the harness: quarter seconds (exact in binary floating point)
T0 = 1_700_000_000  # epoch seconds at tick 0

# ------------------------------------------------------------------------------------------ service

from vgi_rpc.rpc import AuthContext, RpcServer, Stream, StreamState  # noqa: E402
from vgi_rpc.utils import ArrowSerializableDataclass  # noqa: E402

OUT = pa.schema([("y", pa.int64())])
IN = pa.schema([("x", pa.int64())])
EMPTY = pa.schema([])


@dataclass(frozen=True)
class CA(ArrowSerializableDataclass):
    tag: int


@dataclass(frozen=True)
class CB(ArrowSerializableDataclass):
    tag: int


@dataclass(frozen=True)
class CA2(CA):
    """A subclass of the declared call-state class (nothing validates `Stream.call_state` at /init)."""

    extra: int = 0


def _twin_of_ca() -> Any:
    @dataclass(frozen=True)
    class CA(ArrowSerializableDataclass):  # same name, same fields, unrelated class object
        tag: int

    return CA


CA_TWIN = _twin_of_ca()


def _emit(out: Any, code: int, tag: int, n: int, x: int) -> None:
    out.emit_pydict({"y": [code * 1_000_000 + tag * 10_000 + n * 100 + x]})


@dataclass
class SA(StreamState):
    n: int = 0
    CALL_STATE_TYPE: ClassVar[Any] = CA

    def bind_call_state(self, call_state: Any) -> None:
        self._cs = call_state

    def process(self, input: Any, out: Any, ctx: Any) -> None:
        _emit(out, 1, self._cs.tag, self.n, input.batch.column(0)[0].as_py())
        self.n += 1


@dataclass
class SB(StreamState):
    n: int = 0
    CALL_STATE_TYPE: ClassVar[Any] = CB

    def bind_call_state(self, call_state: Any) -> None:
        self._cs = call_state

    def process(self, input: Any, out: Any, ctx: Any) -> None:
        _emit(out, 2, self._cs.tag, self.n, input.batch.column(0)[0].as_py())
        self.n += 1


@dataclass
class SP(StreamState):
    tag: int = 0
    n: int = 0

    def process(self, input: Any, out: Any, ctx: Any) -> None:
        if self.n >= 90:
            out.finish()
            return
        _emit(out, 3, self.tag, self.n, 0)
        self.n += 1


@dataclass
class SA2(StreamState):
    k: int  # no default: a cursor state written by another method's class does not decode
    CALL_STATE_TYPE: ClassVar[Any] = CA

    def bind_call_state(self, call_state: Any) -> None:
        self._cs = call_state

    def process(self, input: Any, out: Any, ctx: Any) -> None:
        _emit(out, 4, self._cs.tag, self.k, input.batch.column(0)[0].as_py())
        self.k += 1


@dataclass
class SM(StreamState):
    """Misconfigured stream: the state class declares CA, /init hands out a CB call state."""

    n: int = 0
    CALL_STATE_TYPE: ClassVar[Any] = CA

    def bind_call_state(self, call_state: Any) -> None:
        self._cs = call_state

    def process(self, input: Any, out: Any, ctx: Any) -> None:
        _emit(out, 5, self._cs.tag, self.n, input.batch.column(0)[0].as_py())
        self.n += 1


@dataclass
class SD(StreamState):
    """A state that never comes back from a token: `rehydrate` raises (after the call was resolved and cached)."""

    n: int = 0
    CALL_STATE_TYPE: ClassVar[Any] = CA

    def bind_call_state(self, call_state: Any) -> None:
        self._cs = call_state

    def rehydrate(self, implementation: object) -> None:
        raise RuntimeError("backend handle is gone")

    def process(self, input: Any, out: Any, ctx: Any) -> None:
        _emit(out, 6, self._cs.tag, self.n, input.batch.column(0)[0].as_py())
        self.n += 1


def _exchange_state(code: int, declared: Any, doc: str) -> Any:
    @dataclass
    class _S(StreamState):
        n: int = 0
        CALL_STATE_TYPE: ClassVar[Any] = declared

        def bind_call_state(self, call_state: Any) -> None:
            self._cs = call_state

        def process(self, input: Any, out: Any, ctx: Any) -> None:
            _emit(out, code, self._cs.tag, self.n, input.batch.column(0)[0].as_py())
            self.n += 1

    _S.__doc__ = doc
    return _S


SS = _exchange_state(7, CA, "declares CA; /init hands out the subclass CA2")
SS.__name__ = SS.__qualname__ = "SS"
SN = _exchange_state(8, CA, "declares CA; /init hands out an unrelated class that is also called CA")
SN.__name__ = SN.__qualname__ = "SN"
SU1 = _exchange_state(9, CA, "union member carrying a CA call state")
SU1.__name__ = SU1.__qualname__ = "SU1"
SU2 = _exchange_state(10, CB, "union member carrying a CB call state")
SU2.__name__ = SU2.__qualname__ = "SU2"


class Proto(Protocol):
    def exs(self, tag: int) -> Stream[SS]: ...
    def exn(self, tag: int) -> Stream[SN]: ...
    def exu(self, tag: int) -> Stream[SU1 | SU2]: ...
    def exa(self, tag: int) -> Stream[SA]: ...
    def exb(self, tag: int) -> Stream[SB]: ...
    def prod(self, tag: int) -> Stream[SP]: ...
    def exa2(self, tag: int) -> Stream[SA2]: ...
    def exm(self, tag: int) -> Stream[SM]: ...
    def exd(self, tag: int) -> Stream[SD]: ...


class Impl:
    def exs(self, tag: int) -> Stream[SS]:
        return Stream(output_schema=OUT, state=SS(0), input_schema=IN, call_state=CA2(tag, 5))

    def exn(self, tag: int) -> Stream[SN]:
        return Stream(output_schema=OUT, state=SN(0), input_schema=IN, call_state=CA_TWIN(tag))

    def exu(self, tag: int) -> Stream[SU1 | SU2]:
        if tag % 2 == 0:
            return Stream(output_schema=OUT, state=SU1(0), input_schema=IN, call_state=CA(tag))
        return Stream(output_schema=OUT, state=SU2(0), input_schema=IN, call_state=CB(tag))

    def exa(self, tag: int) -> Stream[SA]:
        return Stream(output_schema=OUT, state=SA(0), input_schema=IN, call_state=CA(tag))

    def exb(self, tag: int) -> Stream[SB]:
        return Stream(output_schema=OUT, state=SB(0), input_schema=IN, call_state=CB(tag))

    def prod(self, tag: int) -> Stream[SP]:
        return Stream(output_schema=OUT, state=SP(tag, 0))

    def exa2(self, tag: int) -> Stream[SA2]:
        return Stream(output_schema=OUT, state=SA2(0), input_schema=IN, call_state=CA(tag))

    def exm(self, tag: int) -> Stream[SM]:
        return Stream(output_schema=OUT, state=SM(0), input_schema=IN, call_state=CB(tag))

    def exd(self, tag: int) -> Stream[SD]:
        return Stream(output_schema=OUT, state=SD(0), input_schema=IN, call_state=CA(tag))


METHODS = ["exa", "exb", "prod", "exa2", "exm", "exd", "exs", "exn", "exu"]
STATE_CLS: list[Any] = [SA, SB, SP, SA2, SM, SD, SS, SN, (SU1, SU2)]  # `state_info`: class, or tuple for a union
STATE_SAMPLE = [SA(0), SB(0), SP(0, 0), SA2(0), SM(0), SD(0), SS(0), SN(0), SU2(0)]
# class *name* of the call state /init hands out (what the call token carries): 0 = "CA", 1 = "CB", 2 = "CA2"
_STYPE: list[int | None] = [0, 1, None, 0, 1, 0, 2, 0, None]
# what the handed-out class is relative to the state's CALL_STATE_TYPE
CS_KIND = ["declared", "declared", "none", "declared", "unrelated", "declared", "subclass", "same-name-twin", "declared(union)"]
DECLARES = [[True, False, False], [False, True, False], [False, False, False], [True, False, False], [True, False, False],
            [True, False, False], [True, False, False], [True, False, False], [True, True, False]]
PRODUCER = [False, False, True, False, False, False, False, False, False]
CALL_STATE_CODES = {1, 2, 4, 5, 6, 7, 8, 9, 10}  # row codes of the methods whose output carries the tag of the bound call state


def stype_of(m: int, cid: int) -> int | None:
    """Name id of the call-state class of call `cid` minted by method `m` (the union method alternates CA / CB)."""
    if METHODS[m] == "exu":
        return 0 if cid % 2 == 0 else 1
    return _STYPE[m]

# identities: index -> (domain, principal) | None (anonymous). 0/1 collide on the cache key, 6/7 on key *and* AAD.
IDENTS: list[tuple[str, str] | None] = [
    None, ("", "anonymous"), ("d", "alice"), ("d", "bob"), ("", ""), ("dé", "aliçe"), ("a\x00b", "c"), ("a", "b\x00c"),
]


def _auth(i: int | None) -> AuthContext:
    if i is None or IDENTS[i] is None:
        return AuthContext.anonymous()
    d, p = IDENTS[i]  # type: ignore[misc]
    return AuthContext(domain=d, authenticated=True, principal=p)


def _authenticate(req: Any) -> AuthContext:
    h = req.get_header("X-Id")
    return _auth(int(h) if h else None)


def ident_json(i: int | None) -> Any:
    if i is None or IDENTS[i] is None:
        return None
    d, p = IDENTS[i]  # type: ignore[misc]
    return [s2j(d), s2j(p)]


# ------------------------------------------------------------------------------------------ clock + app pool


class Clock:
    def __init__(self) -> None:
        import time as _t

        self.ticks = 0
        self._real = _t

    def time(self) -> float:
        return T0 + self.ticks / TPS

    def monotonic(self) -> float:
        return self._real.monotonic()

    def __getattr__(self, name: str) -> Any:  # anything else the modules may use
        return getattr(self._real, name)


class Patched:
    """Replace the `time` attribute of the token modules by the logical clock; capture `_HttpRpcApp` instances."""

    def __init__(self, clock: Clock) -> None:
        self.clock = clock

    def __enter__(self) -> "Patched":
        from vgi_rpc.http.server import _app_stream, _state_token

        self.mods = [_state_token, _app_stream]
        self.saved = [m.time for m in self.mods]
        for m in self.mods:
            m.time = self.clock  # type: ignore[attr-defined]
        return self

    def __exit__(self, *a: Any) -> None:
        for m, s in zip(self.mods, self.saved):
            m.time = s  # type: ignore[attr-defined]


KEY = bytes(range(32))
OTHER_KEY = bytes(range(1, 33))
CT = {"Content-Type": "application/vnd.apache.arrow.stream"}


class Pool:
    """App instances keyed by (capacity, ttl, slot); caches are cleared when an instance is handed out."""

    def __init__(self) -> None:
        self.apps: dict[Any, tuple[Any, Any]] = {}
        self.methods = RpcServer(Proto, Impl()).methods

    def get(self, cap: int, ttl: int, slot: Any, key: bytes = KEY) -> tuple[Any, Any]:
        import falcon.testing
        from vgi_rpc.http import make_wsgi_app
        from vgi_rpc.http.server import _factory

        k = (cap, ttl, slot, key)
        if k not in self.apps:
            captured: list[Any] = []
            orig = _factory._HttpRpcApp

            def capture(*a: Any, **kw: Any) -> Any:
                inst = orig(*a, **kw)
                captured.append(inst)
                return inst

            _factory._HttpRpcApp = capture  # type: ignore[misc,assignment]
            try:
                app = make_wsgi_app(RpcServer(Proto, Impl()), token_key=key, authenticate=_authenticate, token_ttl=ttl,
                                    call_state_cache_entries=cap, max_response_bytes=1500)
            finally:
                _factory._HttpRpcApp = orig  # type: ignore[misc]
            assert len(captured) == 1
            self.apps[k] = (falcon.testing.TestClient(app), captured[0])
        client, inst = self.apps[k]
        inst._call_state_cache.clear()
        return client, inst


# ------------------------------------------------------------------------------------------ requests / responses

STATE_KEY = b"vgi_rpc.stream_state#b64"
CALL_KEY = b"vgi_rpc.call_state#b64"
CANCEL_KEY = b"vgi_rpc.cancel"

def _uniform_message() -> str:
    from vgi_rpc.http.server import _state_token

    return getattr(_state_token, "_TOKEN_REJECTED_MESSAGE", "Malformed state token, signature verification failed, or token expired")


# the distinguishable 400s of the resolution path (every token failure carries the one uniform message)
_CATS = [
    ("Missing call token in exchange request", "callMissing"),
    ("Call token declares call-state type", "callType"),
    ("Failed to deserialize state", "stateDecode"),
    (_uniform_message(), "tokenRejected"),
]
REJECTS = {c for _, c in _CATS}


def decode(r: Any) -> dict[str, Any]:
    """Canonical response: status, data rows, error class, rejection category, tokens."""
    res: dict[str, Any] = {"status": r.status_code, "rows": [], "err": None, "cat": None, "cur": None, "call": None}
    try:
        streams = rpcutil.read_all_streams(r.content)
    except Exception as e:  # noqa: BLE001
        res["err"] = "non-arrow-body"
        res["cat"] = "non-arrow:" + type(e).__name__
        return res
    for _sch, bs in streams:
        e = rpcutil.error_of(bs)
        if e and res["err"] is None:
            res["err"] = e["type"]
            msg = e["message"]
            cat = "method-error"
            if r.status_code == 400:
                for needle, c in _CATS:
                    if needle in msg:
                        cat = c
                        break
                else:
                    cat = "other-400:" + msg[:60]
            res["cat"] = cat
        for b, md in bs:
            if STATE_KEY in md:
                res["cur"] = md[STATE_KEY]
            if CALL_KEY in md:
                res["call"] = md[CALL_KEY]
            if b.num_rows and b.num_columns:
                res["rows"] += b.column(0).to_pylist()
    return res


def outcome(d: dict[str, Any]) -> list[Any]:
    """What the property compares: status, output rows, error class, rejection category."""
    return [d["status"], d["rows"], d["err"], d["cat"]]


def _junk(kind: str, good: bytes | None, other: bytes | None) -> bytes:
    """A wire string that is not a token this deployment minted for this slot."""
    if kind == "garbage":
        return base64.b64encode(b"\x05" + b"not a token at all" * 3)
    if kind == "notb64":
        return b"!!!not base64!!!"
    if kind == "empty":
        return b""
    if kind == "flip" and good:
        raw = bytearray(base64.b64decode(good))
        raw[len(raw) // 2] ^= 0x01
        return base64.b64encode(bytes(raw))
    if kind == "trunc" and good:
        return base64.b64encode(base64.b64decode(good)[:-3])
    if kind == "noncanon" and good:  # same envelope, unused trailing bits of the last base64 quantum set
        alpha = b"ABCDEFGHIJKLMNOPQRSTUVWXYZabcdefghijklmnopqrstuvwxyz0123456789+/"
        body = good.rstrip(b"=")
        pad = len(good) - len(body)
        if pad:
            return body[:-1] + alpha[alpha.index(body[-1:]) | 1 : (alpha.index(body[-1:]) | 1) + 1] + b"=" * pad
        return good + b"="
    if kind == "swap" and other:  # the other kind of token (call presented as cursor and vice versa)
        return other
    if kind == "foreign" and other:  # sealed under another key
        return other
    return base64.b64encode(b"\x01" + bytes(40))


JUNK_KINDS = ["garbage", "notb64", "empty", "flip", "trunc", "swap", "foreign", "noncanon"]


class Deployment:
    """Real workers + reference instance executing a symbolic history step by step."""

    def __init__(self, pool: Pool, clock: Clock, ttl: int, caps: list[int], fresh_ref: bool = False) -> None:
        self.pool, self.clock, self.ttl, self.caps = pool, clock, ttl, caps
        self.workers = [pool.get(c, ttl, i) for i, c in enumerate(caps)]
        # the reference: pooled instance whose cache is cleared before every request, or (fresh_ref) a newly built
        # instance with the default capacity per request
        self.fresh_ref = fresh_ref
        self.ref = pool.get(3, ttl, "ref")
        self.foreign = pool.get(2, ttl, "foreign", OTHER_KEY)
        clock.ticks = 0
        self.cursors: list[bytes | None] = []  # issued cursor tokens, index = model index (None: response carried none)
        self.cursor_cid: list[int] = []
        self.calls: list[dict[str, Any]] = []  # per cid: token, call_id, owner identity index, method
        self.steps: list[dict[str, Any]] = []
        self.obs: list[dict[str, Any] | None] = []
        self.hits = 0
        self.skipped = 0
        self._foreign_tokens: tuple[bytes, bytes] | None = None

    # -- low level
    def _post(self, client: Any, path: str, body: bytes, ident: int | None) -> Any:
        h = dict(CT)
        if ident is not None and IDENTS[ident] is not None:
            h["X-Id"] = str(ident)
        return client.simulate_post(path, body=body, headers=h)

    def _init_on(self, client: Any, m: int, tag: int, ident: int | None) -> dict[str, Any]:
        info = self.pool.methods[METHODS[m]]
        body = rpcutil.request_bytes(METHODS[m], info.params_schema, {"tag": tag})
        return decode(self._post(client, f"/{METHODS[m]}/init", body, ident))

    def foreign_tokens(self) -> tuple[bytes, bytes]:
        if self._foreign_tokens is None:
            d = self._init_on(self.foreign[0], 0, 0, None)
            self._foreign_tokens = (d["cur"], d["call"])
        return self._foreign_tokens

    def _body(self, producer: bool, cur: bytes | None, call: bytes | None, cancel: bool, x: int) -> bytes:
        md: dict[bytes, bytes] = {}
        if cur is not None:
            md[STATE_KEY] = cur
        if call is not None:
            md[CALL_KEY] = call
        if cancel:
            md[CANCEL_KEY] = b"1"
        buf = io.BytesIO()
        if producer:
            sch, batch = EMPTY, pa.record_batch([], schema=EMPTY)
        elif cancel:
            sch, batch = IN, pa.record_batch([pa.array([], pa.int64())], schema=IN)
        else:
            sch, batch = IN, pa.record_batch([pa.array([x], pa.int64())], schema=IN)
        with pa.ipc.new_stream(buf, sch) as w:
            w.write_batch(batch, custom_metadata=md)
        return buf.getvalue()

    def cache_view(self, inst: Any) -> list[dict[str, Any]]:
        out = []
        ids = {c["call_id"]: i for i, c in enumerate(self.calls)}
        for (call_id, key), (exp, resolved) in inst._call_state_cache._entries.items():
            ticks = (exp - T0) * TPS
            cs = getattr(resolved, "call_state", None)
            out.append({"cid": ids.get(call_id, -1), "key": s2j(key), "exp": int(ticks) if ticks == int(ticks) else ticks,
                        "tag": getattr(cs, "tag", None)})
        return out

    # -- symbolic steps
    def do(self, st: dict[str, Any]) -> None:
        if st["t"] == "cont":
            # a hand-written or replayed step may name a token the tree under test never issued (an earlier request was
            # answered differently than on the tree the history was written for): such a step is dropped, not an error
            cur_ref, call_ref = st["cur"], st["call"]
            if isinstance(cur_ref, int) and (cur_ref >= len(self.cursors) or self.cursors[cur_ref] is None):
                self.skipped += 1
                return
            if isinstance(call_ref, int) and call_ref >= len(self.calls):
                self.skipped += 1
                return
        self.steps.append(st)
        if st["t"] == "tick":
            self.clock.ticks += st["d"]
            self.obs.append(None)
            return
        if st["t"] == "init":
            cid = len(self.calls)
            client, inst = self.workers[st["w"]]
            d = self._init_on(client, st["m"], cid, st["id"])
            assert d["status"] == 200 and d["call"] is not None, d
            from vgi_rpc.http.server._state_token import _compute_call_aad, _open_call_token

            call_id = _open_call_token(d["call"], KEY, _compute_call_aad(_auth(st["id"]), METHODS[st["m"]]))[4]
            self.calls.append({"token": d["call"], "call_id": call_id, "owner": st["id"], "m": st["m"],
                               "created_s": self.clock.ticks // TPS})
            self.cursors.append(d["cur"])
            self.cursor_cid.append(cid)
            self.obs.append({"init": outcome(d), "caches": [self.cache_view(i) for _, i in self.workers]})
            return
        # continuation
        cur_ref, call_ref = st["cur"], st["call"]
        named_cid = self.cursor_cid[cur_ref] if isinstance(cur_ref, int) else None
        # body kind follows the call the cursor names (a client continues *its* stream), else the endpoint's method
        kind_m = self.calls[named_cid]["m"] if named_cid is not None else st["m"]
        good_cur = self.cursors[cur_ref] if isinstance(cur_ref, int) else (self.cursors[-1] if self.cursors else None)
        good_call = self.calls[named_cid]["token"] if named_cid is not None else (self.calls[-1]["token"] if self.calls else None)
        if isinstance(cur_ref, int):
            cur = self.cursors[cur_ref]
            assert cur is not None
        else:
            k = cur_ref["junk"]
            cur = _junk(k, good_cur, self.foreign_tokens()[0] if k == "foreign" else good_call)
        if call_ref == "absent":
            call = None
        elif isinstance(call_ref, int):
            call = self.calls[call_ref]["token"]
        else:
            k = call_ref["junk"]
            call = _junk(k, good_call, self.foreign_tokens()[1] if k == "foreign" else good_cur)
        body = self._body(PRODUCER[kind_m], cur, call, st["cancel"], st.get("x", 0))
        path = f"/{METHODS[st['m']]}/exchange"
        client, inst = self.workers[st["w"]]
        before = [k for k in inst._call_state_cache._entries]
        warm = decode(self._post(client, path, body, st["id"]))
        # the reference: an instance with an empty cache, same request, same clock
        if self.fresh_ref:
            self.pool.apps.pop((4096, self.ttl, "fresh", KEY), None)
            self.ref = self.pool.get(4096, self.ttl, "fresh")
        self.ref[1]._call_state_cache.clear()
        cold = decode(self._post(self.ref[0], path, body, st["id"]))
        conf = None
        conforming = named_cid is None or call_ref == named_cid
        if not conforming:
            self.ref[1]._call_state_cache.clear()
            body2 = self._body(PRODUCER[kind_m], cur, self.calls[named_cid]["token"], st["cancel"], st.get("x", 0))
            conf = decode(self._post(self.ref[0], path, body2, st["id"]))
        served = warm["cat"] not in REJECTS and not (warm["cat"] or "").startswith(("other-400", "non-arrow"))
        if served and not st["cancel"]:
            self.cursors.append(warm["cur"])
            self.cursor_cid.append(named_cid if named_cid is not None else -1)
        was_hit = named_cid is not None and any(k[0] == self.calls[named_cid]["call_id"] for k in before) and call is not None and served
        self.obs.append({"warm": warm, "cold": cold, "conf": conf, "conforming": conforming, "served": served,
                         "named_cid": named_cid, "now_s": self.clock.ticks // TPS, "caches": [self.cache_view(i) for _, i in self.workers]})
        if was_hit:
            self.hits += 1

    def case(self) -> dict[str, Any]:
        return {"ttl": self.ttl, "caps": self.caps, "steps": self.steps}


def measure_decodes() -> list[list[bool]]:
    """decodes[m][m']: method m's state class deserialises a cursor state written by method m' (measured on the real codec)."""
    from vgi_rpc.http.server._state_token import _deserialize_state_bytes, _resolve_state_cls, _serialize_state_bytes
    from vgi_rpc.utils import IpcValidation

    mat = []
    for m in range(len(METHODS)):
        row = []
        for m2 in range(len(METHODS)):
            data = _serialize_state_bytes(STATE_SAMPLE[m2], STATE_CLS[m2])
            try:
                cls, raw = _resolve_state_cls(data, STATE_CLS[m])
                obj = _deserialize_state_bytes(cls, raw, IpcValidation.FULL)
                obj.bind_call_state(None)
                obj.rehydrate(None)
                row.append(True)
            except Exception:  # noqa: BLE001
                row.append(False)
        mat.append(row)
    return mat


# ------------------------------------------------------------------------------------------ oracle + correspondence


def model_steps(steps: list[dict[str, Any]]) -> list[dict[str, Any]]:
    out = []
    ncalls = 0
    for st in steps:
        if st["t"] == "tick":
            out.append(st)
        elif st["t"] == "init":
            out.append({"t": "init", "w": st["w"], "id": ident_json(st["id"]), "m": st["m"], "content": ncalls, "stype": stype_of(st["m"], ncalls)})
            ncalls += 1
        else:
            cur = st["cur"] if isinstance(st["cur"], int) else None
            call = None if st["call"] == "absent" else (st["call"] if isinstance(st["call"], int) else "junk")
            out.append({"t": "cont", "w": st["w"], "id": ident_json(st["id"]), "m": st["m"], "cur": cur, "call": call, "cancel": st["cancel"]})
    return out


def _model_cat(o: dict[str, Any]) -> str:
    return o["rejected"] if "rejected" in o else "served"


def _real_cat(d: dict[str, Any]) -> str:
    c = d["cat"] or ""
    return c if (c in REJECTS or c.startswith(("other-400", "non-arrow"))) else "served"


def _why(dep: Deployment, st: dict[str, Any], ob: dict[str, Any]) -> str:
    """Harness-side reason a cold worker refuses the request (the wire message is uniform)."""
    cid = ob["named_cid"]
    if cid is None:
        return "no-cursor"
    if "callType" in (ob["cold"]["cat"], ob["warm"]["cat"]) and st["m"] == dep.calls[cid]["m"]:
        return "call-state-class-" + CS_KIND[st["m"]]
    if st["m"] != dep.calls[cid]["m"]:
        return "cross-method"
    if dep.ttl > 0 and ob["now_s"] - dep.calls[cid]["created_s"] > dep.ttl:
        return "call-expired"
    return "other"


def evaluate(ctx: Any, dep: Deployment, decodes: list[list[bool]], tags: tuple[str, ...] = ()) -> None:
    from vgi_rpc.http.server._state_token import _compute_aad

    case = dep.case()
    n_cont = sum(1 for s in dep.steps if s["t"] == "cont")
    ctx.case(case, nontrivial=dep.hits > 0, tags=tags + (f"workers:{len(dep.caps)}", f"ttl:{dep.ttl}", f"hits:{min(dep.hits, 3)}",
                                                         "ref:fresh-instance" if dep.fresh_ref else "ref:cleared-instance"))
    # ---- O
    for st, ob in zip(dep.steps, dep.obs):
        if st["t"] != "cont" or ob is None:
            continue
        warm, cold = ob["warm"], ob["cold"]
        ctx.tag("req:conforming" if ob["conforming"] else "req:nonconforming", f"warm:{_real_cat(warm)}", f"cold:{_real_cat(cold)}")
        if ob["conforming"]:
            if outcome(warm) != outcome(cold):
                wc, cc = _real_cat(warm), _real_cat(cold)
                if wc == "served" and cc != "served":
                    key = f"C14:warm-served-cold-rejected:{cc}:{_why(dep, st, ob)}"
                elif wc != "served" and cc == "served":
                    key = f"C14:warm-rejected-cold-served:{wc}:{_why(dep, st, ob)}"
                else:
                    key = f"C14:outcome-differs:{wc}:{cc}"
                ctx.fail(case, key, f"worker {st['w']} (cache capacity {dep.caps[st['w']]}) answered {outcome(warm)}, an instance "
                                    f"with an empty cache answered {outcome(cold)} to the same request at the same time; step {st}")
        else:
            if outcome(warm) != outcome(cold) and outcome(warm) != outcome(ob["conf"]):
                ctx.fail(case, f"C14:nonconforming-third-outcome:{_real_cat(warm)}",
                         f"non-echoing request answered {outcome(warm)}; cold answers {outcome(cold)} to it and {outcome(ob['conf'])} "
                         f"to the conforming request; step {st}")
        # no cross-identity: the call state used was minted for a caller with the same AAD
        if ob["served"] and warm["rows"] and warm["rows"][0] // 1_000_000 in CALL_STATE_CODES:
            tag = warm["rows"][0] // 10_000 % 100  # the tag of the *call state* the method ran on
            if tag < len(dep.calls):
                if _compute_aad(_auth(dep.calls[tag]["owner"])) != _compute_aad(_auth(st["id"])):
                    ctx.fail(case, "C14:cross-identity-call-state",
                             f"identity {IDENTS[st['id']] if st['id'] is not None else None} was served call state minted for "
                             f"{IDENTS[dep.calls[tag]['owner']] if dep.calls[tag]['owner'] is not None else None}; step {st}")
    # ---- K
    if ctx.driver is None or len(ctx.mismatches) >= 10:
        # enough evidence that model and code disagree: keep *searching for a failing input* (O above) without K
        return
    res = ctx.driver.call("C14.run", {"ttl": dep.ttl, "tps": TPS, "declares": DECLARES, "decodes": decodes, "caps": dep.caps,
                                     "t0": 0, "steps": model_steps(dep.steps)})
    ncur = 0
    for i, (st, ob, mo) in enumerate(zip(dep.steps, dep.obs, res)):
        if st["t"] == "tick":
            continue
        assert ob is not None
        mcaches = [[{"cid": e["cid"], "key": e["key"], "exp": e["exp"]} for e in ch] for ch in mo["caches"]]
        rcaches = [[{"cid": e["cid"], "key": e["key"], "exp": e["exp"]} for e in ch] for ch in ob["caches"]]
        if mcaches != rcaches:
            ctx.mismatch({"case": case, "step": i}, mcaches, rcaches, "cache contents after the request: model vs _CallStateCache._entries")
            return
        if st["t"] == "init":
            ncur += 1
            continue
        for which, real in (("out", ob["warm"]), ("cold", ob["cold"])):
            if _model_cat(mo[which]) != _real_cat(real):
                ctx.mismatch({"case": case, "step": i, "which": which}, mo[which], outcome(real), "outcome: model vs implementation")
                return
            if "served" in mo[which] and real["rows"] and real["rows"][0] // 1_000_000 in CALL_STATE_CODES:
                tag = real["rows"][0] // 10_000 % 100
                if tag != mo[which]["served"]["content"] or (ob["named_cid"] is not None and mo[which]["served"]["cid"] != ob["named_cid"]):
                    ctx.mismatch({"case": case, "step": i, "which": which}, mo[which], outcome(real), "served call: model vs implementation")
                    return
        if ob["served"] and not st["cancel"]:
            ncur += 1
        if mo["ncur"] != ncur:
            ctx.mismatch({"case": case, "step": i}, mo["ncur"], ncur, "number of issued cursors: model vs implementation")
            return
    _ = n_cont


# ------------------------------------------------------------------------------------------ generators


def execute(pool: Pool, clock: Clock, ttl: int, caps: list[int], steps: list[dict[str, Any]], fresh_ref: bool = False) -> Deployment:
    dep = Deployment(pool, clock, ttl, caps, fresh_ref)
    for st in steps:
        dep.do(st)
    return dep


def _tick(rng: Any, ttl: int) -> int:
    base = (ttl or 3) * TPS
    r = rng.random()
    if r < 0.35:
        return rng.randint(1, 3)
    if r < 0.75:
        return max(1, base + rng.choice([-5, -4, -1, 0, 1, 4, 5]) - rng.choice([0, 0, 1, 2, 3]))
    if r < 0.9:
        return max(1, base // 2 + rng.randint(-2, 2))
    return base * 2 + rng.randint(0, 4)


def generate(rng: Any, pool: Pool, clock: Clock, max_steps: int) -> Deployment:
    ttl = rng.choice([0, 2, 3, 3, 10])
    caps = [rng.choice([0, 1, 1, 2, 2, 3]) for _ in range(rng.choice([2, 3, 3]))]
    dep = Deployment(pool, clock, ttl, caps, fresh_ref=rng.random() < 0.03)
    idents = rng.sample(range(len(IDENTS)), rng.choice([1, 2, 3]))
    if rng.random() < 0.25:
        idents = [0, 1] + idents[:1]  # the two identities that collide on the cache key
    if rng.random() < 0.1:
        idents = [6, 7]  # collide on the AAD as well
    methods = []
    while len(methods) < rng.choice([1, 2, 2, 3]):
        mm = rng.choice([0, 0, 0, 1, 1, 2, 2, 3, 4, 5, 6, 7, 7, 8, 8])  # the well-configured methods more often
        if mm not in methods:
            methods.append(mm)
    n = rng.randint(4, max_steps)
    for _ in range(n):
        live = [i for i, c in enumerate(dep.cursors) if c is not None]
        r = rng.random()
        if not dep.calls or r < 0.18:
            dep.do({"t": "init", "w": rng.randrange(len(caps)), "id": rng.choice(idents), "m": rng.choice(methods)})
        elif r < 0.36:
            dep.do({"t": "tick", "d": _tick(rng, ttl)})
        else:
            # prefer the newest cursor of some stream; sometimes a stale one (replay)
            if rng.random() < 0.8:
                cid = rng.randrange(len(dep.calls))
                mine = [i for i in live if dep.cursor_cid[i] == cid]
                ci = mine[-1] if mine else rng.choice(live)
            else:
                ci = rng.choice(live)
            cid = dep.cursor_cid[ci]
            owner, mm = dep.calls[cid]["owner"], dep.calls[cid]["m"]
            st: dict[str, Any] = {"t": "cont", "w": rng.randrange(len(caps)), "id": owner, "m": mm, "cur": ci, "call": cid,
                                  "cancel": rng.random() < 0.05, "x": rng.randrange(100)}
            q = rng.random()
            if q < 0.10:
                st["id"] = rng.choice(idents + [rng.randrange(len(IDENTS))])
            elif q < 0.20:
                st["m"] = rng.randrange(len(METHODS))
            elif q < 0.26:
                st["call"] = "absent"
            elif q < 0.30:
                st["call"] = {"junk": rng.choice(JUNK_KINDS)}
            elif q < 0.36:
                st["call"] = rng.randrange(len(dep.calls))
            elif q < 0.40:
                st["cur"] = {"junk": rng.choice(JUNK_KINDS)}
            dep.do(st)
    return dep


def generate_busy(rng: Any, pool: Pool, clock: Clock, max_steps: int) -> Deployment:
    """One stream kept busy: every step is shorter than the TTL (so the freshly minted cursor is always valid) while the
    call token, minted once, ages past its own expiry; requests mostly go to a home worker (sticky routing) and are probed
    on the others, with a second stream now and then for LRU pressure."""
    ttl = rng.choice([2, 3, 3, 10])
    caps = [rng.choice([0, 1, 1, 2, 3]) for _ in range(rng.choice([2, 3, 3]))]
    dep = Deployment(pool, clock, ttl, caps, fresh_ref=rng.random() < 0.03)
    ident = rng.randrange(len(IDENTS))
    m = rng.choice([0, 0, 1, 2, 3, 6, 7, 8])
    home = rng.randrange(len(caps))
    if caps[home] == 0 and rng.random() < 0.8:
        caps_pos = [i for i, c in enumerate(caps) if c > 0]
        home = rng.choice(caps_pos) if caps_pos else home
    dep.do({"t": "init", "w": rng.choice([home, home, rng.randrange(len(caps))]), "id": ident, "m": m})
    last = 0
    span = ttl * TPS
    for _ in range(rng.randint(4, max_steps)):
        r = rng.random()
        if r < 0.45:
            # below the TTL, biased to large steps so a few of them cross created_at + ttl
            d = rng.choice([rng.randint(1, span), rng.randint(max(1, span // 3), span), max(1, span - rng.randint(0, 3))])
            dep.do({"t": "tick", "d": d})
        elif r < 0.52 and len(dep.calls) < 4:
            dep.do({"t": "init", "w": home, "id": ident, "m": rng.choice([0, 1, 3, 7, 8])})
        else:
            w = home if rng.random() < 0.7 else rng.randrange(len(caps))
            before = len(dep.cursors)
            dep.do({"t": "cont", "w": w, "id": ident, "m": m, "cur": last, "call": 0, "cancel": False, "x": rng.randrange(100)})
            if len(dep.cursors) > before and dep.cursors[-1] is not None and rng.random() < 0.85:
                last = len(dep.cursors) - 1  # the client advances; sometimes it retries the old cursor instead
    return dep


def _c(w: int, ident: int | None, m: int, cur: Any, call: Any, cancel: bool = False, x: int = 3) -> dict[str, Any]:
    return {"t": "cont", "w": w, "id": ident, "m": m, "cur": cur, "call": call, "cancel": cancel, "x": x}


def _i(w: int, ident: int | None, m: int) -> dict[str, Any]:
    return {"t": "init", "w": w, "id": ident, "m": m}


def _t(d: int) -> dict[str, Any]:
    return {"t": "tick", "d": d}


S = TPS  # one second


def corpus() -> list[tuple[str, int, list[int], list[dict[str, Any]]]]:
    """(name, ttl, caps, steps)"""
    out: list[tuple[str, int, list[int], list[dict[str, Any]]]] = []
    # DESIGN §7.1: init on A at t=0, continuation on B at t=9 (miss -> re-put), the next continuation at t=12 on warm B and cold C
    out.append(("design-witness", 10, [2, 2, 2],
                [_i(0, 2, 0), _t(9 * S), _c(1, 2, 0, 0, 0), _t(3 * S), _c(1, 2, 0, 1, 0), _c(2, 2, 0, 1, 0), _c(0, 2, 0, 1, 0)]))
    # TTL boundary in quarter seconds, on the init worker and on a re-populated one
    for off in (-1, 0, 1, 3, 4, 5):
        out.append((f"boundary{off:+d}", 3, [2, 2],
                    [_i(0, 2, 0), _t(2 * S), _c(1, 2, 0, 0, 0), _t(1 * S + off), _c(0, 2, 0, 1, 0), _c(1, 2, 0, 1, 0),
                     _t(1), _c(0, 2, 0, 1, 0), _c(1, 2, 0, 1, 0)]))
    # cross-method: exa's stream at exb / exa2 / prod endpoints, warm and cold; prod's stream at exa
    out.append(("cross-method", 10, [2, 2],
                [_i(0, 2, 0), _c(0, 2, 1, 0, 0), _c(1, 2, 1, 0, 0), _c(0, 2, 3, 0, 0), _c(1, 2, 3, 0, 0), _c(0, 2, 2, 0, 0),
                 _i(1, 2, 2), _c(1, 2, 0, 1, 1), _c(0, 2, 0, 1, 1), _c(1, 2, 2, 1, 1), _c(0, 2, 2, 1, 1)]))
    # non-echoing requests: absent / junk / mispaired call token, warm and cold
    out.append(("non-echo", 10, [2, 2],
                [_i(0, 3, 0), _i(0, 3, 0), _c(0, 3, 0, 0, "absent"), _c(1, 3, 0, 0, "absent"), _c(0, 3, 0, 0, 1), _c(1, 3, 0, 0, 1),
                 _c(0, 3, 0, 0, {"junk": "flip"}), _c(1, 3, 0, 0, {"junk": "swap"}), _c(1, 3, 0, 0, {"junk": "foreign"}),
                 _c(0, 3, 0, {"junk": "flip"}, 0), _c(0, 3, 0, {"junk": "swap"}, 0), _c(0, 3, 0, {"junk": "foreign"}, 0),
                 _c(0, 3, 0, {"junk": "notb64"}, 0), _c(0, 3, 0, {"junk": "empty"}, 0)]))
    # identities colliding on the cache key (anonymous vs ("", "anonymous")), and on key + AAD (NUL in the domain)
    out.append(("key-collision", 10, [3, 3],
                [_i(0, None, 0), _c(0, 1, 0, 0, 0), _c(1, 1, 0, 0, 0), _i(0, 1, 0), _c(0, None, 0, 1, 1), _c(0, 0, 0, 0, 0),
                 _c(0, 1, 0, 1, 1), _c(1, 1, 0, 1, 1), _c(1, 0, 0, 0, 0)]))
    out.append(("aad-collision", 10, [3, 3], [_i(0, 6, 0), _c(0, 7, 0, 0, 0), _c(1, 7, 0, 0, 0), _c(0, 6, 0, 0, 0)]))
    # LRU order: capacity 2, three streams, a get refreshes recency
    out.append(("lru", 10, [2, 0],
                [_i(0, 2, 0), _i(0, 2, 1), _c(0, 2, 0, 0, 0), _i(0, 2, 3), _c(0, 2, 1, 1, 1), _c(0, 2, 0, 3, 0), _c(1, 2, 0, 3, 0),
                 _c(0, 2, 3, 2, 2)]))
    # capacity 0 and 1, producer continuation, cancel
    out.append(("cap0-producer-cancel", 3, [0, 1, 3],
                [_i(0, 2, 2), _c(0, 2, 2, 0, 0), _c(1, 2, 2, 1, 0), _c(2, 2, 2, 2, 0), _c(1, 2, 2, 3, 0, True), _t(3 * S + 1),
                 _c(1, 2, 2, 3, 0), _c(2, 2, 2, 3, 0), _c(0, 2, 2, 3, 0)]))
    # a call whose call-state class its own method does not declare (hit and miss must both say so); a state that does
    # not come back from its token (the call is resolved and cached before the failure)
    out.append(("own-method-type-and-decode", 10, [2, 2],
                [_i(0, 2, 4), _c(0, 2, 4, 0, 0), _c(1, 2, 4, 0, 0), _c(1, 2, 4, 0, 0),
                 _i(0, 2, 5), _c(0, 2, 5, 1, 1), _c(1, 2, 5, 1, 1), _c(1, 2, 5, 1, 1), _c(1, 2, 0, 1, 1)]))
    # a stream kept busy on its home worker in steps below the TTL, probed on a worker that learnt the call through the
    # miss path and on one that never saw it, until after the call token's own expiry (created_at + ttl)
    out.append(("busy-stream", 10, [2, 2, 2],
                [_i(0, 2, 0), _t(3 * S), _c(0, 2, 0, 0, 0), _c(1, 2, 0, 0, 0), _t(3 * S), _c(0, 2, 0, 1, 0), _c(1, 2, 0, 1, 0),
                 _t(3 * S), _c(0, 2, 0, 3, 0), _c(1, 2, 0, 3, 0), _t(2 * S), _c(0, 2, 0, 5, 0), _c(1, 2, 0, 5, 0), _c(2, 2, 0, 5, 0),
                 _t(7 * S), _c(0, 2, 0, 5, 0), _c(1, 2, 0, 5, 0), _c(2, 2, 0, 5, 0)]))
    # call-state class hierarchies: /init hands out a subclass of the declared class (exs), an unrelated class with the
    # same name and fields (exn), the declared classes of a union state (exu: CA for even call ids, CB for odd) — each
    # continued on the worker that ran /init (warm: the live object) and on one that only has the token (cold: by name)
    out.append(("call-state-subclass", 10, [3, 3], [_i(0, 2, 6), _c(0, 2, 6, 0, 0), _c(1, 2, 6, 0, 0), _c(1, 2, 6, 0, 0)]))
    out.append(("call-state-twin", 10, [3, 3],
                [_i(0, 2, 7), _c(0, 2, 7, 0, 0), _c(1, 2, 7, 0, 0), _c(1, 2, 7, 1, 0), _c(0, 2, 7, 1, 0)]))
    out.append(("call-state-union", 10, [3, 3],
                [_i(0, 2, 8), _i(0, 2, 8), _c(0, 2, 8, 0, 0), _c(1, 2, 8, 0, 0), _c(0, 2, 8, 1, 1), _c(1, 2, 8, 1, 1), _c(1, 2, 8, 2, 0)]))
    # tokens never expire: entry lifetime is housekeeping (3600 s)
    out.append(("ttl0", 0, [1, 1], [_i(0, 2, 0), _t(3599 * S), _c(0, 2, 0, 0, 0), _t(S), _c(0, 2, 0, 1, 0), _c(1, 2, 0, 1, 0),
                                    _t(3600 * S), _c(1, 2, 0, 2, 0)]))
    # long-lived stream: cursor refreshed each turn, call token not — every worker must reject at the same moment
    out.append(("long-stream", 2, [2, 2, 2],
                [_i(0, 2, 0), _t(S), _c(1, 2, 0, 0, 0), _t(S), _c(1, 2, 0, 1, 0), _c(2, 2, 0, 1, 0), _t(3), _c(1, 2, 0, 2, 0),
                 _t(1), _c(1, 2, 0, 2, 0), _c(0, 2, 0, 2, 0), _c(2, 2, 0, 2, 0)]))
    return out


# ------------------------------------------------------------------------------------------ two requests racing on one worker

RACES = [
    # (capacity, what the other thread does): the continuation of a cached stream races a request that evicts its entry
    {"cap": 1, "other": "init", "m": 0},
    {"cap": 1, "other": "init", "m": 2},
    {"cap": 2, "other": "init-twice", "m": 0},
    {"cap": 1, "other": "cont-other-stream", "m": 0},
]


def _race_setup(pool: Pool, clock: Clock, sc: dict[str, Any], box: dict[str, Any]) -> Any:
    from vgi_rpc.http.server import _state_token as ST

    def setup(ds: Any) -> Any:
        dep = Deployment(pool, clock, 10, [sc["cap"]])
        client, inst = dep.workers[0]
        inst._call_state_cache = ST._CallStateCache(max_entries=sc["cap"], ttl=10.0)  # its lock is the scheduler's
        m = sc["m"]
        dep.do(_i(0, 2, m))  # stream 0, cached on the worker
        if sc["other"] == "cont-other-stream":
            # a second stream whose entry was evicted by nothing yet: make room for the race by initialising it on the
            # reference (same key), so that its continuation on the worker takes the miss path and `put`s
            d = dep._init_on(dep.ref[0], 1, 50, 2)
            other_body = dep._body(False, d["cur"], d["call"], False, 7)
        clock.ticks += 2 * TPS
        body = dep._body(PRODUCER[m], dep.cursors[0], dep.calls[0]["token"], False, 3)
        path = f"/{METHODS[m]}/exchange"
        dep.ref[1]._call_state_cache.clear()
        box.clear()
        box["cold"] = decode(dep._post(dep.ref[0], path, body, 2))

        def cont() -> None:
            box["warm"] = decode(dep._post(client, path, body, 2))

        def other() -> None:
            if sc["other"] == "cont-other-stream":
                box["other"] = decode(dep._post(client, "/exb/exchange", other_body, 2))
            else:
                for k in range(2 if sc["other"] == "init-twice" else 1):
                    box[f"other{k}"] = dep._init_on(client, 1, 60 + k, 2)

        ds.spawn(cont, name="continuation")
        ds.spawn(other, name="other")
        return inst

    return setup


def race_through_app(ctx: Any, pool: Pool, clock: Clock, dfs: int, only: dict[str, Any] | None = None) -> None:
    """A continuation of a cached stream races another request of the same worker (cache at capacity), through the real
    WSGI app, with every line of `_CallStateCache.get` / `put` a preemption point: it must be answered as an instance with
    an empty cache answers it."""
    from vgi_rpc.http.server import _state_token as ST

    ds = c14sched.make_sched(ST)
    runs = 0
    with ds:
        for sc in ([only["scenario"]] if only else RACES):
            box: dict[str, Any] = {}
            setup = _race_setup(pool, clock, sc, box)
            it = [ds.replay(setup, only["schedule"])] if only else ds.explore(setup, dfs=dfs, bound=2, random=0, seed=ctx.seed)
            for run in it:
                runs += 1
                case = {"sched": "app", "scenario": sc, "schedule": run.schedule}
                ctx.case(case, nontrivial=run.preemptions > 0, tags=("src:app-race", f"race:{sc['other']}"))
                if run.status != "ok" or run.errors or "warm" not in box:
                    ctx.fail(case, f"C14:race-run-{run.status}", f"status {run.status}, errors {run.errors}, blocked {run.blocked}")
                elif outcome(box["warm"]) != outcome(box["cold"]):
                    ctx.fail(case, f"C14:race-outcome-differs:{_real_cat(box['warm'])}:{_real_cat(box['cold'])}",
                             f"a continuation racing `{sc['other']}` on a worker with cache capacity {sc['cap']} was answered "
                             f"{outcome(box['warm'])}; an instance with an empty cache answers {outcome(box['cold'])}; "
                             f"schedule {run.schedule}")
                if len(ctx.failures) >= 40:
                    break
            pool.apps.pop((sc["cap"], 10, 0, KEY), None)  # this instance's cache carries the scheduler's lock: do not reuse it
    ctx.note("app_race_runs", ctx.notes.get("app_race_runs", 0) + runs)


# ------------------------------------------------------------------------------------------ run / replay


def _model_selfcheck(ctx: Any) -> None:
    """The identity key and AAD tail of the model against the real functions, for every identity of the pool."""
    from vgi_rpc.http.server._state_token import _CallStateCache, _compute_aad, _compute_call_aad

    if ctx.driver is None:
        return
    cur_prefixes, call_prefixes = set(), set()
    for i in range(len(IDENTS)):
        a = _auth(i)
        k = "".join(chr(c) for c in ctx.driver.call("C14.identKey", {"id": ident_json(i)}))
        t = "".join(chr(c) for c in ctx.driver.call("C14.aadTail", {"id": ident_json(i)})).encode()
        real_k = _CallStateCache._identity(a)
        cur = _compute_aad(a)
        calls = [_compute_call_aad(a, m) for m in METHODS]
        ctx.case({"identity": i}, nontrivial=True, tags=("k:identity",))
        if k != real_k:
            ctx.mismatch({"identity": i}, k, real_k, "_identity: model vs implementation")
        ok = cur.endswith(t) and all(c.endswith(t) for c in calls)
        if ok:
            cur_prefixes.add(cur[: len(cur) - len(t)])
            call_prefixes.add(tuple(c[: len(c) - len(t)] for c in calls))
        if not ok:
            ctx.mismatch({"identity": i}, t.hex(), [cur.hex()] + [c.hex() for c in calls], "AAD identity tail: model vs implementation")
    # what precedes the identity tail does not depend on the identity, and the call AAD's differs per method
    if len(cur_prefixes) > 1 or len(call_prefixes) > 1 or any(len(set(p)) != len(METHODS) for p in call_prefixes):
        ctx.mismatch({"identity": "prefixes"}, "constant prefix; per-method call prefix",
                     [sorted(x.hex() for x in cur_prefixes), sorted([y.hex() for y in x] for x in call_prefixes)],
                     "AAD prefix: model assumption vs implementation")


def run(ctx: Any) -> None:
    import warnings

    warnings.simplefilter("ignore", DeprecationWarning)
    clock = Clock()
    pool = Pool()
    with Patched(clock):
        decodes = measure_decodes()
        ctx.note("decodes_matrix", decodes)
        if ctx.driver is not None:
            ctx.note("extracted_shape", ctx.driver.call("C14.shape", {}))
        _model_selfcheck(ctx)
        # the cache's own critical sections: two threads of one worker on the real _CallStateCache, every line of get / put
        # a preemption point (harness/common/c14sched.py)
        c14sched.explore_cache(ctx, n_cfg=ctx.budget(10, 150), dfs=ctx.budget(50, 500), rnd=ctx.budget(10, 100))
        race_through_app(ctx, pool, clock, dfs=ctx.budget(40, 400))
        for name, ttl, caps, steps in corpus():
            dep = execute(pool, clock, ttl, caps, steps, fresh_ref=True)
            evaluate(ctx, dep, decodes, tags=("src:corpus",))
            ctx.tag(f"corpus:{name}")
        n = ctx.budget(600, 9000)
        max_steps = 25 if (ctx.tier == "thorough" or ctx.deep) else 12
        for k in range(n):
            # every third history follows one busy stream (clock steps below the TTL, sticky routing); the rest are mixed
            dep = (generate_busy if k % 3 == 2 else generate)(ctx.rng, pool, clock, max_steps)
            evaluate(ctx, dep, decodes, tags=("src:generated",))
            if len(ctx.failures) >= 40:
                break
        if ctx.tier == "thorough":
            # exhaustive small space: 1 stream, 2 workers, capacities {0,1}, every tick pattern around the TTL
            for caps in itertools.product([0, 1], repeat=2):
                for d1, d2 in itertools.product(range(0, 3 * S + 3), repeat=2):
                    steps = [_i(0, 2, 0), _t(d1)] if d1 else [_i(0, 2, 0)]
                    steps += [_c(1, 2, 0, 0, 0)]
                    if d2:
                        steps.append(_t(d2))
                    steps += [_c(1, 2, 0, 0, 0), _c(0, 2, 0, 0, 0)]
                    dep = execute(pool, clock, 2, list(caps), steps)
                    evaluate(ctx, dep, decodes, tags=("src:exhaustive-ttl",))


def replay(ctx: Any, case: dict[str, Any]) -> None:
    import warnings

    warnings.simplefilter("ignore", DeprecationWarning)
    if "case" in case and "steps" not in case:
        case = case["case"]
    clock = Clock()
    pool = Pool()
    with Patched(clock):
        decodes = measure_decodes()
        if "identity" in case:
            _model_selfcheck(ctx)
            return
        if case.get("sched") == "cache":
            c14sched.replay_cache(ctx, case)
            return
        if case.get("sched") == "app":
            race_through_app(ctx, pool, clock, dfs=1, only=case)
            return
        dep = execute(pool, clock, case["ttl"], list(case["caps"]), case["steps"], fresh_ref=True)
        evaluate(ctx, dep, decodes, tags=("src:replay",))
