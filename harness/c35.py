"""C35 — sensitive claim values never reach access logs.

K (correspondence): `_DEFAULT_CLAIM_REDACT_RE.search(k)` vs `C35.sensitive`; `redact_claims(tree)` vs `C35.redact`;
    what `_emit_access_log` puts under `claims` (default / raising / replaced redactor) vs `C35.logged`;
    the per-character IGNORECASE classes of `Gen/C35.lean` vs the running `re` engine over all code points.
O (direct oracle): claim trees with planted unique secrets under designated names (the word list of the property
    text, decided here in Python, ASCII-case-insensitively) at any depth inside objects and arrays; the record is
    produced by the real code (`_emit_access_log` directly, and end-to-end through `make_wsgi_app` + an
    authenticator) and formatted by the real formatters; the *serialised line* is searched for every secret, the
    parsed record must show each designated key with the placeholder, and a raising redactor must drop `claims`.
"""

import io
import json
import logging
import re
import sys
from typing import Any, Protocol

from harness.common.lean import s2j

PROPERTY = "C35"
LEAN_MODULES = ["VgiVerif.Proofs.C35"]
OBLIGATIONS = [
    "VgiVerif.C35.shape_ok",
    "VgiVerif.C35.sensitive_covers",
    "VgiVerif.C35.C35",
    "VgiVerif.C35.C35_designated",
    "VgiVerif.C35.C35_keys",
    "VgiVerif.C35.C35_noninterference",
    "VgiVerif.C35.C35_noninterference_designated",
    "VgiVerif.C35.C35_failclosed",
    "VgiVerif.C35.C35_logged_default",
]
TRUSTED = [
    "CPython `re` (IGNORECASE literal matching, `^`/`$`) as mirrored by C35.sensitive over classes scanned from the engine itself",
    "json.dumps / VgiJsonFormatter / VgiAccessLogFormatter size cap: exercised by the oracle on every case, not modelled",
    "claims are JSON-like (str keys; dict / list / tuple / scalar values); other Python objects reach json.dumps(default=str) unmodelled",
]
RULE = (
    "hand-written corpus + generated claim trees (objects/arrays/scalars, depth <= 6 quick / 9 thorough) whose keys are drawn from "
    "the property's word list in random case, embedded as substrings, with K/long-s/dotted-I variants, trailing newline, near "
    "misses and neutral names; every string/int leaf is a unique marker; a case is non-trivial when at least one marker sits under "
    "a designated key; distinct by (tree, redactor, route); thorough adds the exhaustive set of all trees of a small grammar"
)
PARTIAL = [
    "values that are not JSON-like (arbitrary objects rendered by json.dumps(default=str)) are outside the model and the generators",
]
MANIFEST = {
    "level": "proof",
    "text": "Lean theorems over the extracted regex alternatives and the extracted shape of redact_claims/apply_claim_redaction: "
            "by mutual structural induction on claim trees of unbounded depth and width, every value under a sensitive key is replaced "
            "(or lies below a replaced key), the visible shape outside redacted subtrees is unchanged, the logged claims are a function "
            "of the non-sensitive part (noninterference), a raising redactor logs no claims; every name of the property text is covered "
            "by the regex. Model tied to the code by extraction and differential runs; the oracle searches real serialised records.",
    "note": "claims are JSON-like values with string keys; json.dumps and the formatter's size cap are exercised, not modelled",
    "technique": "Lean 4 proof: mutual structural induction over a JSON tree + noninterference + regex-alternative cover; "
                 "correspondence: AST/regex extraction, model-vs-implementation differential, oracle on the serialised access-log line",
}


_FAIL_SEEN: dict[str, int] = {}


def _fail(ctx: Any, case: Any, key: str, what: str) -> None:
    """Report at most three failing inputs per key, so one defect cannot crowd a different one out of the failure list."""
    n = _FAIL_SEEN.get(key, 0)
    _FAIL_SEEN[key] = n + 1
    if n < 3:
        ctx.fail(case, key, what)
    else:
        ctx.note("failures_beyond_three_per_key", sum(max(0, v - 3) for v in _FAIL_SEEN.values()))


# ------------------------------------------------------------------------------------------ the spec, in Python
SPEC_SUBSTRING = ["password", "token", "secret", "key", "authorization", "email", "phone", "address", "birthdate", "gender",
                  "given_name", "family_name", "middle_name", "nickname", "preferred_username", "picture", "profile", "website"]
SPEC_EXACT = ["name"]
_ASCII_LOWER = {c: c + 32 for c in range(65, 91)}


def spec_designates(k: str) -> bool:
    kl = k.translate(_ASCII_LOWER)
    return any(w in kl for w in SPEC_SUBSTRING) or kl in SPEC_EXACT


# ------------------------------------------------------------------------------------------ tree <-> wire encoding


def enc(v: Any) -> Any:
    if v is None:
        return ["n"]
    if isinstance(v, bool):
        return ["b", v]
    if isinstance(v, (int, float)):
        return ["i", s2j(repr(v))]
    if isinstance(v, str):
        return ["s", s2j(v)]
    if isinstance(v, (list, tuple)):
        return ["l", [enc(x) for x in v]]
    if isinstance(v, dict):
        return ["o", [[s2j(k), enc(x)] for k, x in v.items()]]
    raise TypeError(type(v))


def dec(t: Any) -> Any:
    tag = t[0]
    if tag == "n":
        return None
    if tag == "b":
        return t[1]
    if tag == "i":
        s = "".join(map(chr, t[1]))
        return float(s) if any(c in s for c in ".en") else int(s)
    if tag == "s":
        return "".join(map(chr, t[1]))
    if tag == "l":
        return [dec(x) for x in t[1]]
    if tag == "o":
        return {"".join(map(chr, k)): dec(x) for k, x in t[1]}
    raise ValueError(tag)


def case_tree(tree: Any) -> Any:
    """JSON-safe form of a tree for a replay file (tuples marked so that replay rebuilds them)."""
    if isinstance(tree, dict):
        return {"o": [[k, case_tree(v)] for k, v in tree.items()]}
    if isinstance(tree, tuple):
        return {"t": [case_tree(v) for v in tree]}
    if isinstance(tree, list):
        return {"l": [case_tree(v) for v in tree]}
    if isinstance(tree, float):
        return {"f": repr(tree)}
    return tree


def uncase_tree(c: Any) -> Any:
    if isinstance(c, dict):
        if "o" in c:
            return {k: uncase_tree(v) for k, v in c["o"]}
        if "t" in c:
            return tuple(uncase_tree(v) for v in c["t"])
        if "l" in c:
            return [uncase_tree(v) for v in c["l"]]
        if "f" in c:
            return float(c["f"])
    return c


# ------------------------------------------------------------------------------------------ generators

NEUTRAL = ["sub", "iss", "aud", "scope", "exp", "iat", "roles", "tenant", "ctx", "l", "groups", "org", "id", "uid", "hostname",
           "names", "rename", "kind", "zone", "amr", "acr", "vgi_proxy_proof", "proxy", "context", "data", "claims", "n", ""]
NEAR = ["pasword", "tokn", "secre", "ke", "emai", "phon", "addres", "birthdat", "gende", "given-name", "family name", "nick_name",
        "pictur", "profil", "websit", "authorisation", "nam", "name ", " name", "name\n\n", "\nname", "k e y", "to ken"]
FOLD = {"k": "K", "s": "ſ", "i": "İ", "I": "ı"}


def gen_key(rng: Any) -> str:
    r = rng.random()
    if r < 0.30:
        return rng.choice(NEUTRAL)
    if r < 0.36:
        return rng.choice(NEAR)
    if r < 0.40:
        return "".join(rng.choice("abcdfghjlmnopqrtuvwxz_") for _ in range(rng.randint(1, 8)))
    w = rng.choice(SPEC_SUBSTRING + SPEC_EXACT * 3)
    style = rng.random()
    if style < 0.3:
        w = w.upper()
    elif style < 0.6:
        w = "".join(c.upper() if rng.random() < 0.5 else c for c in w)
    if w.lower() == "name":
        x = rng.random()
        if x < 0.5:
            return w
        if x < 0.65:
            return w + "\n"
        if x < 0.8:
            return rng.choice(["host", "user_", "x"]) + w  # `name` only counts as the whole key
        return w + rng.choice(["s", "_x", " "])
    x = rng.random()
    if x < 0.35:
        pass
    elif x < 0.75:
        w = rng.choice(["", "x_", "api", "https://ns/", "my-", "é", "\n"]) + w + rng.choice(["", "_id", "2", "/v", "\n", "s", " "])
    elif x < 0.9:
        # engine-only case folds: K (U+212A), long s (U+017F), dotted/dotless i — sensitive for the regex, not demanded by the text
        w = "".join(FOLD.get(c, c) if rng.random() < 0.6 else c for c in w)
    else:
        pos = rng.randrange(len(w))
        w = w[:pos] + rng.choice(["", "_", "-", " ", "​"]) + w[pos + (1 if rng.random() < 0.5 else 0):]
    return w


class Markers:
    """Unique leaf values; every one can be searched for in the serialised line."""

    def __init__(self, rng: Any) -> None:
        self.n = 0
        self.salt = f"{rng.randrange(16**6):06x}"

    def s(self) -> str:
        self.n += 1
        return f"S3CR3T-{self.salt}-{self.n}-Z"

    def i(self) -> int:
        self.n += 1
        return 9_100_000_000_000_000 + int(self.salt, 16) * 1000 + self.n


def gen_value(rng: Any, mk: Markers, depth: int, max_depth: int) -> Any:
    r = rng.random()
    if depth >= max_depth or r < 0.38:
        x = rng.random()
        if x < 0.62:
            s = mk.s()
            if rng.random() < 0.1:
                s += rng.choice(["é", "\"q\"", "\\", "\n", " ", "𝔘"])
            return s
        if x < 0.80:
            return mk.i()
        return rng.choice([None, True, False, 0, -1, 1.5, "", 2**70, 1e300])
    if r < 0.62:
        n = rng.choice([0, 1, 1, 2, 2, 3, 5])
        items = [gen_value(rng, mk, depth + 1, max_depth) for _ in range(n)]
        return tuple(items) if rng.random() < 0.15 else items
    return gen_obj(rng, mk, depth + 1, max_depth)


def gen_obj(rng: Any, mk: Markers, depth: int, max_depth: int, min_keys: int = 0) -> dict[str, Any]:
    n = max(min_keys, rng.choice([0, 1, 1, 2, 2, 3, 4, 6]))
    out: dict[str, Any] = {}
    for _ in range(n):
        k = gen_key(rng)
        if k in out:
            continue
        if rng.random() < 0.04:
            k = mk.s()  # a marker as a *key* (visible unless below a sensitive key)
        out[k] = gen_value(rng, mk, depth, max_depth)
    return out


CORPUS: list[dict[str, Any]] = [
    {"ctx": {"email": "S3CR3T-c1-Z"}, "l": [{"password": "S3CR3T-c2-Z"}]},  # DESIGN §7.1 witness
    {"email": "S3CR3T-c3-Z", "sub": "u1", "iss": "https://idp"},
    {"vgi_proxy_proof": {"proxy": "edge-1", "client_secret": "S3CR3T-c4-Z", "inner": {"deep": [[{"API_KEY": "S3CR3T-c5-Z"}]]}}},
    {"address": {"street_address": "S3CR3T-c6-Z", "locality": "S3CR3T-c7-Z", "geo": [9100000000000001, 9100000000000002]}},
    {"groups": [{"name": "S3CR3T-c8-Z", "id": 7}, {"Name": "S3CR3T-c9-Z"}, {"hostname": "visible-host"}]},
    {"a": {"b": {"c": {"d": {"e": {"f": {"Authorization": "S3CR3T-c10-Z"}}}}}}},
    {"l": [[[[[[{"phone_number": "S3CR3T-c11-Z"}]]]]]]},
    {"t": ({"given_name": "S3CR3T-c12-Z"}, ["x", {"nickname": "S3CR3T-c13-Z"}])},
    {"name\n": "S3CR3T-c14-Z", "x": {"name\n": "S3CR3T-c15-Z"}},
    {"profile": {"S3CR3T-c16-Z": 1, "k": ["S3CR3T-c17-Z"]}, "picture": ["S3CR3T-c18-Z"], "website": None, "gender": 9100000000000003},
    {"x": {"birthdate": "S3CR3T-c19-Z", "preferred_username": "S3CR3T-c20-Z", "middle_name": "S3CR3T-c21-Z", "family_name": "S3CR3T-c22-Z"}},
    {"x": [{"toKen": "fold-K", "ſecret": "fold-s", "websİte": "fold-I"}]},
    {"empty": {}, "none": None, "l": [], "nested_empty": {"email": {}}, "t": ()},
    {"sub": "u"},
    {"KEY": {"KEY": {"KEY": "S3CR3T-c23-Z"}}, "k": {"ey": "visible"}},
]


# ------------------------------------------------------------------------------------------ oracle helpers


def walk_secrets(v: Any, under: bool, out_secret: list[Any], out_all: list[Any]) -> None:
    """Collect markers: `out_secret` = those below a designated key (at any distance), `out_all` = every marker."""
    if isinstance(v, dict):
        for k, x in v.items():
            if isinstance(k, str) and k.startswith("S3CR3T-"):
                out_all.append(k)
                if under:
                    out_secret.append(k)
            walk_secrets(x, under or (isinstance(k, str) and spec_designates(k)), out_secret, out_all)
    elif isinstance(v, (list, tuple)):
        for x in v:
            walk_secrets(x, under, out_secret, out_all)
    elif isinstance(v, str) and v.startswith("S3CR3T-"):
        out_all.append(v)
        if under:
            out_secret.append(v)
    elif isinstance(v, int) and not isinstance(v, bool) and v >= 9_100_000_000_000_000 and v < 9_200_000_000_000_000:
        out_all.append(v)
        if under:
            out_secret.append(v)


def occurs(secret: Any, line: str, record: Any) -> bool:
    """Does the secret occur in the serialised line (raw text) or anywhere in the parsed record?"""
    if isinstance(secret, int):
        return _occurs_parsed(secret, record)
    probe = secret if secret.isascii() else secret.encode("ascii", "ignore").decode()
    return probe in line or _occurs_parsed(secret, record)


def _occurs_parsed(secret: Any, v: Any) -> bool:
    if isinstance(v, dict):
        return any((isinstance(secret, str) and secret in k) or _occurs_parsed(secret, x) for k, x in v.items())
    if isinstance(v, list):
        return any(_occurs_parsed(secret, x) for x in v)
    if isinstance(v, str):
        return str(secret) in v
    if isinstance(v, bool):
        return False
    if isinstance(v, (int, float)):
        return isinstance(secret, int) and v == secret
    return False


def first_unredacted(inp: Any, out: Any, depth: int, via: str, placeholder: str) -> tuple[str, str] | None:
    """First designated key whose logged value is not the placeholder / which is missing.  Returns (finding key, text)."""
    if isinstance(inp, dict):
        if not isinstance(out, dict):
            return None  # an enclosing value was replaced wholesale: nothing of this subtree is logged
        for k, v in inp.items():
            if spec_designates(k):
                where = "top" if depth == 0 else "nested"
                if k not in out:
                    return (f"C35:key-dropped:{where}", f"designated key {k!r} is missing from the logged claims at depth {depth}")
                if out[k] != placeholder:
                    return (f"C35:value-logged:{where}:{via}", f"value under designated key {k!r} at depth {depth} logged as {str(out[k])[:80]!r}")
            elif k in out:
                r = first_unredacted(v, out[k], depth + 1, via, placeholder)
                if r:
                    return r
        return None
    if isinstance(inp, (list, tuple)):
        if not isinstance(out, list) or len(out) != len(inp):
            return None
        for a, b in zip(inp, out):
            r = first_unredacted(a, b, depth + 1, "arr", placeholder)
            if r:
                return r
    return None


# ------------------------------------------------------------------------------------------ driving the real code


class _Capture(logging.Handler):
    def __init__(self, name: str, fmt: logging.Formatter) -> None:
        super().__init__(logging.DEBUG)
        self.fname = name
        self.setFormatter(fmt)
        self.lines: list[str] = []

    def emit(self, record: logging.LogRecord) -> None:
        self.lines.append(self.format(record))


class _P(Protocol):
    def ping(self) -> str: ...


class _Impl:
    def ping(self) -> str:
        return "pong"


class Rig:
    """The real access logger with capturing handlers (one per real formatter), plus a real WSGI app."""

    def __init__(self) -> None:
        import vgi_rpc.logging_utils as lu
        from vgi_rpc.rpc import _server

        self.lu = lu
        self.emit = _server._emit_access_log
        self.logger = logging.getLogger("vgi_rpc.access")
        self.saved = (self.logger.level, self.logger.propagate, list(self.logger.handlers))
        self.handlers = [
            _Capture("access", lu.VgiAccessLogFormatter()),
            _Capture("json", lu.VgiJsonFormatter()),
            _Capture("capped", lu.VgiAccessLogFormatter(max_record_bytes=700)),
        ]
        self.logger.handlers = list(self.handlers)
        self.logger.setLevel(logging.INFO)
        self.logger.propagate = False
        self.quiet = logging.getLogger("vgi_rpc")
        self.quiet_saved = (self.quiet.level, list(self.quiet.handlers), self.quiet.propagate)
        self.quiet.handlers = [logging.NullHandler()]
        self.quiet.propagate = False
        self.claims_box: dict[str, Any] = {"claims": {}}
        self._client = None

    def close(self) -> None:
        self.logger.setLevel(self.saved[0])
        self.logger.propagate = self.saved[1]
        self.logger.handlers = self.saved[2]
        self.quiet.setLevel(self.quiet_saved[0])
        self.quiet.handlers = self.quiet_saved[1]
        self.quiet.propagate = self.quiet_saved[2]
        self.lu.set_claim_redactor(self.lu.redact_claims)

    def client(self) -> Any:
        if self._client is None:
            import falcon.testing
            from vgi_rpc.http import make_wsgi_app
            from vgi_rpc.rpc import AuthContext, RpcServer

            box = self.claims_box

            def authenticate(req: Any) -> Any:
                return AuthContext(domain="verif", authenticated=True, principal="alice", claims=box["claims"])

            self.server = RpcServer(_P, _Impl())
            self._client = falcon.testing.TestClient(make_wsgi_app(self.server, token_key=b"k" * 32, authenticate=authenticate))
            from harness.common import rpcutil

            self.req = rpcutil.request_bytes("ping", self.server._methods["ping"].params_schema, {})
        return self._client

    def lines_for(self, tree: dict[str, Any], route: str, redactor: str) -> dict[str, str]:
        from vgi_rpc.rpc import AuthContext

        lu = self.lu
        if redactor == "raises":
            def boom(_c: Any) -> Any:
                raise RuntimeError("redactor failed")
            lu.set_claim_redactor(boom)
        elif redactor == "identity":
            lu.set_claim_redactor(lu.no_redaction)
        elif redactor == "empty":
            lu.set_claim_redactor(lambda _c: {})
        else:
            lu.set_claim_redactor(lu.redact_claims)
        for h in self.handlers:
            h.lines.clear()
        try:
            if route == "http":
                c = self.client()
                self.claims_box["claims"] = tree
                r = c.simulate_post("/ping", body=self.req, headers={"Content-Type": "application/vnd.apache.arrow.stream"})
                assert r.status_code == 200, r.status_code
            else:
                auth = AuthContext(domain="verif", authenticated=True, principal="alice", claims=tree)
                self.emit("P", "ping", "unary", "srv", auth, {"remote_addr": "127.0.0.1"}, 1.25, "ok")
        finally:
            lu.set_claim_redactor(lu.redact_claims)
        return {h.fname: (h.lines[-1] if h.lines else "") for h in self.handlers}


def check_tree(ctx: Any, rig: Rig, tree: dict[str, Any], route: str, redactor: str, jsonlike: bool = True) -> None:
    """O on the serialised record(s) + K for `logged`."""
    case = {"kind": "tree", "tree": case_tree(tree) if jsonlike else repr(tree), "route": route, "redactor": redactor}
    secrets: list[Any] = []
    allm: list[Any] = []
    walk_secrets(tree, False, secrets, allm)
    depth = _depth(tree)
    ctx.case(case, nontrivial=bool(secrets) or redactor != "default",
             tags=(f"route:{route}", f"redactor:{redactor}", f"depth:{min(depth, 8)}", f"secrets:{min(len(secrets), 6)}",
                   "jsonlike" if jsonlike else "non-jsonlike-keys"))
    lines = rig.lines_for(tree, route, redactor)
    placeholder = rig.lu.REDACTED
    for fname, line in lines.items():
        if not line:
            _fail(ctx, case, "C35:no-record", f"no access-log line produced ({fname})")
            return
        try:
            rec = json.loads(line)
        except ValueError:
            _fail(ctx, case, "C35:record-not-json", f"formatter {fname} produced a non-JSON line")
            return
        watch = allm if redactor == "raises" else (secrets if redactor in ("default", "empty") else [])
        for s in watch:
            if occurs(s, line, rec):
                where, via = _where(tree, s)
                if redactor == "raises":
                    _fail(ctx, case, "C35:fail-open", f"redactor raised but the record ({fname}) still carries claim value {s!r}")
                else:
                    _fail(ctx, case, f"C35:value-logged:{where}:{via}", f"secret {s!r} (under a designated key, {where}) occurs in the serialised "
                                                                     f"record ({fname}): …{_around(line, s)}…")
                return
        if redactor == "raises" and "claims" in rec and rec["claims"] not in ({}, None):
            _fail(ctx, case, "C35:fail-open", f"redactor raised but `claims` is present in the record ({fname})")
            return
        if redactor == "default" and jsonlike and isinstance(rec.get("claims"), dict) and rec["claims"]:
            bad = first_unredacted(tree, rec["claims"], 0, "obj", placeholder)
            if bad:
                _fail(ctx, case, bad[0], bad[1] + f" ({fname})")
                return
        if redactor == "default" and jsonlike and fname != "capped" and tree and "claims" not in rec:
            # keys must remain visible: a designated top-level key cannot vanish with the whole claims object
            if any(spec_designates(k) for k in tree):
                _fail(ctx, case, "C35:key-dropped:top", f"claims absent from the record ({fname}) although the default redactor did not fail")
                return
    # K: what is stored under `claims` (uncapped formatters agree; take the access formatter) — batched, see flush_logged
    if ctx.driver is not None and jsonlike:
        rec = json.loads(lines["access"])
        _PENDING.append((case, {"claims": enc(tree), "redactor": redactor}, rec.get("claims")))
        if len(_PENDING) >= 3000:
            flush_logged(ctx)


_PENDING: list[tuple[Any, Any, Any]] = []


def flush_logged(ctx: Any) -> None:
    if ctx.driver is None or not _PENDING:
        _PENDING.clear()
        return
    res = ctx.driver.batch([("C35.logged", a) for _c, a, _i in _PENDING])
    for (case, _a, impl), m in zip(_PENDING, res):
        want = None if m is None else json.loads(json.dumps(dec(m)))
        if impl != want:
            ctx.mismatch(case, want, impl, "claims in the record: model vs implementation")
    _PENDING.clear()


def _depth(v: Any) -> int:
    if isinstance(v, dict):
        return 1 + max([_depth(x) for x in v.values()] + [0])
    if isinstance(v, (list, tuple)):
        return 1 + max([_depth(x) for x in v] + [0])
    return 0


def _where(tree: Any, s: Any) -> tuple[str, str]:
    """('top'|'nested', 'obj'|'arr'): is the secret directly under a designated top-level key, and does its path cross an array?"""

    def rec(v: Any, depth: int, arr: bool, under_top: bool) -> tuple[str, str] | None:
        if isinstance(v, dict):
            for k, x in v.items():
                if k == s:
                    return ("top" if under_top else "nested", "arr" if arr else "obj")
                r = rec(x, depth + 1, arr, under_top or (depth == 0 and isinstance(k, str) and spec_designates(k)))
                if r:
                    return r
        elif isinstance(v, (list, tuple)):
            for x in v:
                r = rec(x, depth + 1, True, under_top)
                if r:
                    return r
        elif v == s and type(v) is type(s):
            return ("top" if under_top else "nested", "arr" if arr else "obj")
        return None

    return rec(tree, 0, False, False) or ("nested", "obj")


def _around(line: str, s: Any) -> str:
    i = line.find(str(s))
    return line[max(0, i - 40): i + 60] if i >= 0 else line[:100]


# ------------------------------------------------------------------------------------------ K pieces


def k_sensitive(ctx: Any, keys: list[str]) -> None:
    import vgi_rpc.logging_utils as lu

    keys = [k for k in keys if not any(0xD800 <= ord(c) <= 0xDFFF for c in k)]
    res = ctx.driver.batch([("C35.sensitive", {"k": s2j(k)}) for k in keys]) if ctx.driver is not None else [None] * len(keys)
    for k, m in zip(keys, res):
        impl = lu._DEFAULT_CLAIM_REDACT_RE.search(k) is not None
        want = spec_designates(k)
        case = {"kind": "key", "key": k}
        ctx.case(case, nontrivial=True, tags=("k:sensitive", f"regex:{int(impl)}", f"spec:{int(want)}"))
        if want and not impl:
            _fail(ctx, case, "C35:name-not-covered", f"claim name {k!r} designates a credential / personal data but the redaction pattern does not match it")
        if m is not None and m != impl:
            ctx.mismatch(case, m, impl, "sensitive(k): model vs _DEFAULT_CLAIM_REDACT_RE.search")


def k_redact(ctx: Any, trees: list[dict[str, Any]]) -> None:
    import vgi_rpc.logging_utils as lu

    if ctx.driver is None:
        return
    res = ctx.driver.batch([("C35.redact", {"claims": enc(t)}) for t in trees])
    for t, m in zip(trees, res):
        case = {"kind": "redact", "tree": case_tree(t)}
        ctx.case(case, nontrivial=True, tags=("k:redact",))
        try:
            impl = enc(lu.redact_claims(t))
        except Exception as e:  # noqa: BLE001
            impl = {"raised": type(e).__name__}
        if impl != m:
            ctx.mismatch(case, m, impl, "redact_claims: model vs implementation")


def k_table(ctx: Any, slow: bool) -> None:
    """The IGNORECASE classes in Gen/C35.lean vs the engine, over every code point."""
    import vgi_rpc.logging_utils as lu

    if ctx.driver is None:
        return
    rx = lu._DEFAULT_CLAIM_REDACT_RE
    table = ctx.driver.call("C35.equiv", {})
    allchars = "".join(chr(cp) for cp in range(sys.maxunicode + 1) if not 0xD800 <= cp <= 0xDFFF)
    seen: dict[str, list[int]] = {}
    pat_alts = []
    for al in table:
        text = "".join(map(chr, al["text"]))
        pat_alts.append(("^" if al["start"] else "") + re.escape(text) + ("$" if al["end"] else ""))
        for ch, cl in zip(text, al["lit"]):
            if ch in seen:
                if seen[ch] != cl:
                    ctx.mismatch({"kind": "table", "char": ch}, cl, seen[ch], "two classes for one literal character")
                continue
            seen[ch] = cl
            one = re.compile(re.escape(ch), rx.flags)
            if slow:
                eng = [cp for cp in range(sys.maxunicode + 1) if not 0xD800 <= cp <= 0xDFFF and one.fullmatch(chr(cp))]
            else:
                eng = sorted({ord(m) for m in one.findall(allchars)})
            ctx.case({"kind": "table", "char": ch}, nontrivial=True, tags=("k:table",))
            if eng != cl:
                ctx.mismatch({"kind": "table", "char": ch}, cl, eng, "IGNORECASE class of a literal: Gen vs re engine (all code points)")
    # the alternation rebuilt from the extracted pieces must be the source pattern
    rebuilt = "|".join(pat_alts)
    if re.compile(rebuilt, rx.flags).pattern != rebuilt or _norm(rebuilt) != _norm(rx.pattern):
        ctx.mismatch({"kind": "table", "pattern": rx.pattern}, rebuilt, rx.pattern, "alternatives in Gen vs the source pattern")
    ctx.note("table_chars_checked_over_all_code_points", len(seen))


def _norm(p: str) -> str:
    return p.replace("\\_", "_")


# ------------------------------------------------------------------------------------------ exhaustive small grammar


def small_trees() -> list[dict[str, Any]]:
    """Every claim object of the grammar  O ::= {k: V} | {x: V, email: V},  k in {email, x},  V ::= leaf | O | [V]
    with at most two levels of nesting below the top-level object (1763 trees; thorough tier)."""
    n = [0]

    def vals(d: int) -> list[Any]:
        out: list[Any] = ["LEAF"]
        if d > 0:
            out += objs(d - 1)
            out += [[v] for v in vals(d - 1)]
        return out

    def objs(d: int) -> list[dict[str, Any]]:
        vs = vals(d)
        out: list[dict[str, Any]] = [{k: v} for k in ("email", "x") for v in vs]
        out += [{"x": v, "email": w} for v in vs for w in vs]
        return out

    def fresh(v: Any) -> Any:
        if v == "LEAF":
            n[0] += 1
            return f"S3CR3T-x-{n[0]}-Z"
        if isinstance(v, dict):
            return {k: fresh(x) for k, x in v.items()}
        if isinstance(v, list):
            return [fresh(x) for x in v]
        return v

    return [fresh(o) for o in objs(2)]


# ------------------------------------------------------------------------------------------ run / replay


def run(ctx: Any) -> None:
    _FAIL_SEEN.clear()
    _PENDING.clear()
    rng = ctx.rng
    thorough = ctx.tier == "thorough"
    max_depth = 9 if thorough or ctx.deep else 6
    rig = Rig()
    try:
        # ---- K: the key test ------------------------------------------------------------------------
        keys = list(NEUTRAL) + list(NEAR) + SPEC_SUBSTRING + SPEC_EXACT
        for w in SPEC_SUBSTRING + SPEC_EXACT:
            keys += [w.upper(), w.capitalize(), "x" + w, w + "x", "x" + w + "x", w + "\n", "\n" + w, w + "\n\n", w[:-1], w[1:],
                     w.replace("k", "K"), w.replace("s", "ſ"), w.upper().replace("I", "İ"), w.replace("i", "ı")]
        keys += [gen_key(rng) for _ in range(ctx.budget(4000, 150000))]
        k_sensitive(ctx, keys)
        k_table(ctx, slow=thorough)

        # ---- trees ----------------------------------------------------------------------------------
        mk = Markers(rng)
        trees: list[dict[str, Any]] = list(CORPUS)
        for _ in range(ctx.budget(1500, 40000)):
            trees.append(gen_obj(rng, mk, 0, rng.choice([1, 2, 3, 4, max_depth]), min_keys=1))
        if thorough or ctx.deep:
            st = small_trees()
            trees += st
            ctx.note("exhaustive_small_grammar_trees", len(st))
            ctx.exhaustive = True
        k_redact(ctx, trees)
        n_http = ctx.budget(250, 4000)
        for i, t in enumerate(trees):
            check_tree(ctx, rig, t, "direct", "default")
            if i < len(CORPUS) or i % max(1, len(trees) // n_http) == 0:
                check_tree(ctx, rig, t, "http", "default")
            if i < len(CORPUS) or i % 7 == 0:
                check_tree(ctx, rig, t, "direct", "raises")
            if i % 31 == 0:
                check_tree(ctx, rig, t, "http", "raises")
            if i % 53 == 0:
                check_tree(ctx, rig, t, "direct", "identity")  # K only: a replaced redactor's output is what gets logged
                check_tree(ctx, rig, t, "direct", "empty")
        # claims whose keys are not strings (not JSON-like): the default redactor raises on them -> must fail closed
        odd: list[dict[Any, Any]] = [
            {1: {"password": "S3CR3T-odd1-Z"}, "email": "S3CR3T-odd2-Z"},
            {"a": {None: 1, "password": "S3CR3T-odd3-Z"}},
            {"a": [{("t", 1): "v", "secret": "S3CR3T-odd4-Z"}]},
            {b"email": "S3CR3T-odd5-Z", "email": "S3CR3T-odd6-Z"},
        ]
        for t in odd:
            check_tree(ctx, rig, t, "direct", "default", jsonlike=False)
        flush_logged(ctx)
    finally:
        rig.close()


def replay(ctx: Any, case: dict[str, Any]) -> None:
    if case.get("kind") == "key":
        k_sensitive(ctx, [case["key"]])
        return
    if case.get("kind") == "table":
        k_table(ctx, slow=False)
        return
    tree = uncase_tree(case["tree"])
    if case.get("kind") == "redact":
        k_redact(ctx, [tree])
        return
    rig = Rig()
    try:
        check_tree(ctx, rig, tree, case["route"], case["redactor"])
        flush_logged(ctx)
    finally:
        rig.close()
