"""C09 — protocol-version gate admits exactly matching major.minor.

K (correspondence): `parse_version`, `RpcServer._check_protocol_version` vs the Lean model.
O (direct oracle):  full dispatch over the pipe path (`serve_one`) and HTTP (unary + stream init) for
    unary, stream and `__describe__` methods; "dispatched" is read from the implementation's own call
    log and compared with the *spec* (decided in Python from the property text: canonical ASCII
    MAJOR.MINOR.PATCH with equal major.minor), the refusal must be `protocol_version_mismatch`, name both
    versions and the side to upgrade, and be HTTP 400 on HTTP.
"""

import itertools
import re
from dataclasses import dataclass
from typing import Any, Protocol

import pyarrow as pa

from harness.common import rpcutil
from harness.common.lean import b2j, s2j

PROPERTY = "C09"
LEAN_MODULES = ["VgiVerif.Proofs.C09"]
OBLIGATIONS = [
    "VgiVerif.C09.semver_spec",
    "VgiVerif.C09.parse_spec",
    "VgiVerif.C09.C09_paths",
    "VgiVerif.C09.C09",
    "VgiVerif.C09.C09_error",
    "VgiVerif.C09.C09_nover",
    "VgiVerif.C09.C09_sites_agree",
    "VgiVerif.C09.C09_server_patch_irrelevant",
    "VgiVerif.C09.C09_canon_unique",
]
TRUSTED = [
    "CPython re / str.decode / int() as mirrored by the regex kit (validated differentially on every run)",
    "Arrow IPC framing and Falcon routing are exercised, not modelled",
]
RULE = (
    "grid {0,1,2,10}^3 x {0,1,2,10}^3 of canonical versions (exhaustive) x {unary, stream, __describe__} x "
    "{pipe, http}; malformed corpus + regex-neighbourhood generator for strings and raw bytes; a case is "
    "non-trivial when the service declares a version; distinct by (server version, client bytes, method, path)"
)

_CANON = re.compile(rb"\A(0|[1-9][0-9]*)\.(0|[1-9][0-9]*)\.(0|[1-9][0-9]*)\Z")  # the *spec*, ASCII only


def big_int(b: bytes | str) -> int:
    """Decimal value of an ASCII digit string of any length (CPython's int() refuses more than 4300 digits)."""
    t = b.decode() if isinstance(b, bytes) else b
    v = 0
    for i in range(0, len(t), 4000):
        c = t[i:i + 4000]
        v = v * 10 ** len(c) + int(c)
    return v


def _short(v: Any) -> str:
    """Printable form of a parsed version whose components may be too large for int -> str."""
    if v is None:
        return "None"
    return "[" + ", ".join(str(x) if x < 10 ** 30 else f"<{x.bit_length()}-bit int>" for x in v) + "]"


def spec_pass(srv: tuple[int, int, int] | None, method: str, md: bytes | None) -> bool:
    """The property, stated directly."""
    if srv is None or method == "__describe__":
        return True
    if md is None:
        return False
    m = _CANON.match(md)
    if not m:
        return False
    return (big_int(m.group(1)), big_int(m.group(2))) == srv[:2]


def spec_direction(srv: tuple[int, int, int], md: bytes | None) -> str:
    if md is None:
        return "not_declared"
    try:
        md.decode()
    except UnicodeDecodeError:
        return "undecodable"
    m = _CANON.match(md)
    if not m:
        return "malformed"
    c = (big_int(m.group(1)), big_int(m.group(2)))
    return "client_too_old" if c < srv[:2] else "server_too_old"


def classify_message(msg: str) -> dict[str, Any]:
    """Canonicalise a ProtocolVersionError message into (client shown, server shown, direction)."""
    mc = re.search(r"\n  Client: (.*?)\n  Server: ", msg, re.S)
    ms = re.search(r"\n  Server: (.*?)\n  Direction: ", msg, re.S)
    md = re.search(r"\n  Direction: (.*)\Z", msg, re.S)
    d = md.group(1) if md else ""
    if "did not send" in d:
        direction = "not_declared"
    elif "non-UTF-8" in d:
        direction = "undecodable"
    elif "malformed" in d:
        direction = "malformed"
    elif "client is too old" in d:
        direction = "client_too_old"
    elif "server is too old" in d:
        direction = "server_too_old"
    else:
        direction = "?"
    return {"client": mc.group(1) if mc else None, "server": ms.group(1) if ms else None, "dir": direction}


# ------------------------------------------------------------------------------------------ services


from vgi_rpc.rpc import AnnotatedBatch, CallContext, OutputCollector, RpcServer, Stream, StreamState  # noqa: E402


@dataclass
class GenState(StreamState):
    n: int = 0

    def process(self, input: AnnotatedBatch, out: OutputCollector, ctx: CallContext) -> None:
        out.finish()


def _p_add(self, a: int, b: int) -> int: ...
def _p_gen(self, n: int) -> Stream[GenState]: ...


def make_service(version: str | None) -> tuple[Any, Any, list[str]]:
    calls: list[str] = []
    ns: dict[str, Any] = {"add": _p_add, "gen": _p_gen, "__module__": __name__}
    if version is not None:
        ns["protocol_version"] = version  # must live in the Protocol class's own dict
    P = type("VerProto", (Protocol,), ns)

    class Impl:
        def add(self, a: int, b: int) -> int:
            calls.append("add")
            return a + b

        def gen(self, n: int) -> Stream[GenState]:
            calls.append("gen")
            return Stream(output_schema=pa.schema([("x", pa.int64())]), state=GenState(n))

    server = RpcServer(P, Impl(), enable_describe=True)
    return server, Impl, calls


KEY = b"vgi_rpc.protocol_version"


def _req(server: Any, method: str, md: bytes | None) -> bytes:
    info = server._methods[method]
    kwargs = {"add": {"a": 1, "b": 2}, "gen": {"n": 1}}.get(method, {})
    extra = {KEY: md} if md is not None else None
    return rpcutil.request_bytes(method, info.params_schema, kwargs, extra_metadata=extra)


def run_pipe(server: Any, calls: list[str], method: str, md: bytes | None) -> dict[str, Any]:
    calls.clear()
    req = _req(server, method, md)
    if method == "gen":
        # a stream call is followed by the client's tick stream; provide an immediately-closed input stream
        import io
        from vgi_rpc.utils import empty_batch  # noqa: F401

        buf = io.BytesIO()
        with pa.ipc.new_stream(buf, pa.schema([])) as _w:
            pass
        req = req + buf.getvalue()
    out, exc = rpcutil.serve_one_bytes(server, req)
    streams = rpcutil.read_all_streams(out) if out else []
    err = None
    for _sch, bs in streams:
        err = rpcutil.error_of(bs)
        if err:
            break
    return {"dispatched": bool(calls) or (method == "__describe__" and err is None), "err": err, "escaped": repr(exc) if exc else None,
            "status": None}


def run_pipe_seq(server: Any, calls: list[str], seq: list[tuple[str, bytes | None]]) -> list[dict[str, Any]]:
    """Several calls on ONE in-memory connection (request bytes back to back, as a client that pipelines would send them;
    a stream call is followed by its immediately-closed input stream).  Returns one observation per call."""
    import io

    from vgi_rpc.rpc import PipeTransport

    blob = b""
    for method, md in seq:
        blob += _req(server, method, md)
        if method == "gen":
            buf = io.BytesIO()
            with pa.ipc.new_stream(buf, pa.schema([])) as _w:
                pass
            blob += buf.getvalue()
    r, w = io.BytesIO(blob), io.BytesIO()
    t = PipeTransport(r, w)
    obs: list[dict[str, Any]] = []
    for method, _md in seq:
        calls.clear()
        start = w.tell()
        exc = None
        try:
            server.serve_one(t)
        except BaseException as e:  # noqa: BLE001
            exc = e
        out = w.getvalue()[start:]
        err = None
        try:
            for _sch, bs in rpcutil.read_all_streams(out) if out else []:
                err = rpcutil.error_of(bs)
                if err:
                    break
        except Exception as e:  # noqa: BLE001
            err = {"type": "unreadable-response", "message": repr(e), "kind": None}
        obs.append({"dispatched": bool(calls) or (method == "__describe__" and err is None and exc is None and bool(out)), "err": err,
                    "escaped": repr(exc) if exc else None, "status": None, "dispatched_methods": list(calls)})
    return obs


def run_http(client: Any, calls: list[str], server: Any, method: str, md: bytes | None) -> dict[str, Any]:
    calls.clear()
    path = f"/{method}/init" if method == "gen" else f"/{method}"
    r = client.simulate_post(path, body=_req(server, method, md), headers={"Content-Type": "application/vnd.apache.arrow.stream"})
    err = None
    try:
        for _sch, bs in rpcutil.read_all_streams(r.content):
            err = rpcutil.error_of(bs)
            if err:
                break
    except Exception as e:  # body is not Arrow
        err = {"type": "non-arrow-body", "message": repr(e), "kind": None}
    return {"dispatched": bool(calls) or (method == "__describe__" and err is None and r.status_code == 200), "err": err, "escaped": None,
            "status": r.status_code}


# ------------------------------------------------------------------------------------------ generators

GRID = [0, 1, 2, 10]
MALFORMED: list[bytes] = [
    b"", b" ", b"1", b"1.2", b"1.2.3.4", b"1.2.3-rc1", b"1.2.3+build", b"1.2.3-rc1+b", b"01.2.3", b"1.02.3", b"1.2.03",
    b"00.0.0", b" 1.2.3", b"1.2.3 ", b"1. 2.3", b"1.2.3\n", b"\n1.2.3", b"1.2.3\r\n", b"1.2.3\n\n", b"1.2.3\t", b"1.2.3\x00",
    b"+1.2.3", b"-1.2.3", b"1.-2.3", b"1.2.+3", b"v1.2.3", b"1.2.x", b"1,2,3", b"1.2.3.", b".1.2.3", b"1..3", b"..", b"a.b.c",
    "1١.2.3".encode(), "١.٢.٣".encode(), "1.２.3".encode(), "1.2.3 ".encode(), "1.2.٣".encode(),
    "\U0001d7ce.0.0".encode(), "1.2.3 ".encode(), b"\xff", b"\xc0\xaf", b"1.2.3\xff", b"\xed\xa0\x80", b"\xf4\x90\x80\x80",
    b"1.2." + b"9" * 400, b"9" * 30 + b".0.0", b"1_0.2.3", b"0x1.2.3", b"1e1.2.3", b"1.2.3 \n", b"1.2.3\x0b", b"1.2.3\x0c",
    b"1.2.3\x1c", b"1.2.3\x85",
]


def gen_neighbour(rng: Any) -> bytes:
    """A string near the semver grammar: canonical text with 0-2 local edits."""
    parts = [str(rng.choice([0, 1, 2, 3, 9, 10, 11, 19, 100, 2**40])) for _ in range(3)]
    s = ".".join(parts)
    for _ in range(rng.choice([0, 1, 1, 2])):
        op = rng.choice(["ins", "del", "rep", "dup"])
        pos = rng.randrange(len(s) + 1)
        alphabet = ["0", "1", "9", ".", "-", "+", " ", "\n", "\t", "a", "٠", "٩", "０", "²", "⁰", "\x00", "\r"]
        if op == "ins":
            s = s[:pos] + rng.choice(alphabet) + s[pos:]
        elif op == "del" and s:
            pos = min(pos, len(s) - 1)
            s = s[:pos] + s[pos + 1 :]
        elif op == "rep" and s:
            pos = min(pos, len(s) - 1)
            s = s[:pos] + rng.choice(alphabet) + s[pos + 1 :]
        elif op == "dup" and s:
            pos = min(pos, len(s) - 1)
            s = s[:pos] + s[pos] + s[pos:]
    b = s.encode()
    if rng.random() < 0.05:
        pos = rng.randrange(len(b) + 1)
        b = b[:pos] + bytes([rng.choice([0x80, 0xFF, 0xC0, 0xE2])]) + b[pos:]
    return b


# ------------------------------------------------------------------------------------------ run


def _srv_text(v: tuple[int, int, int]) -> str:
    return ".".join(map(str, v))


def check_dispatch(ctx: Any, path: str, srv: tuple[int, int, int] | None, method: str, md: bytes | None, obs: dict[str, Any]) -> None:
    case = {"path": path, "server_version": _srv_text(srv) if srv else None, "method": method,
            "client_md_hex": md.hex() if md is not None else None}
    want = spec_pass(srv, method, md)
    ctx.case(case, nontrivial=srv is not None, tags=(f"path:{path}", f"method:{method}", "spec:pass" if want else f"spec:{spec_direction(srv, md) if srv else 'x'}"))
    if obs["escaped"]:
        ctx.fail(case, f"C09:exception-escaped:{path}", f"exception escaped dispatch: {obs['escaped']}")
        return
    if obs["dispatched"] != want:
        ctx.fail(case, f"C09:dispatch-mismatch:{path}:{'admitted' if obs['dispatched'] else 'refused'}",
                 f"spec says {'dispatch' if want else 'refuse'}, implementation {'dispatched' if obs['dispatched'] else 'refused'} "
                 f"(client bytes {md!r}, server {srv})")
        return
    if not want:
        err = obs["err"] or {}
        if err.get("kind") != "protocol_version_mismatch" or err.get("type") != "ProtocolVersionError":
            ctx.fail(case, f"C09:wrong-error-kind:{path}", f"refusal is not protocol_version_mismatch: {err.get('type')}/{err.get('kind')}")
            return
        cm = classify_message(err.get("message", ""))
        assert srv is not None
        want_dir = spec_direction(srv, md)
        shown_ok = True
        if want_dir in ("malformed", "client_too_old", "server_too_old"):
            assert md is not None
            shown_ok = cm["client"] == md.decode()
        if cm["dir"] != want_dir or cm["server"] != _srv_text(srv) or not shown_ok:
            ctx.fail(case, f"C09:wrong-error-text:{path}", f"message does not name both versions / the side: {cm}, want dir {want_dir}")
            return
        if path == "http" and obs["status"] != 400:
            ctx.fail(case, "C09:http-status", f"HTTP status {obs['status']} for a version refusal (want 400)")
            return
    # K: the model's gate for this site
    site = {"pipe": "pipe", "http": "http_init" if method == "gen" else "http_unary"}[path]
    if ctx.driver is not None:
        r = ctx.driver.call("C09.gate", {"site": site, "srv": list(srv) if srv else None, "method": s2j(method),
                                         "md": b2j(md) if md is not None else None})
        if r["pass"] != obs["dispatched"]:
            ctx.mismatch(case, r, {"dispatched": obs["dispatched"]}, "gate: model vs implementation")
        elif not r["pass"]:
            cm = classify_message((obs["err"] or {}).get("message", ""))
            shown = "".join(chr(c) for c in r["shown"]) if r["shown"] is not None else None
            impl_shown = cm["client"] if cm["dir"] in ("malformed", "client_too_old", "server_too_old") else None
            if r["dir"] != cm["dir"] or shown != impl_shown:
                ctx.mismatch(case, r, cm, "refusal text: model vs implementation")


def run(ctx: Any) -> None:
    import falcon.testing
    from vgi_rpc.http import make_wsgi_app
    from vgi_rpc.metadata import parse_version

    rng = ctx.rng
    # ---- K1: parse_version on strings ------------------------------------------------------------
    strings: list[str] = []
    for b in MALFORMED:
        try:
            strings.append(b.decode())
        except UnicodeDecodeError:
            pass
    for a, b, c in itertools.product(GRID, repeat=3):
        strings.append(f"{a}.{b}.{c}")
    for n in (4300, 4301, 8001):
        strings += [f"1.2.{'9' * n}", f"{'7' * n}.0.0", f"1.{'1' + '0' * n}.3", f"1.2.0{'9' * n}"]
    n_gen = ctx.budget(5000, 200000)
    for _ in range(n_gen):
        try:
            strings.append(gen_neighbour(rng).decode())
        except UnicodeDecodeError:
            pass
    strings = [s for s in strings if not any(0xD800 <= ord(ch) <= 0xDFFF for ch in s)]
    SKIP = object()  # strings whose components exceed what json.loads can read back from the driver: O only
    small = [s for s in strings if len(s) <= 4000]
    if ctx.driver is not None:
        answers = dict(zip(small, ctx.driver.batch([("C09.parse", {"s": s2j(s)}) for s in small])))
    else:
        answers = {}
    res = [answers.get(s, SKIP) if ctx.driver is not None else None for s in strings]
    for s, m in zip(strings, res):
        try:
            impl = list(parse_version(s))
        except ValueError:
            impl = None
        want = _CANON.match(s.encode())
        spec = [big_int(want.group(1)), big_int(want.group(2)), big_int(want.group(3))] if want else None
        case = {"parse_version": s}
        ctx.case(case, nontrivial=True, tags=("k:parse", "parse:ok" if impl else "parse:reject"))
        if impl != spec:
            ctx.fail(case, "C09:parse-accepts-noncanonical" if impl else "C09:parse-rejects-canonical",
                     f"parse_version({s[:60]!r}{'…' if len(s) > 60 else ''} [{len(s)} chars]) = {_short(impl)}, canonical-semver spec says {_short(spec)}")
        if ctx.driver is not None and m is not SKIP and m != impl:
            ctx.mismatch(case, m, impl, "parse_version: model vs implementation")

    # ---- O + K2: full dispatch --------------------------------------------------------------------
    versions = list(itertools.product(GRID, repeat=3))
    servers: dict[Any, Any] = {}

    def get(v: tuple[int, int, int] | None) -> Any:
        if v not in servers:
            server, _impl, calls = make_service(_srv_text(v) if v else None)
            client = falcon.testing.TestClient(make_wsgi_app(server, token_key=b"k" * 32))
            servers[v] = (server, calls, client)
        return servers[v]

    methods = ["add", "gen", "__describe__"]
    # exhaustive grid on the pipe path for `add`; sampled for the other methods / HTTP in quick
    full = ctx.tier == "thorough" or ctx.deep
    for sv in versions:
        server, calls, client = get(sv)
        for cv in versions:
            md = _srv_text(cv).encode()
            check_dispatch(ctx, "pipe", sv, "add", md, run_pipe(server, calls, "add", md))
            if full or rng.random() < 0.12:
                for method in methods:
                    if method != "add":
                        check_dispatch(ctx, "pipe", sv, method, md, run_pipe(server, calls, method, md))
                    check_dispatch(ctx, "http", sv, method, md, run_http(client, calls, server, method, md))
    ctx.exhaustive = False
    ctx.note("grid_pairs", len(versions) ** 2)
    # malformed corpus: every entry x every method x both paths, against a few server versions
    corpus: list[bytes | None] = [None] + MALFORMED + [gen_neighbour(rng) for _ in range(ctx.budget(300, 6000))]
    for i, md in enumerate(corpus):
        sv = versions[i % len(versions)] if i % 3 else (1, 2, 3)
        server, calls, client = get(sv)
        for method in methods:
            check_dispatch(ctx, "pipe", sv, method, md, run_pipe(server, calls, method, md))
            check_dispatch(ctx, "http", sv, method, md, run_http(client, calls, server, method, md))
    # near-matches of the server's own version: the client text shares the server's "MAJOR.MINOR." prefix (or spells the
    # same numbers differently) but is not canonical semver — any shortcut that recognises a matching client by a prefix,
    # by int() of the parts or by a looser pattern admits some of these
    odd_patch = ["", "0", "00", "03", "010", "3 ", " 3", "3\n", "+3", "-3", "3-rc1", "3.0", "3.", "x", "３", "٣", "3_0", "1e1", "0x3",
                 "3" * 400, "3\x00", "3;", "3,4", "³"]
    odd_num = lambda n: [f"0{n}", f"+{n}", f" {n}", f"{n} ", f"{n}_", "".join(chr(0xFF10 + int(d)) for d in str(n)), f"{n}.0"]  # noqa: E731
    near: list[tuple[tuple[int, int, int], bytes]] = []
    for sv in [(1, 2, 3), (0, 0, 0), (10, 0, 1), (2, 10, 0)] + [versions[rng.randrange(len(versions))] for _ in range(ctx.budget(3, 30))]:
        for pt in odd_patch:
            near.append((sv, f"{sv[0]}.{sv[1]}.{pt}".encode()))
        for om in odd_num(sv[0]):
            near.append((sv, f"{om}.{sv[1]}.{sv[2]}".encode()))
        for on in odd_num(sv[1]):
            near.append((sv, f"{sv[0]}.{on}.{sv[2]}".encode()))
        near.append((sv, f"{sv[0]}.{sv[1]}".encode()))
        near.append((sv, f"{sv[0]}.{sv[1]}.{sv[2]}.".encode()))
        near.append((sv, f"v{sv[0]}.{sv[1]}.{sv[2]}".encode()))
    # components beyond CPython's int-string digit limit (4300): still canonical semver, so the verdict follows major.minor
    for n in (4299, 4300, 4301, 5000, 9001):
        big = "9" * n
        for sv in [(1, 2, 3), (0, 0, 0)]:
            near.append((sv, f"{sv[0]}.{sv[1]}.{big}".encode()))       # same major.minor, huge patch: dispatch
            near.append((sv, f"{sv[0]}.{big}.0".encode()))             # huge minor: refuse (server too old)
            near.append((sv, f"{big}.{sv[1]}.{sv[2]}".encode()))       # huge major: refuse
            near.append((sv, f"{sv[0]}.{sv[1]}.0{big}".encode()))      # leading zero: malformed
    for sv, md in near:
        server, calls, client = get(sv)
        for method in methods:
            check_dispatch(ctx, "pipe", sv, method, md, run_pipe(server, calls, method, md))
            check_dispatch(ctx, "http", sv, method, md, run_http(client, calls, server, method, md))
    # sequences on ONE connection: a refused call (every refusal class, on a unary / stream / introspection method) must
    # leave the gate's verdict for the FOLLOWING calls unchanged — each later call is dispatched iff its own version matches
    sv = (1, 2, 3)
    server, calls, client = get(sv)
    bad_mds: list[bytes | None] = [None, b"2.0.0", b"0.9.9", b"1.3.0", b"1.2", b"1.2.03", b"\xff", b"garbage", b"1.2.3-rc1", b""]
    good = b"1.2.9"
    seqs: list[list[tuple[str, bytes | None]]] = []
    for bm in bad_mds:
        for m1 in methods:
            for m2 in methods:
                seqs.append([(m1, bm), (m2, good)])
        seqs.append([("gen", bm), ("gen", bm), ("add", good), ("gen", good), ("add", bm), ("add", good)])
    for _ in range(ctx.budget(20, 400)):
        seqs.append([(rng.choice(methods), rng.choice(bad_mds + [good, good, b"1.2.0"])) for _ in range(rng.choice([2, 3, 5]))])
    for seq in seqs:
        for i, ((method, md), ob) in enumerate(zip(seq, run_pipe_seq(server, calls, seq))):
            case = {"path": "pipe-seq", "server_version": _srv_text(sv), "seq": [[m, (x.hex() if x is not None else None)] for m, x in seq], "index": i}
            want = spec_pass(sv, method, md)
            ctx.case(case, nontrivial=True, tags=("path:pipe-seq", f"method:{method}", "spec:pass" if want else "spec:refuse"))
            if ob["escaped"]:
                ctx.fail(case, "C09:exception-escaped:pipe-seq", f"call {i} of a connection: exception escaped dispatch: {ob['escaped']}")
                break
            if ob["dispatched"] != want or (want and method != "__describe__" and ob["dispatched_methods"] != [method]):
                ctx.fail(case, f"C09:dispatch-mismatch:pipe-seq:{'admitted' if ob['dispatched'] else 'refused'}",
                         f"call {i} ({method}, client {md!r}) of one connection after {seq[:i]}: spec says "
                         f"{'dispatch' if want else 'refuse'}, implementation dispatched {ob['dispatched_methods']} (error {ob['err']})")
                break
            if not want and (ob["err"] or {}).get("kind") != "protocol_version_mismatch":
                ctx.fail(case, "C09:wrong-error-kind:pipe-seq", f"call {i}: refusal is not protocol_version_mismatch: {ob['err']}")
                break
    # a service declaring no version never checks
    server, calls, client = get(None)
    for md in [None, b"1.2.3", b"garbage", b"\xff", b"9.9.9"]:
        for method in methods:
            check_dispatch(ctx, "pipe", None, method, md, run_pipe(server, calls, method, md))
            check_dispatch(ctx, "http", None, method, md, run_http(client, calls, server, method, md))


def replay(ctx: Any, case: dict[str, Any]) -> None:
    import falcon.testing
    from vgi_rpc.http import make_wsgi_app
    from vgi_rpc.metadata import parse_version

    if "parse_version" in case:
        s = case["parse_version"]
        try:
            impl = list(parse_version(s))
        except ValueError:
            impl = None
        want = _CANON.match(s.encode())
        spec = [big_int(want.group(1)), big_int(want.group(2)), big_int(want.group(3))] if want else None
        ctx.case(case)
        if impl != spec:
            ctx.fail(case, "C09:parse-accepts-noncanonical" if impl else "C09:parse-rejects-canonical", f"{impl} vs {spec}")
        return
    if case.get("path") == "pipe-seq":
        sv3 = tuple(int(x) for x in case["server_version"].split("."))
        server, _impl, calls = make_service(case["server_version"])
        seq = [(m, bytes.fromhex(x) if x is not None else None) for m, x in case["seq"]]
        for i, ((method, md), ob) in enumerate(zip(seq, run_pipe_seq(server, calls, seq))):
            want = spec_pass(sv3, method, md)  # type: ignore[arg-type]
            ctx.case(case)
            if ob["escaped"] or ob["dispatched"] != want or (want and method != "__describe__" and ob["dispatched_methods"] != [method]):
                ctx.fail(case, f"C09:dispatch-mismatch:pipe-seq:{'admitted' if ob['dispatched'] else 'refused'}", f"call {i}: {ob}")
                return
        return
    sv = tuple(int(x) for x in case["server_version"].split(".")) if case["server_version"] else None
    server, _impl, calls = make_service(case["server_version"])
    md = bytes.fromhex(case["client_md_hex"]) if case["client_md_hex"] is not None else None
    if case["path"] == "pipe":
        obs = run_pipe(server, calls, case["method"], md)
    else:
        client = falcon.testing.TestClient(make_wsgi_app(server, token_key=b"k" * 32))
        obs = run_http(client, calls, server, case["method"], md)
    check_dispatch(ctx, case["path"], sv, case["method"], md, obs)  # type: ignore[arg-type]
