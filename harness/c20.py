"""C20 — authentication precedes every dispatch.

K (correspondence, model vs implementation)
  K1  the *real* `_AuthMiddleware` instance taken out of the real `make_wsgi_app(...)` app, called directly with a request
      whose `method` / `path` are arbitrary strings: "was the authenticate callback consulted" vs `C20.exempt`;
  K2  the *real* Falcon router of the same app (`app._router.find(path)`) vs `C20.route`;
  K3  `RpcServer.methods` of a protocol that also declares underscore names vs `C20.serverMethods`;
  K5  request sequences on one app instance: the model answers every request from the request alone (`respondAll`; the
      extraction checks that `_AuthMiddleware` stores nothing between requests), so any verdict remembered by the real
      middleware shows as a mismatch at the step where it matters;
  K4  whole requests through `falcon.testing.TestClient`: callback consulted / rejected, and — with accepted
      credentials — which service code ran (implementation's own invocation log) vs `C20.respond`.
O (direct oracle, the property on the implementation)
  every request is sent with an always-rejecting credential to an app whose service logs every invocation
  (unary bodies, stream init bodies, producer/exchange steps, upload-URL provider, token-introspection resolver):
  the log must stay empty, and unless the request is OPTIONS, under /.well-known/, exactly {prefix}/health (health enabled)
  or under {prefix}/_oauth/ (PKCE active) the callback must have been consulted and the answer must be 401
  (302 for a browser GET when PKCE redirects).
"""

import itertools
import warnings
from dataclasses import dataclass
from typing import Any, Protocol

import pyarrow as pa

from harness.common import httpapps, rpcutil
from harness.common.lean import s2j

PROPERTY = "C20"
LEAN_MODULES = ["VgiVerif.Proofs.C20"]
OBLIGATIONS = [
    "VgiVerif.C20.shape_ok",
    "VgiVerif.C20.routes_shape",
    "VgiVerif.C20.C20_exact",
    "VgiVerif.C20.C20_exact_iff",
    "VgiVerif.C20.no_method_under_exempt",
    "VgiVerif.C20.exempt_route_runs_nothing",
    "VgiVerif.C20.C20",
    "VgiVerif.C20.C20_consulted",
    "VgiVerif.C20.C20_history",
]
TRUSTED = [
    "Falcon: a process_request that raises HTTPUnauthorized prevents routing/responders (exercised end-to-end, not modelled)",
    "Falcon CompiledRouter.find is modelled (lstrip('/'), split('/'), literal before field, fall-through) and compared on every run",
    "OIDC discovery of the PKCE flow is stubbed in the harness process (no network): fixed endpoints",
    "request bodies are assumed well-formed in Model.serviceCode (over-approximation of what a route may run)",
]
RULE = (
    "configurations: hand-written corpus + seeded samples over prefix x health x pkce x oauth-metadata x upload x sticky x "
    "size-cap x describe-page x landing x introspection x describe, services whose method names collide with framework "
    "endpoints (health, healthcheck, health_v2, describe, init, exchange, oauth …) as unary / producer / exchange methods; "
    "requests: every verb x (prefix + every route suffix of every name) + mutations (doubled / trailing slashes, case, "
    "suffix/prefix edits, other prefix), the verb that touches a path first varying from path to path; request SEQUENCES "
    "against one fresh app instance (hand-written: credential-less OPTIONS preflight then POST, accepted call then rejected "
    "call, exempt paths first, …; plus seeded sequences of 2-5 steps mixing OPTIONS/GET/HEAD/POST/DELETE, exempt and "
    "non-exempt paths, no/bad/good credential) with the oracle and the history-free model applied at every step; a case is "
    "distinct by (configuration, verb, path, credential, preceding requests) and non-trivial when an authenticator is configured"
)
PARTIAL = [
    "session teardown hooks behind DELETE {prefix}/__session__ are covered by the theorem and by the 401 check, not by the invocation log",
    "theorem C20 (a request the callback WOULD reject runs nothing, even when exempt) assumes the prefix is not /.well-known or below it: "
    "paths under /.well-known/ bypass authentication by design, so a service mounted there is unauthenticated; C20_exact / "
    "C20_consulted (the literal property) need no such assumption",
]
MANIFEST = {
    "level": "proof",
    "text": "Lean theorems over the extracted exemption shape and route table: an exempt request is OPTIONS, under /.well-known/, "
            "exactly the health path or under the PKCE /_oauth/ subtree, and none of those can reach service code; every other "
            "request consults the callback and a rejection is a 401 before routing. Model tied to the code by direct calls of the "
            "real middleware / router and by end-to-end requests with an invocation log.",
    "note": "prefix is '' or /seg(/seg)* with non-empty segments and not under /.well-known; method names are Python identifiers",
    "technique": "Lean 4 proof (shape-parametric model) + AST extraction of the exemption expression, exempt templates and routes + differential correspondence + direct oracle",
}

from vgi_rpc.rpc import (  # noqa: E402
    AnnotatedBatch,
    AuthContext,
    CallContext,
    ExchangeState,
    OutputCollector,
    ProducerState,
    RpcServer,
    Stream,
)

CALLS: list[tuple[str, str]] = []  # the implementation's own invocation log (module global: stream state is rebuilt per request)
ARROW = "application/vnd.apache.arrow.stream"
_SINK = __import__("io").StringIO()  # Falcon writes unhandled-exception traces to wsgi.errors
_OUT = pa.schema([("x", pa.int64())])


@dataclass
class ProdState(ProducerState):
    name: str = ""

    def produce(self, out: OutputCollector, ctx: CallContext) -> None:
        CALLS.append(("produce", self.name))
        out.finish()


@dataclass
class ExState(ExchangeState):
    name: str = ""

    def exchange(self, input: AnnotatedBatch, out: OutputCollector, ctx: CallContext) -> None:
        CALLS.append(("exchange", self.name))
        out.emit_pydict({"x": [1]})


def _proto_unary() -> Any:
    def f(self, a: int) -> int: ...

    return f


def _proto_producer() -> Any:
    def f(self, a: int) -> Stream[ProdState]: ...

    return f


def _proto_exchange() -> Any:
    def f(self, a: int) -> Stream[ExState]: ...

    return f


def _impl(name: str, kind: str) -> Any:
    if kind == "unary":
        def f(self, a: int) -> int:
            CALLS.append(("unary", name))
            return a
    elif kind == "producer":
        def f(self, a: int) -> Stream[ProdState]:  # type: ignore[misc]
            CALLS.append(("init", name))
            return Stream(output_schema=_OUT, state=ProdState(name))
    else:
        def f(self, a: int) -> Stream[ExState]:  # type: ignore[misc]
            CALLS.append(("init", name))
            return Stream(output_schema=_OUT, state=ExState(name), input_schema=_OUT)
    return f


def make_server(methods: list[tuple[str, str]], describe: bool) -> RpcServer:
    ns: dict[str, Any] = {"__module__": __name__}
    ins: dict[str, Any] = {}
    for name, kind in methods:
        fn = {"unary": _proto_unary, "producer": _proto_producer, "exchange": _proto_exchange}[kind]()
        fn.__name__ = name
        ns[name] = fn
        g = _impl(name, kind)
        g.__name__ = name
        ins[name] = g
    P = type("CollideProto", (Protocol,), ns)
    Impl = type("CollideImpl", (), ins)
    return RpcServer(P, Impl(), enable_describe=describe)


# ------------------------------------------------------------------------------------------ configuration → app


class _Provider:
    def generate_upload_url(self, schema: pa.Schema) -> Any:
        from vgi_rpc.external import UploadUrl

        CALLS.append(("uploadUrl", ""))
        import datetime

        return UploadUrl(upload_url="http://x/u", download_url="http://x/d",
                         expires_at=datetime.datetime(2030, 1, 1, tzinfo=datetime.timezone.utc))


def _resolver(token: str) -> Any:
    CALLS.append(("tokenIntrospect", ""))
    return None


class AuthLog:
    def __init__(self) -> None:
        self.paths: list[str] = []
        self.rejected = 0

    def clear(self) -> None:
        self.paths.clear()
        self.rejected = 0

    def __call__(self, req: Any) -> AuthContext:
        self.paths.append(req.path)
        if req.get_header("X-Cred") == "good":
            return AuthContext(domain="test", authenticated=True, principal="alice")
        self.rejected += 1
        raise ValueError("rejected by the harness authenticator")


FIELDS = ["auth", "health", "pkce", "oauthMeta", "upload", "sticky", "sizeCap", "describePage", "landing", "introspect", "describe"]


def normalise(cfg: dict[str, Any]) -> dict[str, Any]:
    c = dict(cfg)
    c["pkce"] = bool(c["pkce"] and c["auth"] and c["oauthMeta"])  # `_pkce_active` needs authenticate + metadata + client_id
    c["describePage"] = bool(c["describePage"] and c["describe"])  # `enable_describe_page and server.describe_enabled`
    return c


def model_cfg(cfg: dict[str, Any]) -> dict[str, Any]:
    return {"pfx": s2j(cfg["pfx"]), **{k: bool(cfg[k]) for k in FIELDS},
            "attrs": [s2j(n) for n, _k in cfg["methods"]]}


def build(cfg: dict[str, Any]) -> dict[str, Any]:
    """The real app for a configuration (cfg already normalised), plus handles on its middleware / router."""
    import logging

    import falcon.testing

    import vgi_rpc.http._oauth_pkce as pk

    logging.getLogger("falcon").setLevel(logging.CRITICAL)
    logging.getLogger("vgi_rpc").setLevel(logging.CRITICAL)
    from vgi_rpc.http import OAuthResourceMetadata, make_wsgi_app

    server = make_server(cfg["methods"], cfg["describe"])
    alog = AuthLog()
    kw: dict[str, Any] = dict(
        prefix=cfg["pfx"], token_key=b"k" * 32, authenticate=alog if cfg["auth"] else None,
        enable_health_endpoint=cfg["health"], enable_landing_page=cfg["landing"],
        enable_describe_page=cfg["describePage"] or not cfg["describe"], enable_sticky=cfg["sticky"],
        max_request_bytes=(1 << 20) if cfg["sizeCap"] else None,
        upload_url_provider=_Provider() if cfg["upload"] else None,
        introspect_resolver=_resolver if cfg["introspect"] else None,
        introspect_principals=["alice"] if cfg["introspect"] else None,
    )
    if cfg["describe"] and not cfg["describePage"]:
        kw["enable_describe_page"] = False
    if cfg["oauthMeta"]:
        # `pkce` requested ⇒ give the metadata a client_id; otherwise metadata without one (no browser flow)
        want_client = bool(cfg["pkce"])
        kw["oauth_resource_metadata"] = OAuthResourceMetadata(
            resource="http://localhost:8000" + cfg["pfx"], authorization_servers=("https://auth.example.com",),
            client_id="cid" if want_client else None)
    saved = pk._create_oidc_discovery
    pk._create_oidc_discovery = lambda issuer: (lambda: ("https://auth.example.com/authorize", "https://auth.example.com/token"))
    try:
        with warnings.catch_warnings():
            warnings.simplefilter("ignore")
            app = httpapps.track(make_wsgi_app(server, **kw))
    finally:
        pk._create_oidc_discovery = saved
    auth_mw = None
    for m in app._unprepared_middleware:
        if type(m).__name__ == "_AuthMiddleware":
            auth_mw = m
    return {"app": app, "server": server, "alog": alog, "auth_mw": auth_mw, "client": falcon.testing.TestClient(app)}


# ------------------------------------------------------------------------------------------ observation


def impl_exempt(h: dict[str, Any], verb: str, path: str) -> bool | None:
    """Call the real middleware's process_request on a request with this method/path: was the callback consulted?"""
    import falcon
    import falcon.testing

    from vgi_rpc.rpc import _current_transport

    req = falcon.testing.create_req(method="GET", path="/")
    req.method = verb
    req.path = path
    resp = falcon.Response()
    h["alog"].clear()
    try:
        h["auth_mw"].process_request(req, resp)
    except falcon.HTTPUnauthorized:
        pass
    tok = getattr(req.context, "transport_token", None)
    if tok is not None:
        _current_transport.reset(tok)
    return not h["alog"].paths


_RES = {"_RpcResource": "rpc", "_StreamInitResource": "init", "_ExchangeResource": "exchange", "_UploadUrlResource": "upload",
        "_SessionResource": "session", "_OAuthCallbackResource": "oauthCallback", "_OAuthLogoutResource": "oauthLogout",
        "_OAuthTokenProxyResource": "oauthToken", "_DescribePageResource": "describePage",
        "_TokenIntrospectionResource": "introspect", "_IntrospectionDisabledResource": "introspect",
        "_HealthResource": "health", "_LandingPageResource": "landing", "_OAuthResourceMetadataResource": "wellKnown"}


def impl_route(h: dict[str, Any], path: str) -> dict[str, Any]:
    r = h["app"]._router.find(path)
    if r is None:
        return {"k": "notFound"}
    res, _mm, params, _t = r
    k = _RES.get(type(res).__name__, "?" + type(res).__name__)
    out: dict[str, Any] = {"k": k}
    if k in ("rpc", "init", "exchange"):
        out["m"] = params.get("method")
    return out


def model_route_py(r: dict[str, Any]) -> dict[str, Any]:
    out = {"k": r["k"]}
    if "m" in r:
        out["m"] = "".join(chr(c) for c in r["m"])
    return out


def spec_bypass(cfg: dict[str, Any], verb: str, path: str) -> str | None:
    """The property's list of requests that may bypass authentication (written from the property text)."""
    if verb == "OPTIONS":
        return "options"
    if path.startswith("/.well-known/"):
        return "well-known"
    if cfg["health"] and path == cfg["pfx"] + "/health":
        return "health"
    if cfg["pkce"] and path.startswith(cfg["pfx"] + "/_oauth/"):
        return "oauth"
    return None


def body_for(h: dict[str, Any], cfg: dict[str, Any], path: str) -> tuple[bytes, str | None]:
    """A well-formed request body for the method the path names (or for the first method)."""
    methods = h["server"].methods
    rel = path[len(cfg["pfx"]):] if path.startswith(cfg["pfx"]) else path
    segs = rel.lstrip("/").split("/")
    name = segs[0] if segs and segs[0] in methods else None
    if name is None and rel.lstrip("/").startswith("__upload_url__"):
        from vgi_rpc.http._common import _UPLOAD_URL_METHOD, _UPLOAD_URL_PARAMS_SCHEMA  # type: ignore[attr-defined]

        return rpcutil.request_bytes(_UPLOAD_URL_METHOD, _UPLOAD_URL_PARAMS_SCHEMA, {"count": 1}), "__upload_url__"
    if name is None:
        name = next((n for n in methods if n != "__describe__"), None) or "__describe__"
    info = methods[name]
    kwargs = {} if name == "__describe__" else {"a": 1}
    return rpcutil.request_bytes(name, info.params_schema, kwargs), name


def send(h: dict[str, Any], cfg: dict[str, Any], verb: str, path: str, cred: str, body: bytes | None = None,
         accept_html: bool = False, more_headers: dict[str, str] | None = None) -> dict[str, Any]:
    CALLS.clear()
    h["alog"].clear()
    headers = {} if cred == "none" else {"X-Cred": cred}
    if accept_html:
        headers["Accept"] = "text/html"
    b = None
    if verb in ("POST", "PUT", "PATCH", "DELETE"):
        if body is None:
            body, _ = body_for(h, cfg, path)
        if path.endswith("/__introspect_token__"):
            headers["Content-Type"] = "application/json"
            b = b'{"token":"abc"}'
        else:
            headers["Content-Type"] = ARROW
            b = body
    if more_headers:
        headers.update({k: v for k, v in more_headers.items() if k.lower() != "x-cred"})
    r = h["client"].simulate_request(verb, path, headers=headers, body=b, wsgierrors=_SINK)
    described = verb == "POST" and r.status_code == 200 and path.endswith("/__describe__")
    return {"status": r.status_code, "calls": sorted(set(CALLS)), "auth_called": bool(h["alog"].paths),
            "rejected": h["alog"].rejected > 0, "described": described}


# ------------------------------------------------------------------------------------------ generators

NAMES = ["health", "healthcheck", "health_v2", "healthz", "healt", "describe", "describe_all", "init", "exchange", "oauth",
         "well_known", "add", "h", "session", "upload_url", "introspect_token", "Health", "health1"]
HIDDEN = ["_oauth", "_health", "__session__", "_x", "__upload_url__"]
PREFIXES = ["", "/vgi", "/a/b", "/health", "/v1.0", "/_oauth", "/x/.well-known", "/describe", "/vgi/health"]
VERBS = ["GET", "HEAD", "POST", "PUT", "DELETE", "OPTIONS", "PATCH"]
FRAMEWORK_REL = ["", "/", "/health", "/health/", "/healthz", "/health/init", "/health/exchange", "/health/x", "/health.json",
                 "/describe", "/__describe__", "/__describe__/init", "/__upload_url__/init", "/__upload_url__",
                 "/__session__", "/__introspect_token__", "/_oauth/callback", "/_oauth/logout", "/_oauth/token",
                 "/_oauth/init", "/_oauth/exchange", "/_oauth/", "/_oauth", "/_oauth/x/init", "/_oauthx/init",
                 "/.well-known/oauth-protected-resource", "/.well-known/x", "/.well-known/init", "/.well-known"]
ABSOLUTE = ["/.well-known/oauth-protected-resource", "/.well-known/", "/.well-known/init", "/.well-known/health/init",
            "/.well-knownx/init", "/health", "/healthcheck", "/health/init", "/_oauth/callback", "/_oauth/init", "/", "//",
            "//health", "//healthcheck", "/.well-known/../healthcheck"]


def corpus_cfgs() -> list[dict[str, Any]]:
    base = {"auth": True, "health": True, "pkce": False, "oauthMeta": False, "upload": False, "sticky": False, "sizeCap": False,
            "describePage": True, "landing": True, "introspect": False, "describe": True}
    std = [("health", "unary"), ("healthcheck", "unary"), ("health_v2", "producer"), ("healthz", "exchange"),
           ("describe", "unary"), ("add", "unary"), ("_oauth", "unary"), ("oauth", "producer")]
    streamy = [("health", "producer"), ("healthcheck", "exchange"), ("init", "unary"), ("exchange", "producer"),
               ("describe", "exchange"), ("_x", "unary"), ("h", "unary")]
    out = []
    for pfx in ["", "/vgi", "/a/b"]:
        out.append({**base, "pfx": pfx, "methods": std})
        out.append({**base, "pfx": pfx, "methods": streamy, "pkce": True, "oauthMeta": True, "upload": True, "sticky": True,
                    "introspect": True, "sizeCap": True})
    out.append({**base, "pfx": "/health", "methods": std})
    out.append({**base, "pfx": "/vgi", "methods": std, "health": False})
    out.append({**base, "pfx": "", "methods": streamy, "health": False, "landing": False, "describe": False})
    out.append({**base, "pfx": "/vgi", "methods": std, "auth": False})
    out.append({**base, "pfx": "/_oauth", "methods": std, "pkce": True, "oauthMeta": True})
    out.append({**base, "pfx": "", "methods": std, "oauthMeta": True})
    return [normalise(c) for c in out]


def random_cfg(rng: Any) -> dict[str, Any]:
    n = rng.randrange(2, 7)
    names = rng.sample(NAMES, n) + rng.sample(HIDDEN, rng.randrange(0, 3))
    methods = [(nm, rng.choice(["unary", "unary", "producer", "exchange"])) for nm in names]
    cfg: dict[str, Any] = {"pfx": rng.choice(PREFIXES), "methods": methods}
    for f in FIELDS:
        cfg[f] = rng.random() < (0.85 if f in ("auth", "health", "describe") else 0.5)
    return normalise(cfg)


def mutate(rng: Any, path: str) -> str:
    op = rng.randrange(9)
    if op == 0:
        return path + "/"
    if op == 1:
        return "/" + path
    if op == 2:
        i = rng.randrange(len(path) + 1)
        return path[:i] + rng.choice(["/", "x", "_", ".", "-", "é", " ", "H", "%2f", ";", "\t"]) + path[i:]
    if op == 3 and len(path) > 1:
        i = rng.randrange(len(path))
        return path[:i] + path[i + 1:]
    if op == 4:
        return path + rng.choice(["check", "/init", "/exchange", "z", ".json", "/x", "?x"])
    if op == 5:
        return path.replace("/", "//", 1)
    if op == 6:
        return path.swapcase()
    if op == 7 and path:
        return path[:-1]
    return path.replace("health", rng.choice(["healthcheck", "health_v2", "Health", "heal"]))


def paths_for(cfg: dict[str, Any], rng: Any, n_mut: int) -> list[str]:
    pfx = cfg["pfx"]
    rels = list(FRAMEWORK_REL)
    for nm in sorted({n for n, _k in cfg["methods"]} | {"healthcheck", "health_v2", "nosuch", "__describe__"}):
        rels += [f"/{nm}", f"/{nm}/init", f"/{nm}/exchange", f"/{nm}/", f"/{nm}/other"]
    paths = [pfx + r for r in rels] + list(ABSOLUTE)
    if pfx:
        paths += [r for r in rels if r.startswith("/")][:40]  # the same routes without the prefix
        paths += [pfx + "x" + "/health", pfx[:-1] + "/health" if len(pfx) > 1 else "/health"]
    base = list(paths)
    for _ in range(n_mut):
        paths.append(mutate(rng, rng.choice(base)))
    seen = set()
    out = []
    for p in paths:
        if p not in seen:
            seen.add(p)
            out.append(p)
    return out


# ------------------------------------------------------------------------------------------ checks


_SEEN_KEYS: set[str] = set()


def fail_once(ctx: Any, case: dict[str, Any], key: str, what: str) -> None:
    """One failure per canonical key (the first input found for it is the replay)."""
    if key not in _SEEN_KEYS:
        _SEEN_KEYS.add(key)
        ctx.fail(case, key, what)


def case_of(cfg: dict[str, Any], verb: str, path: str, cred: str, extra: dict[str, Any] | None = None) -> dict[str, Any]:
    c = {"cfg": {k: cfg[k] for k in ["pfx", *FIELDS]}, "methods": [list(m) for m in cfg["methods"]], "verb": verb,
         "path": path, "cred": cred}
    if extra:
        c.update(extra)
    return c


def hist_of(h: dict[str, Any], path: str) -> list[list[Any]]:
    """Requests this app instance has already seen on `path` (state carried between requests is usually keyed by path)."""
    return [list(x) for x in h.setdefault("hist", {}).get(path, [])]


def remember(h: dict[str, Any], verb: str, path: str, cred: str, extra: dict[str, Any] | None = None) -> None:
    step: list[Any] = [verb, path, cred]
    keep = {k: v for k, v in (extra or {}).items() if k in ("html", "body_hex", "hdrs")}
    if keep:
        step.append(keep)
    h.setdefault("hist", {}).setdefault(path, []).append(step)


def after_key(history: list[list[Any]] | None) -> str:
    """Canonical class of what preceded a failing request on the same app instance ('' for a fresh app)."""
    if not history:
        return ""
    seen: list[str] = []
    for st in history:
        tag = st[0] + ("+good" if st[2] == "good" else "")
        if tag not in seen:
            seen.append(tag)
    return ":after:" + ",".join(seen)


def rel_key(cfg: dict[str, Any], path: str) -> str:
    pfx = cfg["pfx"]
    return path[len(pfx):] if pfx and path.startswith(pfx) else path


def check_unit(ctx: Any, cfg: dict[str, Any], h: dict[str, Any], verbs: list[str], paths: list[str]) -> None:
    """K1 + K2 (direct calls of the real middleware and router) and the O part that needs no HTTP round trip."""
    mc = model_cfg(cfg)
    reqs = []
    for p in paths:
        reqs.append(("C20.route", {"cfg": mc, "path": s2j(p)}))
    routes = ctx.driver.batch(reqs) if ctx.driver is not None else [None] * len(paths)
    for p, mr in zip(paths, routes):
        ir = impl_route(h, p)
        ctx.case({"k": "route", "cfg": {k: cfg[k] for k in ["pfx", *FIELDS]}, "path": p}, nontrivial=True,
                 tags=("k2:route", "route:" + ir["k"]))
        if mr is not None and model_route_py(mr) != ir:
            ctx.mismatch(case_of(cfg, "GET", p, "-", {"unit": "route"}), model_route_py(mr), ir, "route: model vs Falcon router")
    if not cfg["auth"] or h["auth_mw"] is None:
        return
    # the verb order differs from path to path: a verdict remembered from an earlier request on the same path shows up
    pairs = []
    for p in paths:
        vs = list(verbs)
        ctx.rng.shuffle(vs)
        pairs += [(v, p) for v in vs]
    res = ctx.driver.batch([("C20.exempt", {"cfg": mc, "verb": s2j(v), "path": s2j(p)}) for v, p in pairs]) \
        if ctx.driver is not None else [None] * len(pairs)
    for (v, p), me in zip(pairs, res):
        history = hist_of(h, p)
        ie = impl_exempt(h, v, p)
        remember(h, v, p, "bad")
        why = spec_bypass(cfg, v, p)
        case = case_of(cfg, v, p, "bad", {"unit": "exempt", **({"history": history} if history else {})})
        ctx.case(case, nontrivial=True, tags=("k1:exempt", "exempt:" + (why or "no") if ie else "exempt:consulted"))
        if me is not None and me != ie:
            ctx.mismatch(case, {"exempt": me}, {"exempt": ie}, "exempt: model vs _AuthMiddleware.process_request")
        if ie and why is None:
            fail_once(ctx, case, f"C20:auth-bypassed:{v if v == 'OPTIONS' else '*'}:{rel_key(cfg, p)}{after_key(history)}",
                     f"the authenticate callback is not consulted for {v} {p} (prefix {cfg['pfx']!r}), which is not OPTIONS, "
                     f"/.well-known/, the exact health path or a PKCE path"
                     + (f"; earlier on this app instance: {history}" if history else ""))


def check_request(ctx: Any, cfg: dict[str, Any], h: dict[str, Any], verb: str, path: str, cred: str,
                  body: bytes | None = None, extra: dict[str, Any] | None = None) -> None:
    """K4 + O on one whole request."""
    accept_html = bool(extra and extra.get("html"))
    history = (extra or {}).get("history")
    if history is None:
        history = hist_of(h, path)
    obs = send(h, cfg, verb, path, cred, body, accept_html, (extra or {}).get("hdrs"))
    remember(h, verb, path, cred, extra)
    extra = {k: v for k, v in (extra or {}).items() if k != "history"}
    if history:
        extra["history"] = history
    case = case_of(cfg, verb, path, cred, extra)
    ak = after_key(history)
    why = spec_bypass(cfg, verb, path)
    ran = list(obs["calls"]) + ([("unary", "__describe__")] if obs["described"] else [])
    ctx.case(case, nontrivial=bool(cfg["auth"]), tags=(f"req:{cred}", f"verb:{verb}", f"status:{obs['status']}",
                                                        "bypass:" + (why or "none"), "ran:" + ("yes" if ran else "no")))
    if cfg["auth"] and cred in ("bad", "none"):
        seen = f"; earlier on this app instance: {history}" if history else ""
        if ran:
            fail_once(ctx, case, f"C20:dispatched-unauthenticated:{rel_key(cfg, path)}{ak}",
                     f"{verb} {path} ran {ran} although the authenticator rejects the request (status {obs['status']}){seen}")
        elif why is None and not obs["auth_called"]:
            fail_once(ctx, case, f"C20:auth-bypassed:{verb if verb == 'OPTIONS' else '*'}:{rel_key(cfg, path)}{ak}",
                     f"{verb} {path}: callback not consulted (status {obs['status']}){seen}")
        elif why is None and obs["status"] != 401 and not (cfg["pkce"] and verb == "GET" and obs["status"] == 302):
            fail_once(ctx, case, f"C20:rejected-not-401:{obs['status']}:{rel_key(cfg, path)}{ak}",
                     f"{verb} {path}: callback rejected but the status is {obs['status']}{seen}")
    if ctx.driver is None:
        return
    m = ctx.driver.call("C20.respond", {"cfg": model_cfg(cfg), "verb": s2j(verb), "path": s2j(path), "authOk": cred == "good"})
    if m["authCalled"] != obs["auth_called"] or m["unauthorized"] != obs["rejected"]:
        ctx.mismatch(case, {"authCalled": m["authCalled"], "unauthorized": m["unauthorized"]},
                     {"authCalled": obs["auth_called"], "unauthorized": obs["rejected"]},
                     "respond: callback consulted / rejected" + (" (the model is history-free; this app instance had seen "
                                                                 f"{history} on the path)" if history else ""))
        return
    # service code: the model says what the route may run given a well-formed body; the harness knows what it sent
    kinds = dict(cfg["methods"])
    want = set()
    may_introspect = False
    for c in m["code"]:
        k = c["k"]
        nm = "".join(chr(x) for x in c.get("m", []))
        if k == "unary" and (kinds.get(nm) == "unary" or nm == "__describe__") and (extra or {}).get("body_for") == nm:
            want.add(("unary", nm))
        elif k == "streamInit" and kinds.get(nm) in ("producer", "exchange") and (extra or {}).get("body_for") == nm:
            want.add(("init", nm))
            if kinds.get(nm) == "producer":
                want.add(("produce", nm))
        elif k == "streamExchange" and (extra or {}).get("exchange_of") == nm:
            want.add(("exchange", nm))
        elif k == "uploadUrl" and (extra or {}).get("body_for") == "__upload_url__":
            want.add(("uploadUrl", ""))
        elif k == "tokenIntrospect" and cfg["auth"] and cred == "good":
            # the resource runs the resolver only for an authenticated allow-listed caller and within its rate limit:
            # the model says "may run"; the log may show it only in that case
            may_introspect = True
    got = {tuple(x) for x in ran}
    if ("tokenIntrospect", "") in got and may_introspect:
        got.discard(("tokenIntrospect", ""))
    if got != want:
        ctx.mismatch(case, sorted(want), sorted(got), "service code run: model (for the body sent) vs invocation log")


def exchange_bodies(cfg: dict[str, Any], h: dict[str, Any]) -> dict[str, tuple[str, bytes, dict[str, str]]]:
    """For every exchange method reachable at /<m>/init: open the stream with good credentials through the real client and
    record the real exchange request (path, body) so it can be re-sent with rejected credentials."""
    from vgi_rpc.http import http_connect
    from vgi_rpc.http._testing import _SyncTestClient

    out: dict[str, tuple[str, bytes, dict[str, str]]] = {}
    names = [n for n, k in cfg["methods"] if k == "exchange" and not n.startswith("_")]
    if not names:
        return out
    proto = h["server"].protocol if hasattr(h["server"], "protocol") else None
    rec: list[tuple[str, bytes, dict[str, str]]] = []

    class Rec(_SyncTestClient):
        __slots__ = ()

        def post(self, url: str, *, content: bytes, headers: dict[str, str]) -> Any:
            rec.append((url, content, dict(headers)))
            return super().post(url, content=content, headers=headers)

    client = Rec(h["app"], default_headers={"X-Cred": "good"}, prefix=cfg["pfx"])
    if proto is None:
        proto = h["server"]._protocol
    for nm in names:
        try:
            with warnings.catch_warnings():
                warnings.simplefilter("ignore")
                with http_connect(proto, client=client, prefix=cfg["pfx"]) as proxy:
                    sess = getattr(proxy, nm)(a=1)
                    rec.clear()
                    CALLS.clear()
                    sess.exchange(AnnotatedBatch(batch=pa.RecordBatch.from_pydict({"x": [1]}, schema=_OUT)))
                    if ("exchange", nm) in CALLS and rec:
                        url, content, hdrs = rec[-1]
                        from urllib.parse import urlparse

                        out[nm] = (urlparse(url).path, content, hdrs)
        except Exception:
            continue
    return out


SEQ_VERBS = ["OPTIONS", "GET", "HEAD", "POST", "DELETE"]


def seq_targets(cfg: dict[str, Any]) -> list[str]:
    """Paths whose POST runs service code for an accepted caller."""
    pfx = cfg["pfx"]
    out = []
    for nm, kind in cfg["methods"]:
        if nm.startswith("_"):
            continue
        out.append(f"{pfx}/{nm}" if kind == "unary" else f"{pfx}/{nm}/init")
    if cfg["describe"]:
        out.append(f"{pfx}/__describe__")
    if cfg["upload"]:
        out.append(f"{pfx}/__upload_url__/init")
    return out


def corpus_sequences(cfg: dict[str, Any], t: str) -> list[list[list[Any]]]:
    hp = cfg["pfx"] + "/health"
    wk = "/.well-known/oauth-protected-resource"
    return [
        [["OPTIONS", t, "none"], ["POST", t, "none"]],                       # a credential-less preflight, then the call
        [["OPTIONS", t, "none"], ["POST", t, "bad"]],
        [["POST", t, "good"], ["POST", t, "bad"]],                           # an accepted call, then a rejected one
        [["POST", t, "bad"], ["OPTIONS", t, "none"], ["POST", t, "bad"]],
        [["GET", hp, "none"], ["OPTIONS", hp, "none"], ["POST", t, "bad"]],   # exempt paths first
        [["GET", wk, "none"], ["POST", t, "none"]],
        [["HEAD", t, "none"], ["POST", t, "bad"]],
        [["OPTIONS", t, "none"], ["OPTIONS", t, "bad"], ["GET", t, "bad"], ["POST", t, "bad"]],
        [["DELETE", t, "good"], ["POST", t, "none"]],
    ]


def random_sequence(cfg: dict[str, Any], rng: Any, targets: list[str]) -> list[list[Any]]:
    t = rng.choice(targets)
    others = [rng.choice(targets), cfg["pfx"] + "/health", "/.well-known/x", cfg["pfx"] + "/_oauth/callback", cfg["pfx"] or "/"]
    steps = []
    for _ in range(rng.randrange(1, 5)):
        steps.append([rng.choice(SEQ_VERBS), t if rng.random() < 0.65 else rng.choice(others),
                      rng.choice(["none", "bad", "good", "none"])])
    steps.append(["POST", t, rng.choice(["bad", "none"])])
    return steps


def check_sequence(ctx: Any, cfg: dict[str, Any], steps: list[list[Any]]) -> None:
    try:
        _check_sequence(ctx, cfg, steps)
    finally:
        httpapps.dispose_all()  # sticky apps keep a reaper thread ticking until told to stop


def _check_sequence(ctx: Any, cfg: dict[str, Any], steps: list[list[Any]]) -> None:
    """A request sequence against ONE fresh app instance: every step gets the full K4 + O treatment, and every case carries the
    steps before it so that a replay re-creates the state of the app."""
    h = build(cfg)
    for i, st in enumerate(steps):
        verb, path, cred = st[0], st[1], st[2]
        body, bf = (body_for(h, cfg, path) if verb in ("POST", "PUT", "PATCH", "DELETE") else (None, None))
        extra: dict[str, Any] = {"history": [list(x) for x in steps[:i]], "seq": True}
        if bf:
            extra["body_for"] = bf
        ctx.tag("seq:step")
        check_request(ctx, cfg, h, verb, path, cred, body, extra)
    ctx.tag("seq:sequences", f"seq:len{len(steps)}", "seq:first:" + steps[0][0])


def run_sequences(ctx: Any, cfg: dict[str, Any], n_corpus: int, n_random: int) -> None:
    if not cfg["auth"]:
        return
    targets = seq_targets(cfg)
    if not targets:
        return
    rng = ctx.rng
    seqs: list[list[list[Any]]] = []
    for t in rng.sample(targets, min(len(targets), 3)):
        seqs += corpus_sequences(cfg, t)
    head, tail = seqs[:2], seqs[2:]
    rng.shuffle(tail)
    seqs = head + tail[: max(0, n_corpus - 2)]
    for _ in range(n_random):
        seqs.append(random_sequence(cfg, rng, targets))
    for steps in seqs:
        check_sequence(ctx, cfg, steps)


def run_cfg(ctx: Any, cfg: dict[str, Any], n_mut: int, full: bool) -> None:
    try:
        _run_cfg(ctx, cfg, n_mut, full)
    finally:
        httpapps.dispose_all()  # sticky apps keep a reaper thread ticking until told to stop


def _run_cfg(ctx: Any, cfg: dict[str, Any], n_mut: int, full: bool) -> None:
    rng = ctx.rng
    h = build(cfg)
    paths = paths_for(cfg, rng, n_mut)
    # direct middleware / router calls on their own app instance (its middleware keeps its own history)
    check_unit(ctx, cfg, build(cfg), VERBS if full else ["GET", "POST", "OPTIONS", rng.choice(["HEAD", "PUT", "DELETE", "PATCH"])], paths)
    # K3
    if ctx.driver is not None:
        mm = sorted("".join(chr(c) for c in x) for x in ctx.driver.call("C20.methods", {"cfg": model_cfg(cfg)}))
        im = sorted(h["server"].methods.keys())
        ctx.case({"k": "methods", "methods": cfg["methods"], "describe": cfg["describe"]}, tags=("k3:methods",))
        if mm != im:
            ctx.mismatch({"methods": cfg["methods"]}, mm, im, "server.methods: model vs RpcServer")
    ascii_paths = [p for p in paths if p.startswith("/") and all(33 <= ord(c) < 127 and c not in "%?#" for c in p)]
    methods = h["server"].methods
    for p in ascii_paths:
        order = list(VERBS if full else ["POST", "GET", "OPTIONS"])
        rng.shuffle(order)  # which verb touches a path first varies from path to path
        for verb in order:
            if not full and verb != "POST" and rng.random() < 0.5:
                continue
            body, bf = (body_for(h, cfg, p) if verb in ("POST", "PUT", "PATCH", "DELETE") else (None, None))
            extra = {"body_for": bf} if bf else {}
            check_request(ctx, cfg, h, verb, p, "bad", body, extra)
            if verb == "POST" and (full or rng.random() < 0.6):
                check_request(ctx, cfg, h, verb, p, "good", body, extra)
            if verb == "GET" and cfg["pkce"] and rng.random() < 0.3:
                check_request(ctx, cfg, h, verb, p, "bad", None, {"html": True})
    # exchange turns: open with good credentials, replay the recorded exchange request with rejected ones
    if cfg["auth"]:
        for nm, (url, content, hdrs) in exchange_bodies(cfg, h).items():
            ex = {"exchange_of": nm, "body_hex": content.hex(), "hdrs": hdrs}
            if rng.random() < 0.5:
                check_request(ctx, cfg, h, "OPTIONS", url, "none", None, {})
            check_request(ctx, cfg, h, "POST", url, "good", content, ex)
            check_request(ctx, cfg, h, "POST", url, "bad", content, ex)
    del methods


HEADLINE = ["/healthcheck", "/health_v2/init", "/healthz/init", "/health/init", "/health_v2"]


def run(ctx: Any) -> None:
    pa.set_cpu_count(1)
    pa.set_io_thread_count(1)
    _SEEN_KEYS.clear()
    cfgs = corpus_cfgs()
    # the §7.1 observation first: method names that merely start with the health endpoint's name
    for cfg in cfgs[:4]:
        h = build(cfg)
        for rel in HEADLINE:
            p = cfg["pfx"] + rel
            body, bf = body_for(h, cfg, p)
            check_request(ctx, cfg, h, "POST", p, "bad", body, {"body_for": bf})
        httpapps.dispose_all()
    n_rand = ctx.budget(8, 40)
    for _ in range(n_rand):
        cfgs.append(random_cfg(ctx.rng))
    full = ctx.tier == "thorough" or ctx.deep
    n_mut = ctx.budget(40, 100)
    # request sequences on one app instance, before the per-request sweep
    n_corpus, n_random = ctx.budget(5, 27), ctx.budget(4, 30)
    for cfg in cfgs:
        run_sequences(ctx, cfg, n_corpus, n_random)
        if ctx.deep and ctx.tier != "thorough" and len(ctx.failures) >= 8:
            break
    for i, cfg in enumerate(cfgs):
        run_cfg(ctx, cfg, n_mut, full)
        if ctx.deep and ctx.tier != "thorough" and len(ctx.failures) >= 8 and i >= 3:
            break  # raised-budget search: failing inputs found, no need to exhaust the budget
    httpapps.dispose_all()
    import threading

    ctx.note("threads_at_end", threading.active_count())
    ctx.note("sticky_reaper_threads_at_end", httpapps.reaper_threads())
    ctx.note("configurations", len(cfgs))
    ctx.note("invocation_log_positive_controls", ctx.tags.get("ran:yes", 0))


def replay(ctx: Any, case: dict[str, Any]) -> None:
    try:
        _replay(ctx, case)
    finally:
        httpapps.dispose_all()  # sticky apps keep a reaper thread ticking until told to stop


def _replay(ctx: Any, case: dict[str, Any]) -> None:
    _SEEN_KEYS.clear()
    cfg = dict(case["cfg"])
    cfg["methods"] = [tuple(m) for m in case["methods"]]
    cfg = normalise(cfg)
    h = build(cfg)
    if case.get("unit") == "route":
        check_unit(ctx, {**cfg, "auth": False}, h, [], [case["path"]])
        return
    history = case.get("history") or []
    if case.get("unit") == "exempt":
        for st in history:  # re-create what the middleware instance had seen
            impl_exempt(h, st[0], st[1])
            remember(h, st[0], st[1], st[2])
        check_unit(ctx, cfg, h, [case["verb"]], [case["path"]])
        return
    for st in history:  # re-create the state of the app instance: the same requests, in order, on this fresh app
        more = st[3] if len(st) > 3 else {}
        hb = bytes.fromhex(more["body_hex"]) if more.get("body_hex") else None
        send(h, cfg, st[0], st[1], st[2], hb, bool(more.get("html")), more.get("hdrs"))
        remember(h, st[0], st[1], st[2], more)
    body = bytes.fromhex(case["body_hex"]) if case.get("body_hex") else None
    extra = {k: case[k] for k in ("body_for", "exchange_of", "body_hex", "html", "hdrs", "seq") if k in case}
    if history:
        extra["history"] = history
    if body is None and case["verb"] in ("POST", "PUT", "PATCH", "DELETE"):
        body, bf = body_for(h, cfg, case["path"])
    check_request(ctx, cfg, h, case["verb"], case["path"], case["cred"], body, extra)


_ = itertools
