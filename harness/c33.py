"""C33 — launcher spawns once and socket workers never vanish under a client.

(b) accept loop: the REAL `vgi_rpc.rpc._transport._serve_socket_threaded` runs under the deterministic scheduler
    (`harness/common/detsched.py`) with a scripted listening socket (clients are threads whose `connect` puts a
    connection into the backlog; `accept()` times out on the logical clock), a fake `server.serve` that lasts until the
    client closes, the scheduler's `threading` (Lock / Semaphore / Thread / Timer) substituted in the module.  The idle
    timer therefore fires at every point the schedule chooses relative to accept, registration, handler start and end.
    After every release of `state_lock` the REAL closure variables `conn_count`, `timer`, `shutdown_requested` are read.
(a) launcher: the REAL `vgi_rpc.launcher.launch`, `gc_state_dir`, `_require_socket_or_absent`, `_unlink_stale_socket`,
    `_write_meta`, `compute_hash`, `_socket_paths` and the REAL `_transport._unlink_bound_unix_socket` (worker exit) run
    over an in-memory file system (`os` and `Path` substituted in the two modules), with fakes for `FileLock` (the inode
    protocol of filelock: open(O_CREAT) → non-blocking flock → st_nlink re-check; no unlink on release), `_probe`
    (connect succeeds iff the path names an accepting worker; it counts as a connection of that worker) and
    `_spawn_worker` (the worker is accepting when it returns; refuses when somebody is already listening).  Worker
    threads idle out `idle` after their last connection — the guarantee proved in (b).  Several launcher threads
    (same and different command hashes, so the opportunistic GC of one visits the other) run under the scheduler.

K  every trace, mapped to model labels, must be a run of the Lean transition system (`C33.loopAccepts` /
   `C33.launchAccepts`); the labels carry the observed outcomes (did the loop leave? was a timer armed? probe result,
   lock attempts) and `vars` observations of the real variables / the in-memory world, which the model must predict;
   the model's observable history must equal the one read off the trace.
O  the spec monitors of `Spec/C33.lean`, re-implemented here from the property text and evaluated on the observed
   events (cross-checked against the Lean monitors): at an idle stop no accepted connection is unfinished and the
   zero-connection period is >= idle_timeout (start-up grace before the first connection); no worker is spawned while
   another one of the same endpoint is accepting; a launch that returns (less than idle after it decided) returns a
   path that names an accepting worker.
"""

from __future__ import annotations

import fnmatch
import stat as _stat
import types
from pathlib import PurePosixPath
from typing import Any

from harness.common.detsched import DetSched

PROPERTY = "C33"
LEAN_MODULES = ["VgiVerif.Proofs.C33"]
OBLIGATIONS = [
    "VgiVerif.C33.Loop.C33_loop_shape",
    "VgiVerif.C33.Loop.C33_loop_structure",
    "VgiVerif.C33.Loop.C33_shutdown",
    "VgiVerif.C33.Loop.C33_shutdown_step",
    "VgiVerif.C33.Loop.C33_worker_lease",
    "VgiVerif.C33.Loop.C33_stop_only_by_check",
    "VgiVerif.C33.Loop.C33_shutdown_trace",
    "VgiVerif.C33.Launch.C33_launch_shape",
    "VgiVerif.C33.Launch.C33_launch_structure",
    "VgiVerif.C33.Launch.C33_tcp_startup_order",
    "VgiVerif.C33.Launch.C33_lock_mutex",
    "VgiVerif.C33.Launch.C33_startup_covered",
    "VgiVerif.C33.Launch.C33_single_spawn_partial",
    "VgiVerif.C33.Launch.C33_accepting_partial",
    "VgiVerif.C33.Launch.C33_accepting_step",
    "VgiVerif.C33.Launch.C33_launcher_partial",
    "VgiVerif.C33.Launch.C33_launcher_trace",
]
TRUSTED = [
    "CPython threading.Lock / Semaphore / Timer implement the modelled primitives (Timer: wait(interval), then the "
    "callback unless cancelled); the three shared variables of the accept loop are only touched under state_lock "
    "(extracted shape fact), so a critical section is one model step",
    "harness fakes: listening socket (accept with timeout, FIFO backlog), server.serve (lasts until the client closes), "
    "FileLock (inode protocol read off filelock 3.32: open(O_CREAT), non-blocking flock, st_nlink re-check, no unlink on "
    "release; polling replaced by a blocking wait), _probe (connect succeeds iff the path names an accepting worker), "
    "_spawn_worker (Popen = a scheduler thread running the REAL serve_unix over a fake `socket` module: _check_no_existing_listener, "
    "_unlink_stale_unix_socket, bind, listen, on_bound are separate scheduling points; returns on the on_bound announcement), "
    "_serve_socket_threaded inside that worker (replaced by the lease abstraction proved in (b)), in-memory os/Path",
    "the launcher model's worker is the abstraction proved in (b): it stops accepting only `idle` after its last connection "
    "(a probe is a connection)",
    "harness/common/detsched.py: one real OS thread runs at a time; scheduling points at every fake primitive / file-system operation",
]
PARTIAL = [
    "C33_single_spawn / C33_accepting are proved with the hypothesis `clobbered = false`: runs in which a worker's exit-time "
    "`os.unlink(path)` (serve_unix finally → _unlink_bound_unix_socket: lstat, compare, unlink are separate system calls) removed "
    "the socket of a successor worker are excluded (open finding C33:exit-unlink-clobber:*, witness in Findings/C33.lean)",
    "real flock/inode semantics are abstracted to the protocol above; with a filelock lacking the st_nlink re-check (allowed by "
    "`filelock>=3.13`) gc_state_dir's unlink of the held lock file lets two launchers in (Findings: no_nlink_check_double_spawn)",
    "a worker whose accept loop has left but whose listening socket is not yet closed still completes connect() from the kernel "
    "listen backlog — `alive` is read as `accepting`, and that window (no joins when conn_count = 0) is not modelled; the worker's "
    "process creation and interpreter start-up before serve_unix are one step (`Popen`)",
    "accept() raising OSError (listener broken from outside) ends the loop without being an idle shutdown: outside the property",
    "serve_named_pipe (Windows) has a sibling loop with a different shutdown protocol; not modelled, not runnable here",
    "preemption inside a single bytecode / C call is not explored",
]
RULE = (
    "loop: hand-written + random client programs (1-3 clients: sleep / connect / hold / close; idle_timeout 2..8 quanta of "
    "1/8 s against the 4-quanta accept timeout; max_connections None/1; idle_timeout None with an external close; scripted "
    "descheduling of the accept loop after accept(), of a connection's thread before its first statement, of a handler before "
    "its final section and of a fired timer callback, for 1..9 quanta while logical time passes), every "
    "schedule with <= 2 (quick) / 3 (thorough) preemptions (capped) + PCT/random walks + the 'stall' family (one thread eager, then "
    "starved, enumerated over thread and switch point); launcher: 2-4 launcher threads over 1-2 "
    "command hashes (cold start, reuse, worker idle-exit racing a launch, scripted spawn failure, zero lock timeout, explicit "
    "socket path — also ONE socket launched concurrently under several spellings: symlinked directory, `..` segments, relative "
    "to the cwd, resolved by the in-memory file system only), same exploration. A case is one (config, schedule); non-trivial when a connection was accepted by the loop "
    "resp. two launcher threads ran a launch"
)
MANIFEST = {
    "level": "proof",
    "text": "Kernel-checked invariants of two transition systems: the threaded accept loop (any number of connections, handler "
            "threads and timers, every interleaving of accept / registration / handler end / timer fire / timer callback) leaves "
            "through its idle test only with conn_count = 0, no accepted connection unfinished, and a zero-connection period of at "
            "least idle_timeout (start-up grace before the first connection); the per-endpoint launcher system (flock per lock-file "
            "inode with gc_state_dir unlinking the held lock file, probe, stale-socket unlink, spawn, worker idle exit) keeps the "
            "critical sections mutually exclusive, at most one accepting worker, and every returned path accepting — the last two "
            "for runs without the worker-exit unlink race (open finding). Tied to the code by extraction of the repair shapes and "
            "the structure of the functions, and by trace inclusion of deterministic-scheduler runs of the real functions.",
    "note": "Fakes for sockets, filelock, subprocess and the file system are trusted; schedules explored up to a preemption bound.",
    "technique": "Lean 4 proof: inductive invariants of Sched-kit transition systems parametric in extracted shapes + "
                 "correspondence: trace inclusion of deterministic-scheduler runs of the real code + spec monitors on the traces",
}

Q = 0.125  # time quantum (seconds): every duration in a configuration is a multiple, exact in binary floating point
QPS = 8
STOP_AFTER = 12
_GEN: dict[str, Any] = {"graceFloorSecs": 60, "acceptTimeoutMillis": 500}  # replaced by the extracted constants (check_meta)


def grace_of(idle: int | None) -> int:
    """`max(idle_timeout, <floor>)` in quanta, the floor taken from the extracted source"""
    return max(idle or 0, _GEN["graceFloorSecs"] * QPS)


class _StallChooser:
    """Depth-2 schedule family (PCT with one change point, enumerated instead of sampled): thread `victim` runs eagerly
    (it wins every contested choice) for its first `after` contested choices and is starved from then on (it only runs when
    nothing else can); everybody else runs non-preemptively in thread-id order.  Finds the bugs that need ONE thread to be
    delayed at ONE point (a fired timer callback, a worker between lstat and unlink, a launcher between open and flock)
    without wading through the zero-preemption schedules first."""

    def __init__(self, victim: int, after: int) -> None:
        self.victim, self.after = victim, after
        self.count = 0
        self.log: list[tuple[tuple[int, ...], int | None, int]] = []
        self.diverged = False

    def choose(self, enabled: list[int], cur: int | None) -> int:
        if self.victim in enabled and self.count < self.after:
            c = self.victim
        else:
            cands = [t for t in enabled if t != self.victim] or list(enabled)
            c = cur if (cur is not None and cur in cands) else cands[0]
        if c == self.victim:
            self.count += 1
        self.log.append((tuple(enabled), cur, c))
        return c


def stall_runs(ds: DetSched, setup: Any, n: int, victims: Any = range(0, 8), afters: Any = range(0, 64)) -> Any:
    """Up to n runs of the stall family, (after, victim) in lexicographic order; replayable through `run.schedule`."""
    runner = getattr(ds, "_run", None)
    if runner is None:  # pragma: no cover - detsched internals changed: the sweep is skipped, explore() still runs
        return
    k = 0
    for after in afters:
        for victim in victims:
            if k >= n:
                return
            k += 1
            yield runner(setup, _StallChooser(victim, after), "stall")


def _fresh_failures(ctx: Any) -> int:
    """failing inputs that are not hits of an OPEN known finding (those must not cut the search short)"""
    from harness.common import core

    fs = core.load_findings(PROPERTY)
    return sum(1 for f in ctx.failures if core.match_finding(fs, f.key) is None)


def units(x: float) -> Any:
    """seconds → quanta; an int on the grid, else the exact float (the trace is then judged by the Python oracle only and
    reported as a correspondence mismatch: the model's clock is integral)"""
    u = x / Q
    if abs(u - round(u)) > 1e-9:
        return u
    return int(round(u))


def _offgrid(labels: list[list[Any]]) -> bool:
    return any(isinstance(x, float) for lab in labels for x in lab)


def _mods() -> tuple[Any, Any]:
    import vgi_rpc.launcher as L
    import vgi_rpc.rpc._transport as T

    return T, L


# =====================================================================================================================
# (b) accept loop
# =====================================================================================================================


def _delay(cfg: dict[str, Any], kind: str, ident: int) -> int:
    """Scripted descheduling (quanta) of one thread at one point: cfg["delays"][kind] = [[id, quanta], …].  Logical time only
    passes while every thread is blocked, so "thread X has not yet run while time passes" has to be a blocked state: the
    thread sleeps on the logical clock at the point in question (accept loop right after accept() returned; a connection's
    thread before its first statement; a handler between the end of the service and its final section; a timer thread
    between the end of its wait and calling the callback — `callback` — and between that call and taking the lock — `cblock`)."""
    for i, d in cfg.get("delays", {}).get(kind, []):
        if i == ident:
            return int(d)
    return 0


class _Conn:
    def __init__(self, cid: int, ds: DetSched | None = None, cfg: dict[str, Any] | None = None) -> None:
        self.cid = cid
        self.client_closed = False
        self._ds, self._cfg = ds, cfg or {}

    def settimeout(self, t: Any) -> None:
        # first thing the accept loop does with a connection accept() returned: the loop thread may be descheduled here
        d = _delay(self._cfg, "accept", self.cid)
        if d and self._ds is not None:
            self._ds.time.sleep(d * Q)

    def fileno(self) -> int:
        return 100 + self.cid


class _Listener:
    def __init__(self, ds: DetSched, cfg: dict[str, Any] | None = None) -> None:
        self.ds = ds
        self.cfg = cfg or {}
        self.backlog: list[_Conn] = []
        self.timeout: float | None = None
        self.closed = False
        self.left = False  # the serve function has returned (the real serve_unix / serve_tcp closes the socket then)

    def settimeout(self, t: float | None) -> None:
        self.timeout = t

    def accept(self) -> tuple[_Conn, None]:
        ds = self.ds
        deadline = None if self.timeout is None else ds.now() + self.timeout
        ok = ds.point(lambda: bool(self.backlog) or self.closed, deadline, "accept")
        if self.closed:
            ds.emit("accept-error")
            raise OSError("listener closed")
        if not ok:
            ds.emit("accept-timeout")
            raise TimeoutError("timed out")
        c = self.backlog.pop(0)
        ds.emit("accept", c.cid)
        return c, None


class _Transport:
    def __init__(self, conn: _Conn) -> None:
        self.conn = conn

    def close(self) -> None:
        # between the end of the service and the handler's final critical section
        d = _delay(self.conn._cfg, "end", self.conn.cid)
        if d and self.conn._ds is not None:
            self.conn._ds.time.sleep(d * Q)


class _Server:
    def __init__(self, ds: DetSched) -> None:
        self.ds = ds

    def serve(self, transport: _Transport) -> None:
        c = transport.conn
        self.ds.emit("serve-begin", c.cid)
        self.ds.point(lambda: c.client_closed, None, f"serve {c.cid}")
        self.ds.emit("serve-end", c.cid)


class _Obs:
    """Per-run registry: the closure cells of the real function's shared variables and the timers in arming order."""

    def __init__(self) -> None:
        self.cells: dict[str, Any] = {}
        self.timers: list[Any] = []
        self.delayed: set[int] = set()

    def learn(self, fn: Any) -> None:
        if self.cells.keys() >= {"conn_count", "timer", "shutdown_requested"}:
            return
        seen: set[int] = set()
        todo = [fn]
        while todo:
            f = todo.pop()
            if not isinstance(f, types.FunctionType) or id(f) in seen:
                continue
            seen.add(id(f))
            for name, cell in zip(f.__code__.co_freevars, f.__closure__ or ()):
                if name in ("conn_count", "timer", "shutdown_requested"):
                    self.cells.setdefault(name, cell)
                try:
                    v = cell.cell_contents
                except ValueError:
                    continue
                if isinstance(v, types.FunctionType):
                    todo.append(v)

    def snapshot(self) -> list[Any] | None:
        if not self.cells.keys() >= {"conn_count", "timer", "shutdown_requested"}:
            return None
        tm = self.cells["timer"].cell_contents
        k = None if tm is None else next((i for i, t in enumerate(self.timers) if t is tm), -1)
        return [self.cells["conn_count"].cell_contents, k, bool(self.cells["shutdown_requested"].cell_contents)]


def _loop_threading(ds: DetSched, obs_ref: list[_Obs], cfg: dict[str, Any] | None = None) -> Any:
    """`ds.threading` with an observed Lock (the real variables are read just before every release) and Thread / Timer
    factories that remember the closures they are given."""
    base = ds.threading
    from harness.common.detsched import FakeLock

    cfg = cfg or {}

    class ObservedLock(FakeLock):
        def acquire(self, blocking: bool = True, timeout: float = -1) -> bool:
            # a timer callback that has fired may be descheduled before it gets to the lock
            me = ds.tid()
            for k, t in enumerate(obs_ref[0].timers):
                tt = getattr(t, "_t", None)
                if tt is not None and tt.tid == me and k not in obs_ref[0].delayed:
                    obs_ref[0].delayed.add(k)
                    d = _delay(cfg, "cblock", k)
                    if d:
                        ds.time.sleep(d * Q)
            return super().acquire(blocking, timeout)

        def release(self) -> None:
            snap = obs_ref[0].snapshot()
            if snap is not None:
                ds.emit("vars", *snap)
            super().release()

    class Proxy:
        def Lock(self) -> Any:  # noqa: N802
            return ObservedLock(ds)

        def Thread(self, *a: Any, **k: Any) -> Any:  # noqa: N802
            tgt = k.get("target")
            if tgt is not None:
                obs_ref[0].learn(tgt)
                args = tuple(k.get("args", ()))
                if args and isinstance(args[0], _Conn):
                    d = _delay(cfg, "start", args[0].cid)
                    if d:
                        # the connection's thread exists but is descheduled before its first statement
                        def late(*aa: Any, _t: Any = tgt, _d: int = d, **kk: Any) -> Any:
                            ds.time.sleep(_d * Q)
                            return _t(*aa, **kk)

                        k = dict(k, target=late)
            return base.Thread(*a, **k)

        def Timer(self, interval: float, function: Any, *a: Any, **k: Any) -> Any:  # noqa: N802
            obs_ref[0].learn(function)
            idx = len(obs_ref[0].timers)

            def called(*aa: Any, **kk: Any) -> Any:
                # threading.Timer.run: the wait is over, the timer was not cancelled — the thread is about to CALL its function.
                # It may be descheduled right here, before the callable evaluates anything (a late-bound closure argument is
                # read only now): a scheduling point, and optionally a scripted delay while time passes.
                d = _delay(cfg, "callback", idx)
                if d:
                    ds.time.sleep(d * Q)
                else:
                    ds.point(what=f"call callback {idx}")
                ds.emit("cb-call", idx)
                return function(*aa, **kk)

            t = base.Timer(interval, called, *a, **k)
            obs_ref[0].timers.append(t)
            return t

        def __getattr__(self, name: str) -> Any:
            return getattr(base, name)

    return Proxy()


def _client(ds: DetSched, lst: _Listener, cid: int, prog: list[list[Any]]) -> None:
    conn: _Conn | None = None
    for op in prog:
        if op[0] == "sleep":
            ds.time.sleep(op[1] * Q)
        elif op[0] == "connect":
            ds.point(what="connect")
            if lst.closed or lst.left:
                ds.emit("refused", cid)
                return
            conn = _Conn(cid, ds, lst.cfg)
            lst.backlog.append(conn)
            ds.emit("connect", cid)
        elif op[0] == "close":
            ds.point(what="client-close")
            if conn is not None:
                conn.client_closed = True
                ds.emit("client-close", cid)
        elif op[0] == "shutdown":  # an operator closes the listening socket (the OSError path of accept)
            ds.point(what="close-listener")
            lst.closed = True
            ds.emit("listener-closed")


def _loop_main(ds: DetSched, T: Any, lst: _Listener, cfg: dict[str, Any]) -> None:
    idle = cfg.get("idle")
    T._serve_socket_threaded(_Server(ds), lst, cfg.get("maxconn"), None if idle is None else idle * Q, _Transport, "vgi-x")
    lst.left = True
    ds.emit("loop-return")


def loop_sched(T: Any, cfg: dict[str, Any]) -> tuple[DetSched, Any]:
    ds = DetSched(step_limit=40000, wall_limit=30.0, trace_time=False)
    obs_ref = [_Obs()]
    ds.patch(T, threading=_loop_threading(ds, obs_ref, cfg))

    def setup(ds_: DetSched) -> Any:
        obs_ref[0] = _Obs()
        lst = _Listener(ds_, cfg)
        ds_.spawn(_loop_main, ds_, T, lst, cfg, name="loop")
        for i, prog in enumerate(cfg["clients"]):
            ds_.spawn(_client, ds_, lst, i, prog, name=f"client{i}")
        return lst

    return ds, setup


def loop_analyse(cfg: dict[str, Any], run: Any) -> dict[str, Any]:
    """Trace → model labels (critical sections become labels at their release), observed spec events, anomalies."""
    tr = run.trace
    now = 0
    labels: list[list[Any]] = []
    events: list[list[Any]] = []  # acc / fin / stop with times (quanta)
    anomalies: list[str] = []
    LOOP = 0
    timers: dict[int, int] = {}  # scheduler tid of a Timer thread -> arming index
    handlers: dict[int, int] = {}  # scheduler tid of a handler thread -> connection id
    names = run.threads
    # per-thread critical-section bookkeeping
    in_cs: dict[int, dict[str, Any]] = {}
    lphase = "start" if cfg.get("idle") is not None else "accept"  # what the loop thread's next critical section is
    lconn: int | None = None
    last_vars: list[Any] | None = None
    accepted = 0
    n_timers = 0
    begun: set[int] = set()
    for idx, ev in enumerate(tr):
        k, tid = ev[0], ev[1]
        if k == "tick-auto":
            t = units(ev[2])
            if t > now:
                labels.append(["tick", t - now])
            now = t
        elif k == "spawn":
            child, nm = ev[2], ev[3]
            if tid in in_cs:
                in_cs[tid]["spawned"].append(child)
            if nm.startswith("vgi-x-"):
                handlers[child] = int(nm.rsplit("-", 1)[1]) - 100
                if tid != LOOP or lphase != "start-thread":
                    anomalies.append(f"handler thread started at an unexpected place ({lphase})")
                labels.append(["spawn"])
                lphase = "accept"
            elif names.get(child, "").startswith("T") or nm.startswith("T"):
                timers[child] = n_timers
                n_timers += 1
        elif k == "accept":
            labels.append(["sockAccept", ev[2]])
            events.append(["acc", ev[2], now])
            lconn = ev[2]
            # how many critical sections does the loop thread run before it starts the connection's thread?  two = count the
            # connection, then `active.add`; one = `active.add` only (the counting is done elsewhere — the model says where)
            n_cs = 0
            for e2 in tr[idx + 1:]:
                if e2[1] != LOOP:
                    continue
                if e2[0] == "rel":
                    n_cs += 1
                elif e2[0] in ("spawn", "accept", "accept-timeout", "accept-error"):
                    break
            lphase = "register" if n_cs >= 2 else "add"
            accepted += 1
        elif k == "accept-timeout":
            labels.append(["acceptTimeout"])
            lphase = "check"
        elif k == "accept-error":
            labels.append(["acceptError"])
            lphase = "finalize"
        elif k == "acq":
            in_cs[tid] = {"spawned": [], "at": now}
        elif k == "vars":
            last_vars = [ev[2], ev[3], ev[4]]
            in_cs.setdefault(tid, {"spawned": [], "at": now})["vars"] = last_vars
        elif k == "rel":
            cs = in_cs.pop(tid, {"spawned": [], "at": now})
            armed = any(c in timers for c in cs["spawned"])
            if tid == LOOP:
                if lphase == "start":
                    lphase = "accept"  # the start-up arm is part of the model's initial state
                    if not armed:
                        anomalies.append("start-up critical section did not arm a timer")
                elif lphase == "register":
                    labels.append(["register"])
                    lphase = "add"
                elif lphase == "add":
                    labels.append(["addActive"])
                    lphase = "start-thread"
                elif lphase == "check":
                    # did the loop leave?  it did iff the loop thread's next event is the acquire of the `finally` section
                    nxt = next((e for e in tr[idx + 1:] if e[1] == LOOP and e[0] in ("acq", "accept", "accept-timeout", "accept-error")), None)
                    leaving = nxt is not None and nxt[0] == "acq"
                    labels.append(["check", leaving])
                    if leaving:
                        events.append(["stop", cs["at"]])
                        lphase = "finalize"
                    else:
                        lphase = "accept"
                elif lphase == "finalize":
                    labels.append(["finalize"])
                    lphase = "joined"
                else:
                    anomalies.append(f"loop thread ran a critical section in phase {lphase}")
            elif tid in handlers:
                if handlers[tid] in begun:
                    labels.append(["handlerEnd", handlers[tid], armed])
                else:  # a critical section of the connection's thread BEFORE it serves: it counts its own connection
                    labels.append(["hregister", handlers[tid]])
            elif tid in timers:
                labels.append(["callback", timers[tid]])
            else:
                anomalies.append(f"critical section of an unknown thread {tid}")
            if "vars" in cs:
                v = cs["vars"]
                if v[1] == -1:
                    anomalies.append("the `timer` variable holds an object that is not one of the armed timers")
                else:
                    labels.append(["vars", v[0], v[1], v[2]])
        elif k == "sem-acq":
            if tid in handlers:
                labels.append(["semAcq", handlers[tid]])
        elif k == "sem-rel":
            if tid in handlers:
                labels.append(["semRel", handlers[tid]])
        elif k == "serve-begin":
            begun.add(ev[2])
            labels.append(["serveBegin", ev[2]])
        elif k == "serve-end":
            labels.append(["serveEnd", ev[2]])
            events.append(["fin", ev[2], now])
        elif k == "cb-call":
            labels.append(["cbRead", ev[2]])
        elif k == "timer-fire":
            if tid in timers:
                labels.append(["fire", timers[tid]])
            else:
                anomalies.append("an unknown timer fired")
        elif k in ("set", "clear", "connect", "client-close", "refused", "listener-closed", "loop-return", "timeout", "exc", "tick"):
            pass
        else:
            anomalies.append(f"unexpected event {k}")
    returned = any(e[0] == "loop-return" for e in tr)
    return {"labels": labels, "events": events, "anomalies": anomalies, "accepted": accepted, "returned": returned,
            "final_vars": last_vars, "timers": n_timers, "stops": sum(1 for e in events if e[0] == "stop")}


def loop_truth(run: Any) -> list[list[Any]]:
    """O's events, read off the fakes only (independent of the modelled critical sections): connections handed out by
    accept(), services finished, and — when the serve function returned although accept() never failed — the idle stop, at
    the moment of the loop's last accept timeout (no logical time passes between that timeout and the loop's decision)."""
    now: Any = 0
    evs: list[list[Any]] = []
    last_accept_ev: tuple[str, int, Any] | None = None
    for ev in run.trace:
        k = ev[0]
        if k == "tick-auto":
            now = units(ev[2])
        elif k == "accept":
            evs.append(["acc", ev[2], now])
            last_accept_ev = ("accept", len(evs), now)
        elif k == "serve-end":
            evs.append(["fin", ev[2], now])
        elif k in ("accept-timeout", "accept-error"):
            last_accept_ev = (k, len(evs), now)
        elif k == "loop-return":
            if last_accept_ev is not None and last_accept_ev[0] != "accept-error":
                evs.insert(last_accept_ev[1], ["stop", last_accept_ev[2]])
    return evs


def worker_monitor(idle: int, grace: int, events: list[list[Any]]) -> dict[str, Any]:
    """The worker half of the property, from its text (mirror of Spec.Mon)."""
    open_: list[int] = []
    last = 0
    any_ = False
    bad: list[str] = []
    for e in events:
        if e[0] == "acc":
            open_.append(e[1])
            last = e[2]
            any_ = True
        elif e[0] == "fin":
            open_ = [c for c in open_ if c != e[1]]
            last = e[2]
        elif e[0] == "stop":
            need = idle if any_ else grace
            if open_:
                bad.append("open")
            if e[1] < last + need:
                bad.append("early" if any_ else "early-grace")
    return {"open": open_, "last": last, "any": any_, "bad": bool(bad), "why": bad}


def loop_judge(ctx: Any, cfg: dict[str, Any], run: Any, an: dict[str, Any], model: Any, mon: Any) -> None:
    case = {"part": "loop", "cfg": cfg, "schedule": list(run.schedule)}
    idle = cfg.get("idle")
    grace = grace_of(idle)
    ctx.case(case, nontrivial=an["accepted"] >= 1, tags=(
        "k:loop", f"loop:{run.kind}", f"loop:pre{min(run.preemptions, 4)}", f"loop:idle{idle}",
        "loop:sem" if cfg.get("maxconn") is not None else "loop:nosem",
        *[f"loop:delay:{kind}" for kind, v in sorted(cfg.get("delays", {}).items()) if v],
        f"loop:accepted{min(an['accepted'], 3)}", f"loop:timers{min(an['timers'], 4)}",
        "loop:idle-stop" if an["stops"] else ("loop:error-stop" if an["returned"] else "loop:no-stop"),
        f"loop:src:{cfg.get('src', 'gen')}"))
    # ---- O
    if run.status != "ok":
        ctx.fail(case, f"C33:loop:{run.status}", f"run ended with {run.status}: blocked {run.blocked}")
        return
    if run.errors:
        e = next(iter(run.errors.values()))
        ctx.fail(case, f"C33:loop:exception:{type(e).__name__}", f"a thread of the accept loop raised {e!r}")
        return
    if run.diverged:
        ctx.mismatch(case, "schedule", "diverged", "replayed schedule is not executable (non-determinism)")
    truth = loop_truth(run)
    pm = worker_monitor(idle or 0, grace, truth)
    if truth != an["events"] and not an["anomalies"]:
        ctx.mismatch(case, an["events"], truth, "observable events: read through the modelled critical sections vs read off the fakes")
    if "open" in pm["why"]:
        ctx.fail(case, "C33:idle-exit-with-open-connection",
                 f"the accept loop left through its idle test while an accepted connection was unfinished: events {truth}")
    if "early" in pm["why"]:
        ctx.fail(case, "C33:idle-exit-before-idle-timeout",
                 f"the accept loop left less than idle_timeout={idle} quanta after its last connection: events {truth}")
    if "early-grace" in pm["why"]:
        ctx.fail(case, "C33:idle-exit-before-startup-grace",
                 f"the accept loop left before the start-up grace {grace} elapsed without any connection: events {truth}")
    # ---- K
    lst = run.value
    if lst is not None and (lst.timeout is None or round(lst.timeout * 1000) != _GEN["acceptTimeoutMillis"]):
        ctx.mismatch(case, _GEN["acceptTimeoutMillis"], lst.timeout, "accept timeout: extracted constant vs what the loop set on the socket")
    if _offgrid(an["labels"]):
        ctx.mismatch(case, "timer / timeout durations that are multiples of the quantum", [l for l in an["labels"] if l[0] == "tick"][:6],
                     "a timer was armed with a duration that is not the configured idle_timeout / grace / accept timeout")
    if an["anomalies"]:
        ctx.mismatch(case, "modelled protocol of the accept loop", an["anomalies"],
                     "trace shape: the implementation no longer follows the modelled critical sections")
    if model is None:
        return
    if not model["ok"]:
        i = model.get("reject")
        ctx.mismatch(case, {"rejected_label": an["labels"][i] if i is not None and i < len(an["labels"]) else i},
                     an["labels"], "trace is not a run of the Lean accept-loop transition system")
        return
    if model["hist"] != an["events"]:
        ctx.mismatch(case, model["hist"], an["events"], "observable history: model vs trace")
    if an["final_vars"] is not None and [model["connCount"], model["timer"], model["flag"]] != an["final_vars"]:
        ctx.mismatch(case, [model["connCount"], model["timer"], model["flag"]], an["final_vars"],
                     "final conn_count / timer / shutdown_requested: model vs implementation")
    if model["mon"]["bad"] != pm["bad"]:
        ctx.mismatch(case, model["mon"], pm, "spec monitor: Lean (inside the model) vs Python oracle")
    if mon is not None and (mon["bad"] != pm["bad"] or mon["open"] != pm["open"] or mon["last"] != pm["last"]):
        ctx.mismatch(case, mon, pm, "spec monitor: Lean Spec.Mon.run vs Python oracle")


def _loop_req(cfg: dict[str, Any], an: dict[str, Any]) -> dict[str, Any]:
    idle = cfg.get("idle")
    return {"idle": idle, "grace": grace_of(idle), "maxConn": cfg.get("maxconn"), "events": an["labels"]}


def explore_loop(ctx: Any, T: Any, cfg: dict[str, Any], dfs: int, bound: int, rnd: int, stall: int = 0) -> int:
    ds, setup = loop_sched(T, cfg)
    batch: list[tuple[Any, dict[str, Any]]] = []
    n = 0

    def flush() -> None:
        if not batch:
            return
        models: list[Any] = [None] * len(batch)
        mons: list[Any] = [None] * len(batch)
        if ctx.driver is not None:
            on = [i for i, (_r, an) in enumerate(batch) if not _offgrid(an["labels"])]
            idle = cfg.get("idle") or 0
            res = ctx.driver.batch([("C33.loopAccepts", _loop_req(cfg, batch[i][1])) for i in on])
            res2 = ctx.driver.batch([("C33.loopMonitor", {"idle": idle, "grace": grace_of(idle), "events": batch[i][1]["events"]})
                                     for i in on])
            for j, i in enumerate(on):
                models[i], mons[i] = res[j], res2[j]
        for (r, an), m, mo in zip(batch, models, mons):
            loop_judge(ctx, cfg, r, an, m, mo)
        batch.clear()

    with ds:
        import itertools

        for run in itertools.chain(ds.explore(setup, dfs=dfs, bound=bound, random=rnd, seed=f"{ctx.seed}:{ctx.evaluations}"),
                                   stall_runs(ds, setup, stall)):
            batch.append((run, loop_analyse(cfg, run)))
            n += 1
            if len(batch) >= 200:
                flush()
                if _fresh_failures(ctx) >= STOP_AFTER:
                    break
        flush()
    ctx.tag("loop:cfg-exhausted-within-bound" if ds.stats.get("exhaustive") else "loop:cfg-capped")
    return n


A, B = [["connect"], ["close"]], None
LOOP_CORPUS: list[dict[str, Any]] = [
    # a connection, then a second one arriving exactly when the idle timer is due (idle < accept timeout: the loop is still
    # inside accept() when the timer decides) — the window of the "flag not cleared on accept" defect
    {"idle": 3, "clients": [[["connect"], ["close"]], [["sleep", 3], ["connect"], ["sleep", 8], ["close"]]]},
    # idle > accept timeout: a callback that fired but lost the race for the lock becomes stale — the "stale callback" defect
    {"idle": 6, "clients": [[["connect"], ["close"]], [["sleep", 6], ["connect"], ["close"]]]},
    # the same with a connection that stays
    {"idle": 6, "clients": [[["connect"], ["close"]], [["sleep", 6], ["connect"], ["sleep", 12], ["close"]]]},
    # three short connections around two idle deadlines
    {"idle": 2, "clients": [[["connect"], ["close"]], [["sleep", 2], ["connect"], ["close"]], [["sleep", 4], ["connect"], ["close"]]]},
    # overlapping connections: the timer must only be armed by the last one to go
    {"idle": 4, "clients": [[["connect"], ["sleep", 2], ["close"]], [["connect"], ["sleep", 4], ["close"]]]},
    # max_connections = 1: the second handler waits on the semaphore while counted
    {"idle": 4, "maxconn": 1, "clients": [[["connect"], ["sleep", 1], ["close"]], [["connect"], ["close"]]]},
    {"idle": 3, "maxconn": 1, "clients": [[["connect"], ["close"]], [["sleep", 3], ["connect"], ["close"]]]},
    # no idle_timeout: no timers at all; the loop only ends when the listener is closed from outside
    {"idle": None, "clients": [[["connect"], ["close"]], [["connect"], ["sleep", 2], ["close"], ["shutdown"]]]},
    # the listener breaks while a timer is armed
    {"idle": 5, "clients": [[["connect"], ["close"], ["sleep", 2], ["shutdown"]]]},
]
# "a thread that has not yet run while time passes" (scripted descheduling, see `_delay`)
LOOP_CORPUS += [
    # the connection's thread is started but does not run until after the loop's next accept timeout, and the connection arrives
    # exactly when the idle timer is due: whoever counts the connection must have done so before the timer's decision counts
    {"idle": 3, "delays": {"start": [[1, 5]]}, "clients": [[["connect"], ["close"]], [["sleep", 3], ["connect"], ["sleep", 8], ["close"]]]},
    {"idle": 6, "delays": {"start": [[1, 5]]}, "clients": [[["connect"], ["close"]], [["sleep", 6], ["connect"], ["close"]]]},
    # the accept loop itself is descheduled right after accept() returned (the uncounted connection sits in the loop thread)
    {"idle": 3, "delays": {"accept": [[1, 5]]}, "clients": [[["connect"], ["close"]], [["sleep", 3], ["connect"], ["sleep", 8], ["close"]]]},
    # "timer fired but its callback not yet called / not yet under the lock; a connection accepted and finished meanwhile": the
    # callback of timer 1 is due when connection 1 arrives, and the timer thread is descheduled for one quantum — before it calls
    # the callback (what a late-bound argument would read has changed by then) resp. between the call and the lock
    {"idle": 6, "delays": {"callback": [[1, 1]]}, "clients": [[["connect"], ["close"]], [["sleep", 6], ["connect"], ["close"]]]},
    {"idle": 6, "delays": {"cblock": [[1, 1]]}, "clients": [[["connect"], ["close"]], [["sleep", 6], ["connect"], ["close"]]]},
    # a fired callback that reaches the lock late, and a handler that reaches its final section late
    {"idle": 3, "delays": {"cblock": [[1, 2]], "end": [[0, 2]]}, "clients": [[["connect"], ["close"]], [["sleep", 4], ["connect"], ["sleep", 6], ["close"]]]},
    # the very first connection arrives when the start-up grace timer is due and its thread is late
    {"idle": 4, "delays": {"start": [[0, 5]]}, "clients": [[["sleep", 480], ["connect"], ["sleep", 9], ["close"]]]},
]
# start-up grace (60 s = 480 quanta, 120 accept timeouts): long runs, few schedules
LOOP_GRACE: list[dict[str, Any]] = [
    {"idle": 4, "clients": []},
    {"idle": 4, "clients": [[["sleep", 480], ["connect"], ["close"]]]},          # arrives exactly when the grace timer is due
    {"idle": 4, "clients": [[["sleep", 478], ["connect"], ["sleep", 3], ["close"]]]},  # is being served when it is due
    {"idle": 500, "clients": [[["sleep", 500], ["connect"], ["close"]]]},         # idle_timeout above the floor: grace = idle
]


def gen_loop(rng: Any) -> dict[str, Any]:
    idle = rng.choice([2, 3, 3, 4, 5, 6, 6, 8])
    n = rng.choice([1, 2, 2, 3])
    clients = []
    for i in range(n):
        prog: list[list[Any]] = []
        if i and rng.random() < 0.8:
            prog.append(["sleep", rng.choice([1, idle - 1, idle, idle, idle + 1, 4, 2 * idle])])
        prog.append(["connect"])
        if rng.random() < 0.5:
            prog.append(["sleep", rng.choice([1, 2, idle, 4, 8])])
        prog.append(["close"])
        clients.append(prog)
    cfg: dict[str, Any] = {"idle": idle, "clients": clients, "src": "gen"}
    if rng.random() < 0.25:
        cfg["maxconn"] = 1
    if rng.random() < 0.6:  # descheduled threads: one or two delay points, lengths around the accept timeout (4) and idle
        delays: dict[str, list[list[int]]] = {}
        for _ in range(rng.choice([1, 1, 2])):
            kind = rng.choice(["start", "start", "accept", "end", "callback", "callback", "cblock"])
            ident = rng.randrange(n) if kind not in ("callback", "cblock") else rng.choice([0, 1, 1, 2])
            delays.setdefault(kind, []).append([ident, rng.choice([1, 3, 4, 5, 5, idle, idle + 1, 9])])
        cfg["delays"] = delays
    return cfg


# =====================================================================================================================
# (a) launcher
# =====================================================================================================================


class _World:
    """In-memory file system + flocks + workers of one run."""

    current: "_World | None" = None

    def __init__(self, ds: DetSched, cfg: dict[str, Any]) -> None:
        self.ds = ds
        self.cfg = cfg
        self.idle = cfg["idle"] * Q
        self.fs: dict[str, dict[str, Any]] = {}
        self.next_ino = 10
        self.flocks: dict[int, int] = {}
        self.workers: list[dict[str, Any]] = []
        self.per_ep_workers: dict[str, int] = {}
        self.spawn_count = 0
        self.worker_by_tid: dict[int, dict[str, Any]] = {}
        self.nlink_check = cfg.get("nlink", True)

    def ino(self) -> int:
        self.next_ino += 1
        return self.next_ino

    def canon(self, path: Any) -> str:
        """Path resolution of the in-memory file system (what the kernel does with a path; `Path.absolute()` does none of it):
        relative paths start at the cwd, `.` / `..` are walked, symlinked directories (`cfg["links"]`) are followed.  Every
        operation on the world goes through it, so two spellings of one file reach one inode."""
        p = str(path)
        if not p.startswith("/"):
            p = "/cwd/" + p
        links = self.cfg.get("links", {"/run/link": "/run/s", "/cwd": "/run/wd"})
        out: list[str] = []
        todo = [x for x in p.split("/") if x and x != "."]
        hops = 0
        while todo:
            x = todo.pop(0)
            if x == "..":
                if out:
                    out.pop()
                continue
            out.append(x)
            tgt = links.get("/" + "/".join(out))
            if tgt is not None and hops < 16:
                hops += 1
                out = []
                todo = [y for y in tgt.split("/") if y and y != "."] + todo
        return "/" + "/".join(out)

    def sock_worker(self, path: str) -> dict[str, Any] | None:
        e = self.fs.get(self.canon(path))
        if e is None or e["kind"] != "sock":
            return None
        return e["worker"]

    def linked(self, ino: int) -> bool:
        return any(e["ino"] == ino for e in self.fs.values())

    def ep_state(self, ep: str) -> list[Any]:
        """(worker id the socket path names, meta exists, how often the lock path was unlinked)"""
        sock = next((e for p, e in self.fs.items() if _endpoint(p) == ep and p.endswith(".sock") and e["kind"] == "sock"), None)
        meta = any(_endpoint(p) == ep and p.endswith(".meta") for p in self.fs)
        return [None if sock is None else sock["worker"]["wid"], meta, self.lock_unlinks.get(ep, 0)]

    lock_unlinks: dict[str, int]


def _endpoint(path: str) -> str:
    name = PurePosixPath(path).name
    for suf in (".lock", ".sock", ".meta"):
        while name.endswith(suf):
            name = name[: -len(suf)]
    return name


class _FakeStat:
    st_dev = 1

    def __init__(self, mode: int, ino: int) -> None:
        self.st_mode = mode
        self.st_ino = ino
        self.st_uid = 0


class _FakeOs:
    """Stands in for `os` inside launcher.py / _transport.py: lstat / unlink go to the in-memory world (scheduling points)."""

    def __init__(self) -> None:
        import os as _real

        self._real = _real
        self.environ: dict[str, str] = {}
        self.path = _real.path

    def _w(self) -> _World:
        w = _World.current
        assert w is not None
        return w

    def lstat(self, path: Any) -> _FakeStat:
        w = self._w()
        p = w.canon(path)
        w.ds.point(what=f"lstat {p}")
        e = w.fs.get(p)
        w.ds.emit("fs-lstat", p, None if e is None else e["ino"])
        if e is None:
            raise FileNotFoundError(p)
        return _FakeStat((_stat.S_IFSOCK if e["kind"] == "sock" else _stat.S_IFREG) | 0o600, e["ino"])

    def unlink(self, path: Any) -> None:
        w = self._w()
        p = w.canon(path)
        w.ds.point(what=f"unlink {p}")
        e = w.fs.pop(p, None)
        if e is not None and p.endswith(".lock"):
            w.lock_unlinks[_endpoint(p)] = w.lock_unlinks.get(_endpoint(p), 0) + 1
        own = None
        if e is not None and e["kind"] == "sock":
            own = e["worker"]["wid"]
        w.ds.emit("fs-unlink", p, e is not None, own)
        if e is None:
            raise FileNotFoundError(p)

    def umask(self, m: int) -> int:
        return 0o022

    def getcwd(self) -> str:
        return "/cwd"

    def getpid(self) -> int:
        return 4242

    def chmod(self, *a: Any, **k: Any) -> None:
        pass

    def fspath(self, p: Any) -> str:
        return str(p)

    def __getattr__(self, name: str) -> Any:
        return getattr(self._real, name)


class _FakePath(PurePosixPath):
    """`pathlib.Path` over the in-memory world (only what launcher.py uses)."""

    def mkdir(self, *a: Any, **k: Any) -> None:
        pass

    def absolute(self) -> "_FakePath":
        return self if self.is_absolute() else _FakePath("/cwd") / self

    def exists(self) -> bool:
        w = _World.current
        return w is not None and w.canon(self) in w.fs

    def glob(self, pattern: str) -> list["_FakePath"]:
        w = _World.current
        assert w is not None
        w.ds.point(what=f"glob {pattern}")
        here = PurePosixPath(w.canon(self))
        out = [_FakePath(self / PurePosixPath(p).name) for p in w.fs
               if PurePosixPath(p).parent == here and fnmatch.fnmatch(PurePosixPath(p).name, pattern)]
        w.ds.emit("fs-glob", str(self), len(out))
        return out

    def write_text(self, data: str, encoding: str | None = None) -> int:
        w = _World.current
        assert w is not None
        w.ds.point(what=f"write {self}")
        p = w.canon(self)
        if p not in w.fs:
            w.fs[p] = {"kind": "file", "ino": w.ino()}
        w.ds.emit("fs-write", p)
        return len(data)

    def stat(self) -> _FakeStat:
        return _FakeStat(_stat.S_IFDIR | 0o700, 1)


class _FakeFileLock:
    """The inode protocol of filelock's UnixFileLock: open(O_CREAT) → non-blocking flock → st_nlink re-check; release
    leaves the file in place.  filelock's poll loop is replaced by a blocking wait for the lock of the inode the path
    names to become free (or the timeout)."""

    def __init__(self, lock_file: Any, timeout: float = -1) -> None:
        self.lock_file = str(lock_file)
        self.timeout = timeout
        self.ino: int | None = None

    def acquire(self) -> None:
        import filelock

        w = _World.current
        assert w is not None
        ds = w.ds
        p = w.canon(self.lock_file)
        start = ds.now()
        while True:
            ds.point(what=f"lock-open {p}")
            if p not in w.fs:
                w.fs[p] = {"kind": "file", "ino": w.ino()}
            ino = w.fs[p]["ino"]
            ds.emit("lock-open", p, ino)
            ds.point(what=f"lock-flock {p}")
            ok = ino not in w.flocks
            if ok:
                w.flocks[ino] = ds.tid()
            ds.emit("lock-flock", p, ino, ok)
            if ok:
                ds.point(what=f"lock-verify {p}")
                alive = w.linked(ino) or not w.nlink_check
                ds.emit("lock-verify", p, ino, alive)
                if alive:
                    self.ino = ino
                    return
                del w.flocks[ino]
            if self.timeout is not None and 0 <= self.timeout <= ds.now() - start:
                ds.emit("lock-timeout", p)
                raise filelock.Timeout(p)
            deadline = None if (self.timeout is None or self.timeout < 0) else start + self.timeout
            free = lambda: (p not in w.fs) or (w.fs[p]["ino"] not in w.flocks)  # noqa: E731
            if not ds.point(free, deadline, f"lock-wait {p}"):
                ds.emit("lock-timeout", p)
                raise filelock.Timeout(p)

    def release(self) -> None:
        w = _World.current
        assert w is not None
        if self.ino is None:
            return
        w.ds.point(what=f"lock-release {self.lock_file}")
        w.flocks.pop(self.ino, None)
        w.ds.emit("lock-release", w.canon(self.lock_file), self.ino)
        self.ino = None


def _fake_probe(path: Any) -> bool:
    w = _World.current
    assert w is not None
    p = w.canon(path)
    w.ds.point(what=f"probe {p}")
    wk = w.sock_worker(p)
    ok = wk is not None and wk["accepting"]
    if ok:
        wk["quiet"] = w.ds.now()  # the probe is a connection of that worker: its idle period restarts
    w.ds.emit("probe", p, ok)
    return ok


class _FakeProc:
    def __init__(self, pid: int) -> None:
        self.pid = pid


def _fake_spawn_worker(worker_argv: list[str], sock_path: str, idle_timeout: float, worker_stderr: Any, startup_timeout: float) -> _FakeProc:
    """`subprocess.Popen` + reading the worker's stdout: the worker "process" is a scheduler thread that runs the REAL
    `serve_unix` (start-up: `_check_no_existing_listener`, `_unlink_stale_unix_socket`, bind, listen, `on_bound`; exit:
    close, `_unlink_bound_unix_socket`) over a fake `socket` module; this function returns when the worker has written its
    `UNIX:<path>` announcement (the `on_bound` callback) and raises when the worker died before that."""
    w = _World.current
    assert w is not None
    ds = w.ds
    ds.point(what=f"popen {sock_path}")
    w.spawn_count += 1
    if w.spawn_count in w.cfg.get("spawn_fail", []):
        ds.emit("spawn-fail", sock_path)  # the process could not even be started
        raise RuntimeError("worker exited before readiness (rc=1)")
    ep = _endpoint(sock_path)
    wid = w.per_ep_workers.get(ep, 0)
    w.per_ep_workers[ep] = wid + 1
    wk = {"wid": wid, "ep": ep, "path": sock_path, "accepting": False, "announced": False, "dead": False, "quiet": ds.now(),
          "ino": None, "ready_at": None}
    w.workers.append(wk)
    ds.emit("spawn", sock_path, wid)
    child = ds.spawn(_worker_main, ds, w, wk, name=f"worker-{ep}-{wid}", daemon=True)
    w.worker_by_tid[child] = wk
    ds.emit("worker-thread", child, ep, wid)
    ds.point(lambda: wk["announced"] or wk["dead"], None, f"read stdout of worker {wid}")
    if not wk["announced"]:
        ds.emit("spawn-fail", sock_path)
        raise RuntimeError("worker exited before readiness (rc=1)")
    # the moment since which the worker has been ready, as far as this launcher can know: the announcement, if the socket
    # was listening by then; now otherwise
    ds.emit("spawn-ready", sock_path, wid, wk["ready_at"])
    return _FakeProc(1000 + len(w.workers))


class _FakeSock:
    """`socket.socket` inside _transport.py for the worker threads: bind / listen / close act on the in-memory world;
    `connect` is the liveness probe of `_check_no_existing_listener`."""

    def __init__(self, *a: Any, **k: Any) -> None:
        self.wk: dict[str, Any] | None = None

    def _me(self) -> tuple[_World, dict[str, Any]]:
        w = _World.current
        assert w is not None
        return w, w.worker_by_tid[w.ds.tid()]

    def connect(self, path: Any) -> None:
        w, me = self._me()
        p = w.canon(path)
        w.ds.point(what=f"connect {p}")
        e = w.fs.get(p)
        tgt = None if e is None or e["kind"] != "sock" else e["worker"]
        ok = tgt is not None and tgt["accepting"]
        w.ds.emit("sock-connect", p, me["wid"], ok)
        if e is None:
            raise FileNotFoundError(p)
        if not ok:
            raise ConnectionRefusedError(p)

    def bind(self, path: Any) -> None:
        w, me = self._me()
        p = w.canon(path)
        w.ds.point(what=f"bind {p}")
        if p in w.fs:
            w.ds.emit("w-bind-failed", me["ep"], me["wid"])
            raise OSError(98, "Address already in use")
        me["ino"] = w.ino()
        w.fs[p] = {"kind": "sock", "ino": me["ino"], "worker": me}
        self.wk = me
        w.ds.emit("w-bind", me["ep"], me["wid"])

    def listen(self, backlog: int = 0) -> None:
        w, me = self._me()
        w.ds.point(what=f"listen {me['wid']}")
        me["accepting"] = True
        me["quiet"] = w.ds.now()
        w.ds.emit("w-listen", me["ep"], me["wid"])

    def close(self) -> None:
        w = _World.current
        if w is not None and self.wk is not None:
            w.ds.point(what=f"close {self.wk['wid']}")
            self.wk["accepting"] = False
            w.ds.emit("w-close", self.wk["ep"], self.wk["wid"])

    def settimeout(self, t: Any) -> None:
        pass

    def setsockopt(self, *a: Any) -> None:
        pass


class _FakeSocketMod:
    def __init__(self) -> None:
        import socket as _real

        self._real = _real
        self.socket = _FakeSock

    def __getattr__(self, name: str) -> Any:
        return getattr(self._real, name)


def _fake_accept_loop(server: Any, sock: _FakeSock, max_connections: Any, idle_timeout: Any, transport_factory: Any, prefix: str) -> None:
    """`_serve_socket_threaded` as the launcher world sees it — the abstraction proved in (b): the worker keeps accepting
    until `idle_timeout` after its last connection (the launcher's probes are connections), then leaves."""
    w = _World.current
    assert w is not None and sock.wk is not None
    ds, wk = w.ds, sock.wk
    while True:
        due = wk["quiet"] + w.idle
        ds.point(lambda: ds.now() >= wk["quiet"] + w.idle, due, f"worker-idle {wk['wid']}")
        if ds.now() >= wk["quiet"] + w.idle:
            break
    wk["accepting"] = False
    ds.emit("w-exit", wk["ep"], wk["wid"])


def _worker_main(ds: DetSched, w: _World, wk: dict[str, Any]) -> None:
    import vgi_rpc.rpc._transport as T

    def announce(path: str) -> None:  # run_server's on_bound: `print(f"UNIX:{path}", flush=True)`
        ds.point(what=f"announce {wk['wid']}")
        wk["announced"] = True
        wk["ready_at"] = ds.now() if wk["accepting"] else None
        ds.emit("w-announce", wk["ep"], wk["wid"])

    try:
        T.serve_unix(None, wk["path"], threaded=True, idle_timeout=w.idle, on_bound=announce)
    except Exception as e:  # noqa: BLE001 - a worker that dies is an observation (`_check_no_existing_listener`, bind)
        wk["dead"] = True
        wk["accepting"] = False
        ds.emit("w-dead", wk["ep"], wk["wid"], type(e).__name__)
    ds.emit("w-gone", wk["ep"], wk["wid"])


def _launcher(ds: DetSched, L: Any, w: _World, prog: list[list[Any]]) -> None:
    for op in prog:
        if op[0] == "sleep":
            ds.time.sleep(op[1] * Q)
        elif op[0] == "launch":
            o = op[1]
            kw: dict[str, Any] = {"worker_argv": (f"worker-{o['cmd']}",), "state_dir": "/state", "idle_timeout": w.idle,
                                  "connect_timeout": o.get("ct", 30) * Q if "ct" in o else 30.0}
            if o.get("explicit"):
                # one socket, several spellings: plain, through a symlinked directory, with `..` segments, relative to the cwd
                kw["socket_path"] = {"plain": "/run/s/{c}.sock", "link": "/run/link/{c}.sock", "dotdot": "/run/s/../s/{c}.sock",
                                     "rel": "../s/{c}.sock"}[o.get("spell", "plain")].format(c=o["cmd"])
            conf = L.LaunchConfig(**kw)
            epname = o["cmd"] if o.get("explicit") else L.compute_hash(conf.worker_argv)
            ds.emit("launch-begin", o["cmd"], epname)
            try:
                p = L.launch(conf)
            except Exception as e:  # noqa: BLE001 - every failure of launch() is an observation
                ds.emit("launch-raise", o["cmd"], type(e).__name__)
                continue
            wk = w.sock_worker(p)
            ds.emit("launch-ret", o["cmd"], p, bool(wk is not None and wk["accepting"]))


def launch_sched(T: Any, L: Any, cfg: dict[str, Any]) -> tuple[DetSched, Any]:
    ds = DetSched(step_limit=20000, wall_limit=30.0, trace_time=False)
    fos = _FakeOs()
    ds.patch(L, "threading", "time", os=fos, Path=_FakePath, FileLock=_FakeFileLock, _probe=_fake_probe, _spawn_worker=_fake_spawn_worker)
    ds.patch(T, os=fos, socket=_FakeSocketMod(), _serve_socket_threaded=_fake_accept_loop)

    def setup(ds_: DetSched) -> Any:
        w = _World(ds_, cfg)
        w.lock_unlinks = {}
        _World.current = w
        for i, prog in enumerate(cfg["launchers"]):
            ds_.spawn(_launcher, ds_, L, w, prog, name=f"launcher{i}")
        return w

    return ds, setup


def launch_truth(cfg: dict[str, Any], run: Any) -> dict[str, Any]:
    """O, independent of the modelled protocol: the property evaluated on the ground truth of the in-memory world — which
    workers of an endpoint are accepting when one is spawned; whether the returned path names an accepting worker when a
    launch returns (demanded while less than `idle` has passed since that launch's last successful probe / spawn)."""
    now: Any = 0
    accepting: dict[str, set[int]] = {}
    decided: dict[int, Any] = {}
    own: dict[int, str] = {}
    raised: list[str] = []
    worker_tid: dict[int, tuple[str, int]] = {}
    exited: set[int] = set()
    violations: list[tuple[str, str]] = []
    clobbered = False
    for ev in run.trace:
        k, tid = ev[0], ev[1]
        if k == "tick-auto":
            now = units(ev[2])
        elif k == "worker-thread":
            worker_tid[ev[2]] = (ev[3], ev[4])
        elif k == "launch-begin":
            decided[tid] = None
            own[tid] = ev[3]
        elif k == "probe" and ev[3] and _endpoint(ev[2]) == own.get(tid):
            decided[tid] = now
        elif k == "spawn" and isinstance(ev[2], str):
            name = _endpoint(ev[2])
            alive = accepting.setdefault(name, set())
            if alive:
                violations.append(("spawn-while-alive", f"worker {ev[3]} of endpoint {name} spawned at t={now} while worker(s) "
                                   f"{sorted(alive)} of the same endpoint were alive (accepting or starting up)"))
            alive.add(ev[3])  # alive from the creation of the process …
        elif k == "spawn-ready":
            decided[tid] = units(ev[4]) if ev[4] is not None else now
        elif k in ("w-exit", "w-dead"):
            accepting.setdefault(ev[2], set()).discard(ev[3])  # … until it stops accepting (or dies during start-up)
            if k == "w-exit":
                exited.add(tid)
        elif (k == "fs-unlink" and tid in worker_tid and tid in exited and ev[3] and ev[4] is not None
              and ev[4] != worker_tid[tid][1]):
            clobbered = True  # an EXIT-time unlink removed another worker's socket
        elif k == "launch-ret":
            t0 = decided.get(tid)
            if not ev[4] and (t0 is None or now < t0 + cfg["idle"]):
                violations.append(("dead-path-returned", f"launch returned {ev[3]} at t={now} (decided at t={t0}) but the path "
                                   "names no accepting worker"))
        elif k == "launch-raise":
            raised.append(ev[3])
    return {"violations": violations, "clobbered": clobbered, "raised": raised}


def launch_analyse(cfg: dict[str, Any], run: Any) -> dict[str, Any]:
    """Trace → per-endpoint label sequences + observed spec events + ground-truth verdicts."""
    tr = run.trace
    now = 0
    eps: dict[str, dict[str, Any]] = {}
    anomalies: list[str] = []
    cur_ep: dict[int, str | None] = {}  # launcher thread -> endpoint it is launching (None while outside launch())
    episode: dict[tuple[int, str], dict[str, Any]] = {}  # (thread, endpoint) -> current episode
    worker_tid: dict[int, tuple[str, int]] = {}
    own_lock: dict[int, str] = {}      # launcher thread -> name of the lock file it took first in the current launch
    lock_alias: dict[str, str] = {}    # lock-file name -> endpoint it guards (when the file is not named after the endpoint)
    lock_names: dict[str, set[str]] = {}  # endpoint -> the lock files launches of it were seen to use
    wphase: dict[int, str] = {}  # worker thread -> where it is in serve_unix (check, clear, bind, bound, run, exit, exit-stat, gone, dead)
    launches = 0
    launch_threads: set[int] = set()
    violations: list[tuple[str, str]] = []

    def ep_of(name: str) -> dict[str, Any]:
        if name not in eps:
            eps[name] = {"labels": [["tick", now]] if now else [], "events": [], "next": 0, "accepting": set(), "path": None,
                         "clobbered": False, "state": [None, False, 0]}
        return eps[name]

    def epi(tid: int, name: str) -> dict[str, Any]:
        key = (tid, name)
        e = episode.get(key)
        if e is None:
            ep = ep_of(name)
            role = "launch" if cur_ep.get(tid) == name else "gc"
            e = {"mt": ep["next"], "role": role, "phase": "lock", "t0": None}
            ep["next"] += 1
            episode[key] = e
            ep["labels"].append(["begin", e["mt"], role])
        return e

    for ev in tr:
        k, tid = ev[0], ev[1]
        if k == "tick-auto":
            t = units(ev[2])
            if t > now:
                for ep in eps.values():
                    ep["labels"].append(["tick", t - now])
            now = t
            continue
        if k == "launch-begin":
            cur_ep[tid] = ev[3]
            own_lock.pop(tid, None)
            launches += 1
            launch_threads.add(tid)
            continue
        if k == "worker-thread":
            worker_tid[ev[2]] = (ev[3], ev[4])
            continue
        if k in ("lock-open", "lock-flock", "lock-verify", "lock-timeout", "lock-release"):
            name = _endpoint(ev[2])
            # the first lock a launch takes is the one guarding its own endpoint, whatever that lock file is called
            if k == "lock-open" and cur_ep.get(tid) is not None and tid not in own_lock:
                own_lock[tid] = name
                if name != cur_ep[tid]:
                    lock_alias[name] = cur_ep[tid]
                    lock_names.setdefault(cur_ep[tid], set()).add(name)
            name = lock_alias.get(name, name)
            lock_names.setdefault(name, set()).add(_endpoint(ev[2]))
            ep = ep_of(name)
            e = epi(tid, name)
            mt = e["mt"]
            if k == "lock-open":
                ep["labels"].append(["lockOpen", mt])
            elif k == "lock-flock":
                ep["labels"].append(["lockFlock", mt, ev[4]])
            elif k == "lock-verify":
                ep["labels"].append(["lockVerify", mt, ev[4]])
                if ev[4]:
                    e["phase"] = "probe"
            elif k == "lock-timeout":
                if e["role"] == "launch":
                    ep["labels"].append(["lockTimeout", mt])
                    e["phase"] = "failed"
                else:
                    episode.pop((tid, name), None)  # the GC skips the entry (the model is at gDone already)
            elif k == "lock-release":
                ep["labels"].append(["release", mt])
                if e["role"] == "gc":
                    episode.pop((tid, name), None)
                else:
                    e["phase"] = "released"
            continue
        if k == "probe":
            name = _endpoint(ev[2])
            e = episode.get((tid, name))
            if e is None or e["phase"] != "probe":
                anomalies.append(f"probe of {name} outside the lock")
                continue
            ep = ep_of(name)
            ep["labels"].append(["probe", e["mt"], ev[3]])
            if ev[3]:
                e["phase"] = "decided" if e["role"] == "launch" else "releasing"
                e["t0"] = now
            else:
                e["phase"] = "stale" if e["role"] == "launch" else "g-sock"
            continue
        if k in ("fs-lstat", "fs-unlink", "fs-write"):
            name = _endpoint(ev[2])
            ep = ep_of(name)
            if tid in worker_tid:
                epn, wid = worker_tid[tid]
                ph = wphase.get(tid, "check")
                if k == "fs-lstat":
                    if ph == "check":
                        if ev[3] is None:  # `_check_no_existing_listener`: nothing at the path
                            ep["labels"].append(["wCheck", wid, True])
                            wphase[tid] = "clear"
                    elif ph == "clear":
                        if ev[3] is None:  # `_unlink_stale_unix_socket`: nothing to remove
                            ep["labels"].append(["wClear", wid])
                            wphase[tid] = "bind"
                    elif ph == "bound":
                        if ev[3] is None:  # `entry = os.lstat(path)` right after bind: the fresh socket is already gone
                            wphase[tid] = "lost"
                        # else: the worker's own identity
                    elif ph == "exit":
                        ep["labels"].append(["wStat", wid])
                        wphase[tid] = "exit-stat"
                    else:
                        anomalies.append(f"worker lstat in phase {ph}")
                elif k == "fs-unlink":
                    if ph == "clear" and not ev[3]:
                        # the entry vanished between `_unlink_stale_unix_socket`'s lstat and unlink: FileNotFoundError, the worker dies
                        wphase[tid] = "lost"
                    elif ph == "clear":
                        ep["labels"].append(["wClear", wid])
                        wphase[tid] = "bind"
                    elif ph == "exit-stat":
                        ep["labels"].append(["wUnlink", wid])
                        wphase[tid] = "gone"
                        if ev[3] and ev[4] is not None and ev[4] != wid:
                            ep["clobbered"] = True
                    else:
                        anomalies.append(f"worker unlink in phase {ph}")
                    if ev[3]:
                        ep["events"].append(["unlink"])
                        ep["path"] = None
                    ep["state"][0] = None
                    ep["labels"].append(["vars", *ep["state"]])
                continue
            e = episode.get((tid, name))
            if e is None:
                anomalies.append(f"{k} on {ev[2]} outside an episode")
                continue
            mt = e["mt"]
            if k == "fs-lstat":
                if e["phase"] == "probe":
                    pass  # _require_socket_or_absent
                elif e["phase"] == "stale":
                    if ev[3] is None:  # _unlink_stale_socket: nothing there
                        ep["labels"].append(["unlinkStale", mt, True])
                        e["phase"] = "meta"
                else:
                    anomalies.append(f"lstat in phase {e['phase']}")
            elif k == "fs-unlink":
                is_sock, is_meta, is_lock = ev[2].endswith(".sock"), ev[2].endswith(".meta"), ev[2].endswith(".lock")
                if e["role"] == "launch":
                    if e["phase"] == "stale" and is_sock:
                        ep["labels"].append(["unlinkStale", mt, bool(ev[3])])
                        e["phase"] = "meta" if ev[3] else "failing"
                    else:
                        anomalies.append(f"launcher unlinked {ev[2]} in phase {e['phase']}")
                else:
                    want = {"g-sock": is_sock, "g-meta": is_meta, "g-lock": is_lock}.get(e["phase"], False)
                    if not want:
                        anomalies.append(f"gc unlinked {ev[2]} in phase {e['phase']}")
                    lab = {"g-sock": "gcUnlinkSock", "g-meta": "gcUnlinkMeta", "g-lock": "gcUnlinkLock"}.get(e["phase"])
                    if lab:
                        ep["labels"].append([lab, mt])
                    e["phase"] = {"g-sock": "g-meta", "g-meta": "g-lock", "g-lock": "releasing"}.get(e["phase"], e["phase"])
                    if is_lock and not ev[3]:
                        anomalies.append("gc unlinked an absent lock file")
                if ev[3] and is_sock:
                    ep["events"].append(["unlink"])
                    ep["path"] = None
                if is_sock:
                    ep["state"][0] = None
                if is_meta:
                    ep["state"][1] = False
                if is_lock and ev[3]:
                    ep["state"][2] += 1
                ep["labels"].append(["vars", *ep["state"]])
            elif k == "fs-write":
                if e["role"] == "launch" and e["phase"] == "meta":
                    ep["labels"].append(["writeMeta", mt])
                    e["phase"] = "spawn"
                    ep["state"][1] = True
                    ep["labels"].append(["vars", *ep["state"]])
                else:
                    anomalies.append(f"meta written in phase {e['phase']}")
            continue
        if k in ("spawn", "spawn-fail", "spawn-ready") and isinstance(ev[2], str):
            name = _endpoint(ev[2])
            e = episode.get((tid, name))
            ep = ep_of(name)
            if k == "spawn-ready":
                if e is None or e["phase"] != "waiting":
                    anomalies.append(f"spawn-ready in phase {None if e is None else e['phase']}")
                    continue
                ep["labels"].append(["spawnReady", e["mt"]])
                e["phase"] = "decided"
                e["t0"] = units(ev[4]) if ev[4] is not None else now
                continue
            if k == "spawn-fail" and e is not None and e["phase"] == "waiting":
                ep["labels"].append(["spawnFail", e["mt"]])
                e["phase"] = "failing"
                continue
            if e is None or e["phase"] not in ("spawn", "meta"):
                anomalies.append(f"{k} in phase {None if e is None else e['phase']}")
                if k == "spawn":
                    ep["events"].append(["spawn", ev[3]])
                continue
            if e["phase"] == "meta":  # explicit socket path: no meta file
                ep["labels"].append(["writeMeta", e["mt"]])
                ep["state"][1] = True  # the model has no meta-less launch: its `hasMeta` is only an observation
                ep["nometa"] = True
            if k == "spawn":
                ep["labels"].append(["spawn", e["mt"], ev[3]])
                ep["events"].append(["spawn", ev[3]])
                e["phase"] = "waiting"
            else:
                ep["labels"].append(["spawnFail", e["mt"]])
                e["phase"] = "failing"
            continue
        if k == "sock-connect":  # `_check_no_existing_listener` of a starting worker
            ep = ep_of(_endpoint(ev[2]))
            if wphase.get(tid, "check") != "check":
                anomalies.append("liveness connect outside the worker's start-up check")
                continue
            ep["labels"].append(["wCheck", ev[3], not ev[4]])
            if ev[4]:
                ep["events"].append(["exit", ev[3]])  # somebody is listening: the worker dies
                wphase[tid] = "dead"
            else:
                wphase[tid] = "clear"
            continue
        if k in ("w-bind", "w-listen", "w-announce", "w-close", "w-dead", "w-bind-failed"):
            ep = ep_of(ev[2])
            wid = ev[3]
            if k == "w-bind":
                if wphase.get(tid) != "bind":
                    anomalies.append(f"bind in phase {wphase.get(tid)}")
                ep["labels"].append(["wBind", wid])
                ep["events"].append(["bind", wid])
                ep["path"] = wid
                ep["state"][0] = wid
                wphase[tid] = "bound"
                if not ep.get("nometa"):
                    ep["labels"].append(["vars", *ep["state"]])
            elif k == "w-listen":
                ep["labels"].append(["wListen", wid])
                ep["events"].append(["ready", wid])
            elif k == "w-announce":
                ep["labels"].append(["wAnnounce", wid])
            elif k == "w-dead":
                if wphase.get(tid) == "lost" and ev[4] == "FileNotFoundError":
                    # the path changed under the starting worker (only an exit-time unlink of a predecessor can do that): the model's
                    # `wLost`, enabled exactly when the path no longer names what the worker expects
                    ep["labels"].append(["wLost", wid])
                    ep["events"].append(["exit", wid])
                elif wphase.get(tid) != "dead":
                    anomalies.append(f"worker {wid} died ({ev[4]}) in phase {wphase.get(tid)}")
                wphase[tid] = "dead"
            elif k == "w-bind-failed":
                anomalies.append(f"worker {wid}: bind failed, the path was occupied again after the stale socket was removed")
            continue
        if k == "w-exit":
            ep = ep_of(ev[2])
            ep["labels"].append(["wExit", ev[3]])
            ep["events"].append(["exit", ev[3]])
            wphase[tid] = "exit"
            continue
        if k == "w-gone":
            ep = ep_of(ev[2])
            if wphase.get(tid) == "exit-stat":  # no unlink happened: identity mismatch or path absent
                ep["labels"].append(["wUnlink", ev[3]])
            wphase[tid] = "gone"
            continue
        if k in ("launch-ret", "launch-raise"):
            name = cur_ep.get(tid)
            cur_ep[tid] = None
            if name is None:
                anomalies.append(f"{k} outside a launch")
                continue
            e = episode.pop((tid, name), None)
            ep = ep_of(name)
            if e is None:
                anomalies.append(f"{k} without an episode")
                continue
            if k == "launch-ret":
                if e["phase"] != "released" or e["t0"] is None:
                    anomalies.append(f"launch returned in phase {e['phase']}")
                    continue
                ep["labels"].append(["ret", e["mt"]])
                ep["events"].append(["ret", e["t0"], now])
            else:
                if e["phase"] == "released":
                    ep["labels"].append(["raised", e["mt"]])
                elif e["phase"] != "failed":
                    anomalies.append(f"launch raised {ev[3]} in phase {e['phase']}")
            continue
        if k in ("fs-glob", "acq", "rel", "set", "clear", "exc", "timeout", "spawn"):
            continue
        anomalies.append(f"unexpected event {k}")
    for key, e in list(episode.items()):
        if e["role"] == "launch" and e["phase"] not in ("failed",):
            anomalies.append(f"unfinished launch episode in phase {e['phase']}")
    truth = launch_truth(cfg, run)
    truth["dead_inode"] = any(ev[0] == "lock-verify" and not ev[4] for ev in tr)
    truth["lock_contended"] = any(ev[0] == "lock-flock" and not ev[4] for ev in tr)
    split_locks = sorted(n for n, names in lock_names.items() if len(names) > 1)
    if split_locks:
        anomalies.append(f"launches of endpoint(s) {split_locks} locked on different lock files: {sorted(lock_names[split_locks[0]])}")
    return {"eps": eps, "anomalies": anomalies, "launches": launches, "threads": len(launch_threads),
            "violations": truth["violations"], "clobbered": truth["clobbered"], "raised": truth["raised"],
            "dead_inode": truth["dead_inode"], "lock_contended": truth["lock_contended"]}


def launcher_monitor(idle: int, events: list[list[Any]]) -> dict[str, Any]:
    """The launcher half of the property, from its text (mirror of Spec.LMon)."""
    alive: list[int] = []
    acc: list[int] = []
    path: int | None = None
    bad_spawn = bad_ret = False
    for e in events:
        if e[0] == "spawn":
            bad_spawn = bad_spawn or bool(alive)
            alive = [e[1]] + alive
        elif e[0] == "bind":
            path = e[1]
        elif e[0] == "ready":
            acc = [e[1]] + acc
        elif e[0] == "exit":
            alive = [x for x in alive if x != e[1]]
            acc = [x for x in acc if x != e[1]]
        elif e[0] == "unlink":
            path = None
        elif e[0] == "ret":
            ok = path is not None and path in acc
            bad_ret = bad_ret or (e[2] < e[1] + idle and not ok)
    return {"alive": alive, "acc": acc, "path": path, "badSpawn": bad_spawn, "badRet": bad_ret}


def launch_judge(ctx: Any, cfg: dict[str, Any], run: Any, an: dict[str, Any], models: dict[str, Any], mons: dict[str, Any]) -> None:
    case = {"part": "launch", "cfg": cfg, "schedule": list(run.schedule)}
    nworkers = sum(len([e for e in ep["events"] if e[0] == "spawn"]) for ep in an["eps"].values())
    ctx.case(case, nontrivial=an["threads"] >= 2, tags=(
        "k:launch", f"launch:{run.kind}", f"launch:pre{min(run.preemptions, 4)}", f"launch:endpoints{min(len(an['eps']), 3)}",
        f"launch:launches{min(an['launches'], 4)}", f"launch:workers{min(nworkers, 3)}",
        "launch:worker-exited" if any(e[0] == "exit" for ep in an["eps"].values() for e in ep["events"]) else "launch:no-exit",
        "launch:gc-unlinked-lock" if any(ep["state"][2] for ep in an["eps"].values()) else "launch:lock-kept",
        "launch:clobbered" if an["clobbered"] else "launch:no-clobber", f"launch:src:{cfg.get('src', 'gen')}",
        *sorted({f"launch:raised:{x}" for x in an["raised"]}),
        *(["launch:dead-inode-lock-dropped"] if an["dead_inode"] else []),
        *(["launch:lock-contended"] if an["lock_contended"] else [])))
    if run.status != "ok":
        ctx.fail(case, f"C33:launch:{run.status}", f"run ended with {run.status}: blocked {run.blocked}")
        return
    if run.errors:
        e = next(iter(run.errors.values()))
        ctx.fail(case, f"C33:launch:exception:{type(e).__name__}", f"a launcher / worker thread raised {e!r}")
        return
    if run.diverged:
        ctx.mismatch(case, "schedule", "diverged", "replayed schedule is not executable (non-determinism)")
    # ---- O (ground truth of the in-memory world)
    for kind, what in an["violations"]:
        if an["clobbered"]:
            # the open finding: keep a handful of witnesses, count the rest (ctx.failures is capped; new failures must fit)
            seen = ctx.notes.setdefault("exit_unlink_clobber_hits", {})
            seen[kind] = seen.get(kind, 0) + 1
            if seen[kind] <= 4:
                ctx.fail(case, f"C33:exit-unlink-clobber:{kind}", what + " — after an exiting worker's unlink removed its successor's socket")
        else:
            ctx.fail(case, f"C33:launcher:{kind}", what)
    # ---- K
    if an["anomalies"]:
        ctx.mismatch(case, "modelled protocol of launch / gc_state_dir", an["anomalies"],
                     "trace shape: the implementation no longer follows the modelled steps")
    for name, ep in an["eps"].items():
        pm = launcher_monitor(cfg["idle"], ep["events"])
        truth_spawn = any(k == "spawn-while-alive" for k, _ in an["violations"])
        m = models.get(name)
        if m is None:
            continue
        if not m["ok"]:
            i = m.get("reject")
            ctx.mismatch(case, {"endpoint": name, "rejected_label": ep["labels"][i] if i is not None and i < len(ep["labels"]) else i},
                         ep["labels"], "trace is not a run of the Lean launcher transition system")
            continue
        if m["hist"] != ep["events"]:
            ctx.mismatch(case, m["hist"], ep["events"], f"observable history of endpoint {name}: model vs trace")
        if m["clobbered"] != ep["clobbered"]:
            ctx.mismatch(case, m["clobbered"], ep["clobbered"], "clobbered: model ghost flag vs in-memory world")
        if [m["mon"]["badSpawn"], m["mon"]["badRet"]] != [pm["badSpawn"], pm["badRet"]]:
            ctx.mismatch(case, m["mon"], pm, "spec monitor: Lean (inside the model) vs Python oracle")
        if (pm["badSpawn"] or pm["badRet"]) and not an["violations"]:
            ctx.mismatch(case, pm, an["violations"], "Python monitor vs ground truth of the in-memory world")
        if truth_spawn and not any(launcher_monitor(cfg["idle"], e2["events"])["badSpawn"] for e2 in an["eps"].values()):
            ctx.mismatch(case, "badSpawn", an["violations"], "ground truth saw a double spawn the monitor did not")
        mo = mons.get(name)
        if mo is not None and [mo["badSpawn"], mo["badRet"], mo["path"]] != [pm["badSpawn"], pm["badRet"], pm["path"]]:
            ctx.mismatch(case, mo, pm, "spec monitor: Lean Spec.LMon.run vs Python oracle")


def explore_launch(ctx: Any, T: Any, L: Any, cfg: dict[str, Any], dfs: int, bound: int, rnd: int, stall: int = 0) -> int:
    ds, setup = launch_sched(T, L, cfg)
    batch: list[tuple[Any, dict[str, Any]]] = []
    n = 0

    def flush() -> None:
        if not batch:
            return
        reqs, idx = [], []
        for i, (_r, an) in enumerate(batch):
            for name, ep in an["eps"].items():
                if _offgrid(ep["labels"]) or _offgrid(ep["events"]):
                    continue
                reqs.append(("C33.launchAccepts", {"idle": cfg["idle"], "events": ep["labels"]}))
                reqs.append(("C33.launchMonitor", {"idle": cfg["idle"], "events": ep["events"]}))
                idx.append((i, name))
        res = ctx.driver.batch(reqs) if ctx.driver is not None else []
        models: list[dict[str, Any]] = [{} for _ in batch]
        mons: list[dict[str, Any]] = [{} for _ in batch]
        for j, (i, name) in enumerate(idx):
            if res:
                models[i][name] = res[2 * j]
                mons[i][name] = res[2 * j + 1]
        for (r, an), m, mo in zip(batch, models, mons):
            launch_judge(ctx, cfg, r, an, m, mo)
        batch.clear()

    try:
        with ds:
            import itertools

            nl = len(cfg["launchers"])
            for run in itertools.chain(ds.explore(setup, dfs=dfs, bound=bound, random=rnd, seed=f"{ctx.seed}:{ctx.evaluations}"),
                                       stall_runs(ds, setup, stall),
                                       # worker threads (ids after the launchers') stalled deep inside their start-up / exit sequence
                                       stall_runs(ds, setup, stall + stall // 2, victims=range(nl, nl + 3), afters=range(4, 18))):
                batch.append((run, launch_analyse(cfg, run)))
                n += 1
                if len(batch) >= 200:
                    flush()
                    if _fresh_failures(ctx) >= STOP_AFTER:
                        break
            flush()
    finally:
        _World.current = None
    ctx.tag("launch:cfg-exhausted-within-bound" if ds.stats.get("exhaustive") else "launch:cfg-capped")
    return n


def _l(cmd: str, **kw: Any) -> list[Any]:
    return ["launch", dict(cmd=cmd, **kw)]


LAUNCH_CORPUS: list[dict[str, Any]] = [
    # cold start raced by two / three launchers of one command
    {"idle": 8, "launchers": [[_l("a")], [_l("a")]]},
    {"idle": 8, "launchers": [[_l("a")], [_l("a")], [_l("a")]]},
    # reuse: the second launch of each thread finds the worker by probe
    {"idle": 8, "launchers": [[_l("a"), _l("a")], [_l("a")]]},
    # two commands: the opportunistic GC of each launch visits the other endpoint (lock, probe; unlink sock/meta/LOCK when stale)
    {"idle": 8, "launchers": [[_l("a")], [_l("b")]]},
    {"idle": 4, "launchers": [[_l("a"), ["sleep", 4], _l("a")], [["sleep", 4], _l("b")], [["sleep", 4], _l("a")]]},
    # the unlink-while-waiting inode hazard: endpoint a is stale when launcher 1's GC visits it (unlinks a's LOCK FILE while
    # holding it) and launcher 2 opens a's lock file around that moment — the st_nlink re-check must drop the dead inode
    {"idle": 4, "launchers": [[_l("a")], [["sleep", 5], _l("b")], [["sleep", 5], _l("a")]]},
    {"idle": 4, "launchers": [[_l("a")], [["sleep", 5], _l("b")], [["sleep", 5], _l("a")], [["sleep", 5], _l("a")]]},
    # "launcher or client acts right after the announcement": launches queued behind the spawning one get the lock the moment
    # it returns, while the worker may still be anywhere between its announcement and its accept loop; every launch-ret is a
    # client connecting at once (the oracle looks at the path at that very moment)
    {"idle": 8, "launchers": [[_l("a")], [_l("a")], [_l("a")], [_l("a")]]},
    {"idle": 8, "launchers": [[_l("a"), _l("a"), _l("a")], [_l("a"), _l("a")]]},
    # a worker idling out exactly when the next launch arrives (exit vs probe vs stale unlink vs respawn)
    {"idle": 4, "launchers": [[_l("a"), ["sleep", 4], _l("a")]]},
    {"idle": 4, "launchers": [[_l("a")], [["sleep", 4], _l("a")], [["sleep", 4], _l("a")]]},
    {"idle": 4, "launchers": [[_l("a")], [["sleep", 4], _l("a")], [["sleep", 5], _l("a")]]},
    # spawn failure (the worker dies before readiness): launch raises, the next launcher spawns
    {"idle": 8, "spawn_fail": [1], "launchers": [[_l("a")], [_l("a")]]},
    # zero lock timeout: a contended launch gives up with RuntimeError
    {"idle": 8, "launchers": [[_l("a")], [_l("a", ct=0)]]},
    # explicit socket path: sibling lock file, no meta, no GC
    {"idle": 8, "launchers": [[_l("x", explicit=True)], [_l("x", explicit=True)]]},
    # path aliasing: ONE socket launched concurrently under several spellings — through a symlinked directory, with `..`
    # segments, relative to the cwd (`Path.absolute()` resolves none of these; the file system does)
    {"idle": 8, "launchers": [[_l("x", explicit=True, spell="plain")], [_l("x", explicit=True, spell="link")]]},
    {"idle": 8, "launchers": [[_l("x", explicit=True, spell="dotdot")], [_l("x", explicit=True, spell="rel")],
                              [_l("x", explicit=True, spell="link")]]},
    {"idle": 4, "launchers": [[_l("x", explicit=True, spell="link"), ["sleep", 4], _l("x", explicit=True, spell="plain")],
                              [["sleep", 4], _l("x", explicit=True, spell="rel")]]},
]


def gen_launch(rng: Any) -> dict[str, Any]:
    idle = rng.choice([3, 4, 4, 6, 8])
    n = rng.choice([2, 2, 3, 3, 4])
    cmds = ["a", "a", "a", "b"] if rng.random() < 0.6 else ["a"]
    launchers = []
    for i in range(n):
        prog: list[list[Any]] = []
        for j in range(rng.choice([1, 1, 2])):
            if (i or j) and rng.random() < 0.7:
                prog.append(["sleep", rng.choice([1, idle - 1, idle, idle, idle + 1, 2 * idle])])
            prog.append(_l(rng.choice(cmds)))
        launchers.append(prog)
    if rng.random() < 0.3:  # the same programme on ONE explicit socket, every launch under a random spelling of its path
        for prog in launchers:
            for op in prog:
                if op[0] == "launch":
                    op[1] = dict(cmd="x", explicit=True, spell=rng.choice(["plain", "link", "dotdot", "rel"]))
    cfg: dict[str, Any] = {"idle": idle, "launchers": launchers, "src": "gen"}
    if rng.random() < 0.15:
        cfg["spawn_fail"] = [rng.choice([1, 2])]
    return cfg


# =====================================================================================================================
# run / replay
# =====================================================================================================================


def check_meta(ctx: Any, T: Any, L: Any) -> None:
    case = {"meta": "constants"}
    ctx.case(case, nontrivial=False, tags=("k:meta",))
    if ctx.driver is None:
        return
    g = ctx.driver.call("C33.gen", {})
    _GEN.update(graceFloorSecs=g["graceFloorSecs"], acceptTimeoutMillis=g["acceptTimeoutMillis"])
    if g["gcLimit"] != L._DEFAULT_GC_LIMIT:
        ctx.mismatch(case, g["gcLimit"], L._DEFAULT_GC_LIMIT, "_DEFAULT_GC_LIMIT: Gen vs module")
    if g["acceptTimeoutMillis"] % int(Q * 1000) != 0:
        ctx.mismatch(case, g["acceptTimeoutMillis"], "multiple of the quantum", "accept timeout is not a multiple of the harness quantum")
    floor = g["graceFloorSecs"] * QPS
    for idle in (1, 8, floor - 1, floor, floor + 1, 10 * floor):
        m = ctx.driver.call("C33.grace", {"q": QPS, "idle": idle})
        if m != max(idle, floor):
            ctx.mismatch(case, m, max(idle, floor), "start-up grace: model vs max(idle_timeout, floor)")
    shapes = {k: g[k] for k in ("sharedUnderLock", "loopShape", "handlerShape", "timerShape", "launchShape", "gcShape", "workerExitShape")}
    ctx.note("shape_facts", shapes)
    ctx.note("repair_shapes", {"clearsFlagOnAccept": g["clearsFlagOnAccept"], "callbackChecksCurrent": g["callbackChecksCurrent"],
                               "registersInHandler": g["registersInHandler"], "callbackCheck": g["callbackCheck"], "filelockChecksNlink": g["filelockChecksNlink"]})
    # serve_unix / serve_tcp refuse idle_timeout without threaded=True (the idle logic lives in the threaded loop only)
    for fn, args in ((T.serve_unix, ("/nonexistent/x.sock",)), (T.serve_tcp, ())):
        c = {"meta": f"{fn.__name__}(idle_timeout=1, threaded=False)"}
        ctx.case(c, nontrivial=True, tags=("k:validate",))
        try:
            fn(None, *args, threaded=False, idle_timeout=1.0)
            ctx.fail(c, "C33:idle-timeout-accepted-without-threaded", f"{fn.__name__} accepted idle_timeout with threaded=False")
        except ValueError:
            pass


def run(ctx: Any) -> None:
    T, L = _mods()
    rng = ctx.rng
    thorough = ctx.tier == "thorough"
    bound = 3 if thorough else 2
    check_meta(ctx, T, L)
    total_loop = total_launch = 0
    # ---- (b)
    per = ctx.budget(36, 700)
    plan: list[tuple[dict[str, Any], int, int, int]] = [
        (dict(c, src="corpus"), per, per // 4, ctx.budget(28, 160)) for c in LOOP_CORPUS]
    plan += [(dict(c, src="grace"), ctx.budget(6, 60), ctx.budget(2, 20), ctx.budget(8, 60)) for c in LOOP_GRACE]
    plan += [(gen_loop(rng), ctx.budget(30, 350), ctx.budget(8, 90), ctx.budget(24, 80)) for _ in range(ctx.budget(3, 10))]
    for cfg, dfs, rnd, stall in plan:
        total_loop += explore_loop(ctx, T, cfg, dfs, bound, rnd, stall)
        if _fresh_failures(ctx) >= STOP_AFTER:
            ctx.note("stopped_early", "accept loop: enough failing inputs found")
            break
    # ---- (a)
    per = ctx.budget(45, 2000)
    plan = [(dict(c, src="corpus"), per, per // 5, ctx.budget(28, 200)) for c in LAUNCH_CORPUS]
    plan += [(gen_launch(rng), ctx.budget(40, 900), ctx.budget(10, 200), ctx.budget(24, 120)) for _ in range(ctx.budget(3, 20))]
    for cfg, dfs, rnd, stall in plan:
        if _fresh_failures(ctx) >= STOP_AFTER:
            break
        total_launch += explore_launch(ctx, T, L, cfg, dfs, bound, rnd, stall)
    ctx.note("traces_validated_against_impl", total_loop + total_launch)
    ctx.note("loop_traces", total_loop)
    ctx.note("launcher_traces", total_launch)


def replay(ctx: Any, case: dict[str, Any]) -> None:
    T, L = _mods()
    if "meta" in case:
        check_meta(ctx, T, L)
        return
    cfg = case["cfg"]
    if case["part"] == "loop":
        ds, setup = loop_sched(T, cfg)
        with ds:
            r = ds.replay(setup, case["schedule"])
        an = loop_analyse(cfg, r)
        model = mon = None
        if ctx.driver is not None and not _offgrid(an["labels"]):
            model = ctx.driver.call("C33.loopAccepts", _loop_req(cfg, an))
            idle = cfg.get("idle") or 0
            mon = ctx.driver.call("C33.loopMonitor", {"idle": idle, "grace": grace_of(idle), "events": an["events"]})
        loop_judge(ctx, cfg, r, an, model, mon)
        return
    ds, setup = launch_sched(T, L, cfg)
    try:
        with ds:
            r = ds.replay(setup, case["schedule"])
    finally:
        _World.current = None
    an = launch_analyse(cfg, r)
    models: dict[str, Any] = {}
    mons: dict[str, Any] = {}
    if ctx.driver is not None:
        for name, ep in an["eps"].items():
            if _offgrid(ep["labels"]) or _offgrid(ep["events"]):
                continue
            models[name] = ctx.driver.call("C33.launchAccepts", {"idle": cfg["idle"], "events": ep["labels"]})
            mons[name] = ctx.driver.call("C33.launchMonitor", {"idle": cfg["idle"], "events": ep["events"]})
    launch_judge(ctx, cfg, r, an, models, mons)
