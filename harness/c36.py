"""C36 — the token introspection endpoint enforces its guards.

The real endpoint is driven in-process (`make_wsgi_app` + `falcon.testing.TestClient`) with a harness authenticator
(caller identity chosen per request), a harness resolver (outcome chosen per request, every invocation logged) and a
tracking body stream.  The rate limit is set to 10**9 so 429 (outside the property) never interferes; one extra app
with limit 0 checks only *where* the limiter sits (K).

K (correspondence): canonical (status, body shape, Cache-Control, Retry-After, resolver calls, body read before the
    responder finished) of every request vs `C36.post` (the guard interpreter over the extracted guard list);
    `_JWS_SHAPED.match` vs `C36.jws` on a regex-neighbourhood corpus.
O (direct oracle), from the property text: 403 + no resolver call for every caller outside the allow-list; one
    byte-identical 404 for malformed / unknown / JWS-shaped subjects, the JWS-shaped ones and the malformed ones without
    a resolver call; 503 + Retry-After for an outage; otherwise 200 with exactly {principal, token_name, ttl_seconds}
    and a finite positive ttl (a 200 carrying any other ttl is a violation); the subject never occurs in status line,
    headers or body; a worker without a resolver answers the one `404 not_enabled`.
"""

import io
import json
import math
import re
from types import SimpleNamespace
from typing import Any, Protocol

from harness.common.lean import s2j

PROPERTY = "C36"
LEAN_MODULES = ["VgiVerif.Proofs.C36"]
OBLIGATIONS = [
    "VgiVerif.C36.shape_ok",
    "VgiVerif.C36.C36_jws_iff",
    "VgiVerif.C36.C36_403",
    "VgiVerif.C36.C36_404_malformed",
    "VgiVerif.C36.C36_404_jws",
    "VgiVerif.C36.C36_404_unknown",
    "VgiVerif.C36.C36_503",
    "VgiVerif.C36.C36_ok",
    "VgiVerif.C36.C36_200",
    "VgiVerif.C36.C36_secret",
    "VgiVerif.C36.C36_disabled",
    "VgiVerif.C36.C36_statuses",
    "VgiVerif.C36.C36_403_any_state",
    "VgiVerif.C36.C36_403_history",
    "VgiVerif.C36.C36_serve_authorized",
    "VgiVerif.C36.C36_allowlist_exact",
    "VgiVerif.C36.C36_allowlist_required",
    "VgiVerif.C36.C36_403_configured",
    "VgiVerif.C36.C36_403_no_principal",
]
TRUSTED = [
    "CPython json.loads (body -> invalid / non-object / object with a `token` member) and json.dumps: the model starts from the parsed body",
    "Falcon: routing of POST {prefix}/__introspect_token__, rendering of HTTPServiceUnavailable / HTTPInternalServerError / uncaught "
    "exceptions, bounded_stream; the auth middleware that produces the AuthContext (C20/C21)",
    "CPython re as mirrored by the regex kit (validated differentially on every run)",
    "time.monotonic is replaced by a harness clock (module global `time` of _introspect) for request histories; threading.Lock of the "
    "limiter is not modelled (requests are sequential)",
]
RULE = (
    "finite table: caller classes {anonymous, authenticated+allow-listed, authenticated+other (several near misses), unauthenticated "
    "with an allow-listed name, empty/None principal} x body classes {valid opaque, JWS-shaped (incl. empty signature, trailing newline), "
    "near-JWS, empty / 4096 / 4097-char / lone-surrogate token, oversized (8193, 20000), exactly 8192, non-JSON, non-object, wrong types, "
    "missing key, duplicate key} x resolver outcomes {identity with ttl in ints, bools, floats incl. NaN/inf/-0.0, None, str, list; None; "
    "unavailable (several retry_after); other exceptions} with several concrete instances per class; quick = the full product for "
    "authorised callers x valid subjects and a covering sample elsewhere, thorough = the full product; a case is non-trivial when the "
    "caller is authorised or the body is valid; distinct by (app, caller, body, outcome); plus request HISTORIES on one fresh resource "
    "instance per history: limits {0,1,2,3,5,20(default)} x shapes {burst of limit+1..12 requests from one refused caller, mixed "
    "interleavings of allow-listed and refused callers, fill-the-budget-then-window-edge (dt 1022/1023/1024 ticks), refused burst then "
    "allow-listed caller, callers sharing the empty key} x start clocks {0, <window, >window} under a controlled monotonic clock; "
    "plus CONFIGURATIONS: introspect_principals as written by the operator {trailing comma (blank entry), whitespace-only entries, "
    "duplicates, padded entries, only blanks, [], None, generated mixes incl. NBSP / ideographic space} x callers {anonymous, "
    "authenticated with principal None / '' / ' ' / tab / padded / exact / other, unauthenticated} on one app per configuration"
)
PARTIAL = ["429 for an allow-listed caller over its budget is modelled (stateful fixed-window limiter) and checked by K, but is not part of the property"]
MANIFEST = {
    "level": "proof",
    "text": "Lean theorems about an interpreter over the guard list extracted from on_post (source order, statuses, error codes), "
            "_read_token, _usable_ttl, the extracted JWS regex, the disabled resource and the route wiring: 403 before body/resolver for "
            "every non-allow-listed caller; one 404 for malformed/unknown/JWS-shaped subjects (no resolver call for the latter two); 503 + "
            "Retry-After on outage; every 200 carries exactly three keys and a finite positive ttl; the response is a function of (caller, "
            "subject class, resolver outcome) — not of the subject text; disabled => the not_enabled 404. Tied to the code by extraction and "
            "an exhaustive differential run over the finite case table.",
    "note": "json parsing, Falcon error rendering and the auth middleware are trusted; 429 is outside the property (limit set high)",
    "technique": "Lean 4 proof: case analysis over a guard interpreter + regex language lemma; correspondence: AST extraction of the guard "
                 "order + exhaustive differential enumeration of callers x bodies x resolver outcomes",
}


_FAIL_SEEN: dict[str, int] = {}


def _fail(ctx: Any, case: Any, key: str, what: str) -> None:
    """Report at most three failing inputs per key, so one defect cannot crowd a different one out of the failure list."""
    n = _FAIL_SEEN.get(key, 0)
    _FAIL_SEEN[key] = n + 1
    if n < 3:
        ctx.fail(case, key, what)
    else:
        ctx.note("failures_beyond_three_per_key", sum(max(0, v - 3) for v in _FAIL_SEEN.values()))


ALLOW = ["proxy@example.com", "svc-ß"]
ENDPOINT = "/__introspect_token__"
_STRICT_JWS = re.compile(r"\A[A-Za-z0-9_-]+\.[A-Za-z0-9_-]+\.[A-Za-z0-9_-]*\Z")  # the *spec*: three base64url segments

# ------------------------------------------------------------------------------------------ case tables

CALLERS: list[dict[str, Any]] = [
    {"mode": "anon"},                                                   # AuthContext.anonymous()
    {"mode": "auth", "principal": "proxy@example.com"},                 # allow-listed
    {"mode": "auth", "principal": "svc-ß"},                             # allow-listed, non-ASCII
    {"mode": "auth", "principal": "mallory@example.com"},
    {"mode": "auth", "principal": "Proxy@example.com"},                 # case differs
    {"mode": "auth", "principal": "proxy@example.com "},                # trailing space
    {"mode": "auth", "principal": "proxy@example.co"},
    {"mode": "auth", "principal": ""},
    {"mode": "auth", "principal": None},
    {"mode": "unauth", "principal": "proxy@example.com"},               # names an introspector but is not authenticated
    {"mode": "unauth", "principal": "mallory@example.com"},
]


def _tok(t: str) -> bytes:
    return json.dumps({"token": t}).encode()


OPAQUE = ["tok-OPAQUE-7f3a9c", "vgi_pat_01HZX3K9QW8E", "opaque.two-segments", "ünïcode-tøken-123456", "a b c d e f", "x" * 4096,
          "with\x00nul-inside-12345", "9f8e7d6c5b4a39281706"]
JWS = ["eyJhbGciOiJIUzI1NiJ9.eyJzdWIiOiJ4In0.c2ln", "a.b.c", "a.b.", "A-_9.B-_8.", "eyJhbGciOiJub25lIn0.eyJzdWIiOiJhbGljZSJ9."]
JWS_NL = ["eyJhbGciOiJIUzI1NiJ9.eyJzdWIiOiJ4In0.c2ln\n", "a.b.\n"]      # `$` also matches before one final newline
NEAR_JWS = ["a.b", "a.b.c.d", ".b.c", "a..c", "a.b.c ", " a.b.c", "a.b.c\n\n", "\na.b.c", "a.b.c\r\n", "a.b.c=", "a.b.c+", "a.b/.c",
            "١.b.c", "a.b.ç", "a.b.c\x00", "a.b.c\x0b"]
BAD_TOKENS = ["", "x" * 4097, "y" * 9000, "\ud800lone-surrogate", "ok-prefix-\udfff"]

BODIES: list[dict[str, Any]] = (
    [{"cls": "opaque", "raw": _tok(t)} for t in OPAQUE]
    + [{"cls": "jws", "raw": _tok(t)} for t in JWS]
    + [{"cls": "jws-newline", "raw": _tok(t)} for t in JWS_NL]
    + [{"cls": "near-jws", "raw": _tok(t)} for t in NEAR_JWS]
    + [{"cls": "bad-token", "raw": (b'{"token": ' + json.dumps(t).encode() + b"}")} for t in BAD_TOKENS]
    + [
        {"cls": "opaque", "raw": b'{"token":"tok-OPAQUE-first","token":"tok-OPAQUE-LAST-77"}'},   # duplicate member: the last one wins
        {"cls": "opaque", "raw": b'\xef\xbb\xbf{"token":"tok-OPAQUE-bom-55"}'},
        {"cls": "opaque", "raw": b'  {"token" : "tok-OPAQUE-ws-66" , "claims": {"role": "admin"}}  \n'},
        {"cls": "opaque", "raw": b'{"token":"tok-OPAQUE-pad-88"}'.ljust(8192)},                    # exactly 8192 bytes
        {"cls": "oversized", "raw": b'{"token":"tok-OPAQUE-pad-89"}'.ljust(8193)},                 # 8193 bytes
        {"cls": "oversized", "raw": _tok("tok-OPAQUE-big-" + "z" * 20000)},
        {"cls": "non-json", "raw": b"not json"},
        {"cls": "non-json", "raw": b""},
        {"cls": "non-json", "raw": b"\xff\xfe\x00"},
        {"cls": "non-json", "raw": b'{"token": "tok-OPAQUE-trunc-1"'},
        {"cls": "non-json", "raw": b"token=tok-OPAQUE-form-22"},
        {"cls": "non-object", "raw": b'["tok-OPAQUE-list-33"]'},
        {"cls": "non-object", "raw": b'"tok-OPAQUE-str-44"'},
        {"cls": "non-object", "raw": b"5"},
        {"cls": "non-object", "raw": b"null"},
        {"cls": "non-object", "raw": b"NaN"},
        {"cls": "wrong-type", "raw": b'{"token": 5}'},
        {"cls": "wrong-type", "raw": b'{"token": null}'},
        {"cls": "wrong-type", "raw": b'{"token": ["tok-OPAQUE-inlist-5"]}'},
        {"cls": "wrong-type", "raw": b'{"token": {"token": "tok-OPAQUE-nested-6"}}'},
        {"cls": "wrong-type", "raw": b'{"token": true}'},
        {"cls": "missing", "raw": b'{"tok": "tok-OPAQUE-wrongkey-7"}'},
        {"cls": "missing", "raw": b"{}"},
        {"cls": "missing", "raw": b'{"Token": "tok-OPAQUE-case-8"}'},
    ]
)

IDENT = [("alice@example.com", "laptop"), ("ünï \"q\" \\ </script>", ""), ("", "n")]
TTLS: list[Any] = [300, 1, 10**30, 10**400, 0, -1, True, False, 0.5, 1e-9, 1e308, 0.0, -0.0, -2.5, float("nan"), float("inf"),
                   float("-inf"), 1e400, "5", None, [1], {"s": 1}]

OUTCOMES: list[dict[str, Any]] = (
    [{"kind": "identity", "p": IDENT[i % len(IDENT)][0], "n": IDENT[i % len(IDENT)][1], "ttl": t, "duck": i % 4 == 3} for i, t in enumerate(TTLS)]
    + [{"kind": "none"}]
    + [{"kind": "unavailable", "detail": d, "retry_after": r} for d, r in [("mapping store unreachable", 9), ("", 5), ("db timeout", 0), ("x", 120)]]
    + [{"kind": "raises", "exc": e} for e in ["RuntimeError", "KeyError", "ValueError", "echo"]]
)


def outcome_key(o: dict[str, Any]) -> str:
    if o["kind"] == "identity":
        return f"identity:{ttl_class(o['ttl'])}"
    return o["kind"]


def ttl_class(t: Any) -> str:
    if isinstance(t, bool):
        return "bool"
    if isinstance(t, int):
        return "int>0" if t > 0 else "int<=0"
    if isinstance(t, float):
        if math.isnan(t):
            return "nan"
        if math.isinf(t):
            return "inf" if t > 0 else "-inf"
        return "float>0" if t > 0 else "float<=0"
    return "non-number:" + type(t).__name__


def spec_finite_positive(t: Any) -> bool:
    if isinstance(t, bool):
        return False
    if isinstance(t, int):
        return t > 0
    if isinstance(t, float):
        return math.isfinite(t) and t > 0
    return False


# ------------------------------------------------------------------------------------------ the rig


class _P(Protocol):
    def ping(self) -> str: ...


class _Impl:
    def ping(self) -> str:
        return "pong"


class _Track(io.BytesIO):
    def __init__(self, data: bytes, box: dict[str, Any]) -> None:
        super().__init__(data)
        self.box = box

    def read(self, *a: Any) -> bytes:
        self.box["reads"] += 1
        return super().read(*a)

    def readline(self, *a: Any) -> bytes:
        self.box["reads"] += 1
        return super().readline(*a)


class Rig:
    def __init__(self) -> None:
        import logging

        import falcon.testing
        from vgi_rpc.http import AuthUnavailableError, make_wsgi_app
        from vgi_rpc.http.server._introspect import TokenIdentity
        from vgi_rpc.rpc import AuthContext, RpcServer

        self.box: dict[str, Any] = {"reads": 0, "reads_at_response": None, "calls": [], "outcome": {"kind": "none"}, "caller": None}
        box = self.box
        self.loggers = []
        for name in ("vgi_rpc", "falcon", "vgi_rpc.http.introspect"):
            lg = logging.getLogger(name)
            self.loggers.append((lg, lg.level, list(lg.handlers), lg.propagate, lg.disabled))
            lg.handlers = [logging.NullHandler()]
            lg.propagate = False

        def authenticate(req: Any) -> Any:
            c = box["caller"]
            if c["mode"] == "reject":
                raise ValueError("bad credential")
            if c["mode"] == "anon":
                return AuthContext.anonymous()
            return AuthContext(domain="verif", authenticated=c["mode"] == "auth", principal=c["principal"])

        def resolver(token: str) -> Any:
            box["calls"].append(token)
            o = box["outcome"]
            k = o["kind"]
            if k == "none":
                return None
            if k == "unavailable":
                raise AuthUnavailableError(o["detail"], retry_after=o["retry_after"])
            if k == "raises":
                if o["exc"] == "echo":
                    raise RuntimeError(f"lookup failed for {token}")  # a careless resolver: the message carries the credential
                raise {"RuntimeError": RuntimeError, "KeyError": KeyError, "ValueError": ValueError}[o["exc"]]("backend exploded")
            if o.get("duck"):
                return SimpleNamespace(principal=o["p"], token_name=o["n"], ttl_seconds=o["ttl"])
            return TokenIdentity(principal=o["p"], token_name=o["n"], ttl_seconds=o["ttl"])

        class Snap:
            def process_response(self, req: Any, resp: Any, resource: Any, req_succeeded: bool) -> None:
                box["reads_at_response"] = box["reads"]

        self.apps: dict[str, Any] = {}
        server = RpcServer(_P, _Impl())
        common = {"token_key": b"k" * 32}
        specs = {
            "enabled": dict(authenticate=authenticate, introspect_resolver=resolver, introspect_principals=ALLOW, introspect_rate_limit=10**9),
            "limited": dict(authenticate=authenticate, introspect_resolver=resolver, introspect_principals=ALLOW, introspect_rate_limit=0),
            "noauth": dict(introspect_resolver=resolver, introspect_principals=ALLOW, introspect_rate_limit=10**9),
            "disabled": dict(authenticate=authenticate),
        }
        self.snap_ok = True

        def build(**kw: Any) -> Any:
            app = make_wsgi_app(server, **common, **kw)
            try:
                app.add_middleware(Snap())
            except Exception:  # noqa: BLE001
                self.snap_ok = False
            return falcon.testing.TestClient(app)

        for name, kw in specs.items():
            self.apps[name] = build(**kw)
        # a fresh resource instance (fresh rate-limiter state) with a given per-second limit, for request sequences
        self.fresh_app = lambda limit, allow=ALLOW: build(authenticate=authenticate, introspect_resolver=resolver,
                                                          introspect_principals=allow, introspect_rate_limit=limit)
        self.AuthUnavailableError = AuthUnavailableError
        # controlled clock: `_RateLimiter.allow` reads `time.monotonic()` through the module global `time`
        import vgi_rpc.http.server._introspect as intro

        self._intro = intro
        self._real_time = intro.time
        box["now_ticks"] = None
        real = intro.time

        class FakeTime:
            def monotonic(self) -> float:
                t = box["now_ticks"]
                return real.monotonic() if t is None else t / 1024.0

            def __getattr__(self, name: str) -> Any:
                return getattr(real, name)

        intro.time = FakeTime()

    def close(self) -> None:
        self._intro.time = self._real_time
        for lg, level, handlers, propagate, disabled in self.loggers:
            lg.setLevel(level)
            lg.handlers = handlers
            lg.propagate = propagate
            lg.disabled = disabled

    def post(self, app: Any, caller: dict[str, Any], raw: bytes, outcome: dict[str, Any], ctype: str | None = "application/json",
             now_ticks: int | None = None) -> dict[str, Any]:
        """`app`: a name in self.apps, or a client from self.fresh_app; `now_ticks`: the monotonic clock (1/1024 s) seen by the limiter."""
        box = self.box
        box.update(reads=0, reads_at_response=None, calls=[], outcome=outcome, caller=caller, now_ticks=now_ticks)
        headers = {"Content-Type": ctype} if ctype else {}
        client = self.apps[app] if isinstance(app, str) else app
        r = client.simulate_post(ENDPOINT, body=raw, headers=headers, extras={"wsgi.input": _Track(raw, box), "wsgi.errors": io.StringIO()})
        hdr = {k.lower(): v for k, v in r.headers.items()}
        return {
            "status": r.status_code,
            "status_line": r.status,
            "content": r.content,
            "headers": hdr,
            "calls": list(box["calls"]),
            "body_read": (box["reads_at_response"] or 0) > 0 if self.snap_ok and box["reads_at_response"] is not None else None,
        }


# ------------------------------------------------------------------------------------------ abstraction of a request for the model


def parse_body(raw: bytes, max_body: int) -> tuple[dict[str, Any], str | None]:
    """What the model is told about the body (+ the subject text when there is a str token)."""
    clen = len(raw)
    raw_len = min(clen, max_body + 1)
    token: str | None = None
    try:
        body = json.loads(raw[:raw_len])
    except (ValueError, UnicodeDecodeError):
        parsed: list[Any] = ["invalid"]
    else:
        if not isinstance(body, dict):
            parsed = ["not_object"]
        elif "token" not in body:
            parsed = ["object", ["missing"]]
        elif not isinstance(body["token"], str):
            parsed = ["object", ["not_str"]]
        else:
            token = body["token"]
            try:
                token.encode("utf-8")
                parsed = ["object", ["str", s2j(token)]]
            except UnicodeEncodeError:
                parsed = ["object", ["unencodable", len(token)]]
    return {"content_length": clen, "raw_len": raw_len, "parsed": parsed}, token


def ttl_wire(t: Any) -> list[Any]:
    if isinstance(t, bool):
        return ["bool", t]
    if isinstance(t, int):
        return ["int", str(t)]
    if isinstance(t, float):
        cls = ("nan" if math.isnan(t) else "posInf" if t == math.inf else "negInf" if t == -math.inf
               else "pos" if t > 0 else "neg" if t < 0 else "zero")
        return ["float", cls, s2j(repr(t))]
    return ["other", s2j(json.dumps(t))]


def outcome_wire(rig: Rig, o: dict[str, Any]) -> list[Any]:
    k = o["kind"]
    if k == "identity":
        return ["identity", s2j(o["p"]), s2j(o["n"]), ttl_wire(o["ttl"])]
    if k == "unavailable":
        return ["unavailable", s2j(str(rig.AuthUnavailableError(o["detail"], retry_after=o["retry_after"]))), str(o["retry_after"])]
    return [k]


def caller_wire(app: str, c: dict[str, Any]) -> dict[str, Any]:
    if app == "noauth" or c["mode"] == "anon":
        return {"authenticated": False, "principal": s2j("")}
    return {"authenticated": c["mode"] == "auth", "principal": s2j(c["principal"] or "")}


def canon_impl(obs: dict[str, Any], success_keys: list[str]) -> dict[str, Any]:
    content = obs["content"]
    body: Any
    try:
        doc = json.loads(content)
    except ValueError:
        doc = None
    if isinstance(doc, dict) and set(doc) == {"error"} and content == json.dumps(doc, separators=(",", ":")).encode():
        body = ["error", doc["error"]]
    elif isinstance(doc, dict) and "title" in doc and set(doc) <= {"title", "description"}:
        body = ["falcon", s2j(doc["description"]) if "description" in doc else None]
    elif isinstance(doc, dict) and list(doc) == success_keys and obs["status"] == 200 \
            and isinstance(doc["principal"], str) and isinstance(doc["token_name"], str):
        body = ["identity", s2j(doc["principal"]), s2j(doc["token_name"]), ttl_wire(doc["ttl_seconds"])]
    else:
        body = ["raw", content[:200].decode("latin-1")]
    h = obs["headers"]
    return {
        "status": obs["status"],
        "body": body,
        "no_store": h.get("cache-control") == "no-store",
        "retry_after": h.get("retry-after"),
        "body_read": obs["body_read"],
        "resolver_calls": len(obs["calls"]),
    }


def canon_model(m: dict[str, Any]) -> dict[str, Any]:
    ra = m["retry_after"]
    return {"status": m["status"], "body": m["body"], "no_store": m["no_store"], "retry_after": ra[1] if ra else None,
            "body_read": m["body_read"], "resolver_calls": m["resolver_calls"]}


# ------------------------------------------------------------------------------------------ one case


class State:
    def __init__(self) -> None:
        self.ref404: dict[str, tuple[Any, dict[str, Any]]] = {}   # app -> (fingerprint, case) of the first uniform 404 seen
        self.ref_disabled: tuple[Any, dict[str, Any]] | None = None
        self.max_body = 8192
        self.max_token = 4096
        self.success_keys = ["principal", "token_name", "ttl_seconds"]
        self.pending: list[tuple[dict[str, Any], dict[str, Any], dict[str, Any]]] = []
        self.pending_seq: list[tuple[dict[str, Any], dict[str, Any], list[dict[str, Any]]]] = []

    def flush(self, ctx: Any) -> None:
        if ctx.driver is not None and self.pending_seq:
            res = ctx.driver.batch([("C36.serve_seq", a) for _c, a, _g in self.pending_seq])
            for (case, _a, got), ms in zip(self.pending_seq, res):
                want = [canon_model(m) for m in ms]
                for w, g in zip(want, got):
                    if g["body_read"] is None:
                        w["body_read"] = None
                if want != got:
                    i = next((j for j, (w, g) in enumerate(zip(want, got)) if w != g), 0)
                    ctx.mismatch({**case, "events": case["events"][: i + 1]}, want[i], got[i],
                                 f"history, request {i + 1}: model (stateful rate limiter + guards) vs implementation")
            self.pending_seq = []
        if ctx.driver is None or not self.pending:
            return
        res = ctx.driver.batch([("C36.post", a) for _c, a, _g in self.pending])
        for (case, _a, got), m in zip(self.pending, res):
            want = canon_model(m)
            if got["body_read"] is None:
                want["body_read"] = None
            if want != got:
                ctx.mismatch(case, want, got, "introspection response / trace: model vs implementation")
        self.pending = []


def _fingerprint(obs: dict[str, Any]) -> tuple[Any, ...]:
    h = obs["headers"]
    keep = {k: v for k, v in h.items() if k not in ("x-request-id", "date")}
    return (obs["status_line"], obs["content"], tuple(sorted(keep.items())))


def _echo(token: str | None, obs: dict[str, Any], o: dict[str, Any]) -> str | None:
    """Where the subject text occurs in the response, if anywhere."""
    if not token or len(token) < 6:
        return None
    own = [o.get("p") or "", o.get("n") or "", o.get("detail") or ""]
    if any(token in x for x in own):
        return None
    forms = {token.encode("utf-8", "surrogatepass"), json.dumps(token).encode()[1:-1], json.dumps(token, ensure_ascii=False).encode("utf-8", "surrogatepass")[1:-1]}
    for f in forms:
        if f and f in obs["content"]:
            return "body"
    for k, v in obs["headers"].items():
        if token in v:
            return f"header:{k}"
    if token in obs["status_line"]:
        return "status-line"
    return None


def run_case(ctx: Any, rig: Rig, st: State, app: str, caller: dict[str, Any], body: dict[str, Any], outcome: dict[str, Any],
             ctype: str | None = "application/json", seq: dict[str, Any] | None = None,
             conf: dict[str, Any] | None = None) -> dict[str, Any] | None:
    """One request.  `seq` = {"client", "now", "case"}: the request is one step of a history against one resource instance
    (app == "seq"); the case reported on failure is the history up to and including this step; K is done per history.
    `conf` = {"client", "allow"}: the request goes to an app built with that *configured* allow-list (app == "cfg")."""
    allow_cfg = ALLOW if conf is None else conf["allow"]
    raw = body["raw"]
    idx = next((i for i, b in enumerate(BODIES) if b is body), None)
    case = {"app": app, "caller": caller, "body_index": idx, "body_hex": raw.hex() if idx is None else None, "body_cls": body["cls"],
            "body_preview": raw[:80].decode("latin-1"), "outcome": _outcome_case(outcome), "ctype": ctype}
    if seq is not None:
        case = seq["case"]
    if conf is not None:
        case["allow"] = list(allow_cfg)
    req, token = parse_body(raw, st.max_body)
    # the spec: authenticated, and the principal is a non-empty string that occurs, as written, among the configured names
    authorised = app != "noauth" and caller["mode"] == "auth" and bool(caller.get("principal")) and caller.get("principal") in allow_cfg
    unencodable = req["parsed"][0] == "object" and req["parsed"][1][0] == "unencodable"
    malformed = token is None or token == "" or len(token) > st.max_token or unencodable or req["content_length"] > st.max_body
    strict_jws = bool(token is not None and not malformed and _STRICT_JWS.match(token))
    nl_jws = bool(token is not None and not malformed and not strict_jws and token.endswith("\n") and _STRICT_JWS.match(token[:-1]))
    tags = (f"app:{app}", f"caller:{'authorised' if authorised else caller['mode']}", f"body:{body['cls']}",
            f"outcome:{outcome_key(outcome)}", "subject:" + ("malformed" if malformed else "jws" if strict_jws else "jws+newline" if nl_jws else "opaque"))
    if seq is None:
        ctx.case(case, nontrivial=authorised or not malformed, tags=tags)
        obs = rig.post(app if conf is None else conf["client"], caller, raw, outcome, ctype)
    else:
        ctx.tag(*tags)
        obs = rig.post(seq["client"], caller, raw, outcome, ctype, now_ticks=seq["now"])
        seq["obs"] = obs
        seq["req"] = req
    status = obs["status"]
    ctx.tag(f"status:{status}")

    # ---------------- O: the property on the implementation -----------------------------------------
    where = _echo(token, obs, outcome)
    if where:
        _fail(ctx, case, f"C36:subject-echoed:{where}:{status}", f"the subject credential occurs in the response ({where}, status {status})")
        return
    if app == "disabled":
        fp = _fingerprint(obs)
        if status != 404 or _json_or_none(obs["content"]) != {"error": "not_enabled"}:
            _fail(ctx, case, f"C36:disabled-not-definitive:{status}", f"worker without introspection answered {status} {obs['content'][:80]!r}")
            return
        if obs["calls"]:
            _fail(ctx, case, "C36:disabled-consulted-resolver", "resolver consulted although introspection is disabled")
            return
        if st.ref_disabled is None:
            st.ref_disabled = (fp, case)
        elif st.ref_disabled[0] != fp:
            _fail(ctx, case, "C36:disabled-not-uniform", f"not_enabled answers differ: {fp!r} vs {st.ref_disabled[0]!r}")
            return
    elif not authorised:
        # on every live app, whatever its rate limit and whatever was sent before: the allow-list guard comes first
        if status != 403:
            hist = "" if seq is None else f" (request {seq['index'] + 1} of a history, limit {seq['limit']}/s)"
            _fail(ctx, case, f"C36:caller-not-refused:{caller['mode']}:{status}" + ("" if seq is None else ":after-history"),
                  f"caller outside the allow-list got {status} {obs['content'][:80]!r}{hist}")
            return
        if obs["calls"]:
            _fail(ctx, case, "C36:resolver-consulted-for-refused-caller", f"resolver consulted ({len(obs['calls'])}x) for a caller outside the allow-list")
            return
    elif status == 429 and app in ("limited", "seq"):
        # the per-caller limit (429 for an *authorised* caller over its budget) is outside the property: K only;
        # still, nothing may have been read or resolved
        if obs["calls"]:
            _fail(ctx, case, "C36:resolver-consulted-for-rate-limited-caller", "resolver consulted for a request answered 429")
            return
    else:
        kind = outcome["kind"]
        consulted = len(obs["calls"])
        if consulted > 1 or (consulted == 1 and obs["calls"][0] != token):
            _fail(ctx, case, "C36:resolver-call-shape", f"resolver called {consulted}x with {obs['calls']!r} for subject {token!r}")
            return
        expect404 = malformed or strict_jws or (not consulted and nl_jws) or (consulted and kind == "none")
        if (malformed or strict_jws) and consulted:
            _fail(ctx, case, f"C36:resolver-consulted:{'malformed' if malformed else 'jws'}", "resolver consulted for a malformed / JWS-shaped subject")
            return
        if not malformed and not strict_jws and not nl_jws and not consulted:
            _fail(ctx, case, f"C36:opaque-subject-not-resolved:{status}", f"well-formed non-JWS subject {token!r} never reached the resolver (status {status})")
            return
        if expect404:
            fp = _fingerprint(obs)
            if status != 404:
                cls = "malformed:" + body["cls"] if malformed else "jws" if (strict_jws or nl_jws) else "unknown"
                _fail(ctx, case, f"C36:not-404:{cls}:{status}", f"{cls} subject answered {status} {obs['content'][:80]!r} instead of the uniform 404")
                return
            ref = st.ref404.setdefault(app, (fp, case))
            if ref[0] != fp:
                _fail(ctx, case, "C36:404-not-uniform", f"404 responses differ: {fp!r} vs {ref[0]!r} (first seen for {ref[1]['body_cls']})")
                return
        elif kind == "unavailable":
            if status != 503 or obs["headers"].get("retry-after") != str(outcome["retry_after"]):
                _fail(ctx, case, f"C36:outage-not-503:{status}", f"resolver outage answered {status} retry-after={obs['headers'].get('retry-after')!r}")
                return
        elif kind == "identity":
            ttl = outcome["ttl"]
            good = spec_finite_positive(ttl)
            if status == 200:
                try:
                    doc = json.loads(obs["content"], parse_constant=lambda c: (_ for _ in ()).throw(ValueError(c)))
                except ValueError:
                    doc = None
                if not good or doc is None:
                    _fail(ctx, case, f"C36:ttl-not-finite-positive:{ttl_class(ttl)}", f"200 with ttl_seconds = {ttl!r}: body {obs['content'][:120]!r}")
                    return
                if not isinstance(doc, dict) or set(doc) != set(st.success_keys) or set(doc) != {"principal", "token_name", "ttl_seconds"}:
                    _fail(ctx, case, "C36:success-body-keys", f"success body keys {sorted(doc) if isinstance(doc, dict) else type(doc)}")
                    return
                if doc["principal"] != outcome["p"] or doc["token_name"] != outcome["n"] or doc["ttl_seconds"] != ttl \
                        or isinstance(doc["ttl_seconds"], bool):
                    _fail(ctx, case, "C36:success-body-values", f"success body {doc!r} does not carry the resolver's identity")
                    return
            elif good:
                _fail(ctx, case, f"C36:resolved-not-200:{status}", f"resolved subject with ttl {ttl!r} answered {status} {obs['content'][:80]!r}")
                return
            # an unusable ttl answered with anything but 200 is acceptable to the property
        elif kind == "raises":
            if status == 200:
                _fail(ctx, case, "C36:resolver-error-answered-200", "resolver raised but the endpoint answered 200")
                return

    # ---------------- K: model vs implementation (batched; see State.flush) -----------------------------
    if seq is not None:
        return obs
    if ctx.driver is not None:
        st.pending.append((case, {
            "cfg": {"allow": [s2j(a) for a in allow_cfg], "limiter": app != "limited"},
            "caller": caller_wire(app, caller),
            "req": req,
            "outcome": outcome_wire(rig, outcome),
            "enabled": app != "disabled",
        }, canon_impl(obs, st.success_keys)))
        if len(st.pending) >= 4000:
            st.flush(ctx)
    return obs


def _json_or_none(b: bytes) -> Any:
    try:
        return json.loads(b)
    except ValueError:
        return None


def _outcome_case(o: dict[str, Any]) -> dict[str, Any]:
    if o["kind"] != "identity":
        return o
    t = o["ttl"]
    enc: Any = {"float": repr(t)} if isinstance(t, float) else {"int": str(t)} if isinstance(t, int) and not isinstance(t, bool) else {"json": t}
    return {**o, "ttl": enc}


def _outcome_uncase(o: dict[str, Any]) -> dict[str, Any]:
    if o["kind"] != "identity":
        return o
    t = o["ttl"]
    v = float(t["float"]) if "float" in t else int(t["int"]) if "int" in t else t["json"]
    return {**o, "ttl": v}


# ------------------------------------------------------------------------------------------ configured allow-list x caller grid

ALLOW_SHAPES: list[list[str] | None] = [
    "proxy@example.com,".split(","),                    # trailing comma -> a blank entry
    ["proxy@example.com", " "],                         # whitespace-only entry
    ["", "proxy@example.com", "proxy@example.com"],     # leading blank + duplicate
    [" proxy@example.com ", "other@example.com"],       # padded entry: names the padded string, nothing else
    ["\t", "svc-ß", "  ", ""],
    [" "],                                              # the only name is one space
    ["proxy@example.com", "Proxy@Example.com", "proxy@example.com\n"],
    ["", ""],                                           # names nobody -> refused at construction
    [],
    None,
]
CFG_CALLERS: list[dict[str, Any]] = [
    {"mode": "anon"},
    {"mode": "auth", "principal": None},                # authenticated without a principal (API key / mTLS / address allow-list)
    {"mode": "auth", "principal": ""},
    {"mode": "auth", "principal": " "},
    {"mode": "auth", "principal": "\t"},
    {"mode": "auth", "principal": "  "},
    {"mode": "auth", "principal": "proxy@example.com"},
    {"mode": "auth", "principal": " proxy@example.com "},
    {"mode": "auth", "principal": "proxy@example.com "},
    {"mode": "auth", "principal": "other@example.com"},
    {"mode": "auth", "principal": "svc-ß"},
    {"mode": "auth", "principal": "mallory@example.com"},
    {"mode": "unauth", "principal": "proxy@example.com"},
    {"mode": "unauth", "principal": ""},
    {"mode": "unauth", "principal": None},
]


def gen_allow(rng: Any) -> list[str]:
    names = ["proxy@example.com", "other@example.com", "svc-ß", "a"]
    blanks = ["", " ", "  ", "\t", "\n", "\u00a0", "\u3000"]
    out: list[str] = []
    for _ in range(rng.randint(1, 5)):
        r = rng.random()
        if r < 0.4:
            out.append(rng.choice(names))
        elif r < 0.7:
            out.append(rng.choice(blanks))
        else:
            out.append(rng.choice(blanks[1:]) * rng.randint(0, 1) + rng.choice(names) + rng.choice(blanks[1:]) * rng.randint(0, 1))
    return out


def run_config(ctx: Any, rig: Rig, st: State, allow: list[str] | None, callers: list[dict[str, Any]], bodies: list[dict[str, Any]],
               outcomes: list[dict[str, Any]]) -> None:
    """One *configuration* (`introspect_principals` as the operator wrote it) x callers x bodies x outcomes."""
    entries = list(allow or [])
    base = {"app": "cfg", "allow": allow}
    try:
        client = rig.fresh_app(10**9, allow)
        built = True
    except ValueError:
        client, built = None, False
    ctx.case({**base, "construct": True}, nontrivial=True, tags=("k:configure", f"configure:{'ok' if built else 'refused'}"))
    if ctx.driver is not None:
        m = ctx.driver.call("C36.configure", {"allow": [s2j(a) for a in entries]})
        if (m is not None) != built:
            ctx.mismatch({**base, "construct": True}, "built" if m is not None else "ValueError", "built" if built else "ValueError",
                         "_normalise_principals: accepted / refused at construction, model vs implementation")
    if not built:
        if any(entries) :
            _fail(ctx, {**base, "construct": True}, "C36:allowlist-refused-at-construction", f"allow-list {allow!r} names a principal but was refused")
        return
    for c in callers:
        for b in bodies:
            for o in outcomes:
                run_case(ctx, rig, st, "cfg", c, b, o, conf={"client": client, "allow": entries})


# ------------------------------------------------------------------------------------------ histories on one resource instance

REFUSED = [c for c in CALLERS if not (c["mode"] == "auth" and (c.get("principal") or "") in ALLOW)]
ALLOWED = [c for c in CALLERS if c not in REFUSED]
DTS = [0, 0, 0, 1, 1, 5, 200, 512, 1023, 1024, 1025, 2500]        # ticks of 1/1024 s; the limiter window is 1024
LIMITS = [0, 1, 2, 3, 5, 20]                                       # 20 is make_wsgi_app's default


def _ev(dt: int, caller: dict[str, Any], body_index: int = 0, outcome: dict[str, Any] | None = None) -> dict[str, Any]:
    return {"dt": dt, "caller": caller, "body_index": body_index, "outcome": _outcome_case(outcome or OUTCOMES[0])}


MALLORY = {"mode": "auth", "principal": "mallory@example.com"}
PROXY = {"mode": "auth", "principal": "proxy@example.com"}
SEQ_CORPUS: list[dict[str, Any]] = [
    {"limit": 2, "start": 5000, "events": [_ev(0, MALLORY) for _ in range(5)]},
    {"limit": 20, "start": 5000, "events": [_ev(1 if i % 7 == 0 else 0, MALLORY) for i in range(30)]},      # default limit, burst of 30
    {"limit": 1, "start": 0, "events": [_ev(0, {"mode": "anon"}), _ev(0, {"mode": "anon"}), _ev(0, {"mode": "auth", "principal": ""}),
                                        _ev(0, {"mode": "auth", "principal": None})]},                  # all share the key ""
    {"limit": 2, "start": 7000, "events": [_ev(0, PROXY), _ev(0, PROXY), _ev(0, PROXY), _ev(0, MALLORY), _ev(0, MALLORY), _ev(0, MALLORY),
                                           _ev(1023, PROXY), _ev(1, PROXY), _ev(0, {"mode": "unauth", "principal": "proxy@example.com"})]},
    {"limit": 0, "start": 3, "events": [_ev(0, MALLORY), _ev(0, PROXY), _ev(2048, {"mode": "anon"})]},
    {"limit": 3, "start": 100, "events": [_ev(0, {"mode": "unauth", "principal": "proxy@example.com"}) for _ in range(5)] + [_ev(0, PROXY)] * 4},
]


def gen_history(rng: Any) -> dict[str, Any]:
    limit = rng.choice(LIMITS)
    start = rng.choice([0, 100, 1023, 5000, 123456])
    shape = rng.choice(["burst-refused", "burst-refused", "mixed", "mixed", "fill-then-edge", "refused-then-allowed"])
    good_bodies = [i for i, b in enumerate(BODIES) if b["cls"] == "opaque"][:4]
    any_body = lambda: rng.choice(good_bodies) if rng.random() < 0.75 else rng.randrange(len(BODIES))  # noqa: E731
    any_out = lambda: OUTCOMES[0] if rng.random() < 0.6 else rng.choice(OUTCOMES)  # noqa: E731
    evs: list[dict[str, Any]] = []
    if shape == "burst-refused":
        who = rng.choice(REFUSED)
        for _ in range(limit + rng.randint(1, 12)):
            evs.append(_ev(rng.choice([0, 0, 0, 1, 3]), who, any_body(), any_out()))
        if rng.random() < 0.5:
            evs.append(_ev(rng.choice(DTS), rng.choice(ALLOWED), any_body(), any_out()))
            evs.append(_ev(0, who, any_body(), any_out()))
    elif shape == "mixed":
        pool = ALLOWED + rng.sample(REFUSED, 3)
        for _ in range(rng.randint(3, 2 * limit + 14)):
            evs.append(_ev(rng.choice(DTS), rng.choice(pool), any_body(), any_out()))
    elif shape == "fill-then-edge":
        who = rng.choice(ALLOWED)
        other = rng.choice(REFUSED)
        for _ in range(limit + 1):
            evs.append(_ev(0, who, any_body(), any_out()))
        evs.append(_ev(0, other, any_body(), any_out()))
        evs.append(_ev(rng.choice([1022, 1023, 1024]), who, any_body(), any_out()))
        evs.append(_ev(rng.choice([0, 1, 2]), who, any_body(), any_out()))
        evs.append(_ev(0, other, any_body(), any_out()))
    else:
        other = rng.choice(REFUSED)
        for _ in range(limit + rng.randint(1, 6)):
            evs.append(_ev(0, other, any_body(), any_out()))
        who = rng.choice(ALLOWED)
        for _ in range(limit + 2):
            evs.append(_ev(rng.choice([0, 0, 1]), who, any_body(), any_out()))
    return {"limit": limit, "start": start, "events": evs, "shape": shape}


def run_history(ctx: Any, rig: Rig, st: State, hist: dict[str, Any]) -> None:
    """A history of requests against ONE fresh resource instance under a controlled monotonic clock.
    O per request (a refused caller's 403 must not depend on what was sent before); K on the whole history vs `C36.serve_seq`."""
    limit, now = hist["limit"], hist["start"]
    client = rig.fresh_app(limit)
    events = hist["events"]
    base = {"app": "seq", "limit": limit, "start": hist["start"]}
    ctx.case({**base, "events": events}, nontrivial=True,
             tags=("k:history", f"history:limit={limit}", f"history:shape={hist.get('shape', 'corpus')}", f"history:len={min(len(events) // 10 * 10, 40)}+"))
    wire, got = [], []
    for i, ev in enumerate(events):
        now += ev["dt"]
        body = BODIES[ev["body_index"]] if ev.get("body_index") is not None else {"cls": ev.get("body_cls", "random"), "raw": bytes.fromhex(ev["body_hex"])}
        outcome = _outcome_uncase(ev["outcome"])
        seq = {"client": client, "now": now, "index": i, "limit": limit, "case": {**base, "events": events[: i + 1]}}
        run_case(ctx, rig, st, "seq", ev["caller"], body, outcome, seq=seq)
        wire.append({"now": now, "caller": caller_wire("seq", ev["caller"]), "req": seq["req"], "outcome": outcome_wire(rig, outcome)})
        got.append(canon_impl(seq["obs"], st.success_keys))
    rig.box["now_ticks"] = None
    if ctx.driver is not None:
        st.pending_seq.append(({**base, "events": events}, {"allow": [s2j(a) for a in ALLOW], "per_window": limit, "events": wire}, got))


# ------------------------------------------------------------------------------------------ jws regex neighbourhood (K)


def gen_jws_neighbour(rng: Any) -> str:
    alpha = "abcXYZ019_-"
    segs = ["".join(rng.choice(alpha) for _ in range(rng.choice([0, 1, 1, 2, 5]))) for _ in range(rng.choice([2, 3, 3, 3, 4]))]
    s = ".".join(segs)
    for _ in range(rng.choice([0, 0, 1, 1, 2])):
        pos = rng.randrange(len(s) + 1)
        ch = rng.choice([".", "\n", " ", "=", "+", "/", "é", "٣", "\x00", "\r", "a", "_", "-", "..", "\n\n", "\x0b", " "])
        if rng.random() < 0.6:
            s = s[:pos] + ch + s[pos:]
        elif s:
            pos = min(pos, len(s) - 1)
            s = s[:pos] + s[pos + 1:]
    return s


def k_jws(ctx: Any, strings: list[str]) -> None:
    from vgi_rpc.http.server._introspect import _JWS_SHAPED

    if ctx.driver is None:
        return
    res = ctx.driver.batch([("C36.jws", {"s": s2j(s)}) for s in strings])
    for s, m in zip(strings, res):
        impl = _JWS_SHAPED.match(s) is not None
        case = {"jws": s}
        ctx.case(case, nontrivial=True, tags=("k:jws", f"jws:{int(impl)}"))
        if m != impl:
            ctx.mismatch(case, m, impl, "_JWS_SHAPED.match: model vs implementation")
        if _STRICT_JWS.match(s) and not impl:
            _fail(ctx, case, "C36:jws-shape-missed", f"{s!r} is three base64url segments but the endpoint's shape test does not match it")


# ------------------------------------------------------------------------------------------ run / replay


def run(ctx: Any) -> None:
    _FAIL_SEEN.clear()
    rng = ctx.rng
    full = ctx.tier == "thorough" or ctx.deep
    rig = Rig()
    st = State()
    try:
        if ctx.driver is not None:
            k = ctx.driver.call("C36.constants", {})
            st.max_body, st.max_token, st.success_keys = k["max_body"], k["max_token"], k["success_keys"]
            ctx.note("source_fingerprint", k["fingerprint"])
        ctx.note("body_read_observable", rig.snap_ok)
        strings = list(OPAQUE[:3]) + JWS + JWS_NL + NEAR_JWS + [gen_jws_neighbour(rng) for _ in range(ctx.budget(3000, 100000))]
        k_jws(ctx, strings)

        authorised = [c for c in CALLERS if c["mode"] == "auth" and (c.get("principal") or "") in ALLOW]
        others = [c for c in CALLERS if c not in authorised]
        valid = [b for b in BODIES if b["cls"] in ("opaque", "near-jws")]
        refusing = [b for b in BODIES if b not in valid]
        n = 0
        # authorised callers x valid subjects x every outcome: always the full product
        for c in authorised:
            for b in valid:
                for o in OUTCOMES:
                    run_case(ctx, rig, st, "enabled", c, b, o)
                    n += 1
        # authorised callers x refusing bodies: the outcome must not matter -> all outcomes in thorough, a rotating sample in quick
        for c in authorised:
            for i, b in enumerate(refusing):
                outs = OUTCOMES if full else [OUTCOMES[(i * 5 + j * 7) % len(OUTCOMES)] for j in range(4)]
                for o in outs:
                    run_case(ctx, rig, st, "enabled", c, b, o)
        # callers outside the allow-list: nothing may matter
        for ci, c in enumerate(others):
            for i, b in enumerate(BODIES):
                outs = OUTCOMES if full else [OUTCOMES[(i * 3 + ci + j * 11) % len(OUTCOMES)] for j in range(2)]
                for o in outs:
                    run_case(ctx, rig, st, "enabled", c, b, o)
        # no authenticator configured: every caller is anonymous
        for i, b in enumerate(BODIES):
            run_case(ctx, rig, st, "noauth", CALLERS[1], b, OUTCOMES[i % len(OUTCOMES)])
        # a worker without introspection
        for ci, c in enumerate(CALLERS):
            for i, b in enumerate(BODIES):
                if full or (i + ci) % 3 == 0:
                    run_case(ctx, rig, st, "disabled", c, b, OUTCOMES[(i + ci) % len(OUTCOMES)])
        # the limiter's position (K only)
        for c in CALLERS:
            for b in (BODIES[0], BODIES[8], BODIES[-1]):
                run_case(ctx, rig, st, "limited", c, b, OUTCOMES[0])
        # configurations: blank / whitespace-only / duplicate / padded allow-list entries x callers with "", None, blank principals
        cfg_bodies = [BODIES[0], next(b for b in BODIES if b["cls"] == "jws"), next(b for b in BODIES if b["cls"] == "missing")]
        cfg_outs = [OUTCOMES[0], next(o for o in OUTCOMES if o["kind"] == "none"), next(o for o in OUTCOMES if o["kind"] == "unavailable")]
        for al in ALLOW_SHAPES:
            run_config(ctx, rig, st, al, CFG_CALLERS, cfg_bodies if full else cfg_bodies[:2], cfg_outs if full else cfg_outs[:2])
        for _ in range(ctx.budget(25, 600)):
            al = gen_allow(rng)
            extra = [{"mode": "auth", "principal": e} for e in al] + [{"mode": "auth", "principal": e.strip()} for e in al]
            run_config(ctx, rig, st, al, rng.sample(CFG_CALLERS, 5) + extra, cfg_bodies[:1], cfg_outs[:1])
        # histories: bursts / interleavings on one resource instance under a controlled clock
        for h in SEQ_CORPUS:
            run_history(ctx, rig, st, h)
        for _ in range(ctx.budget(120, 2500)):
            run_history(ctx, rig, st, gen_history(rng))
        # content types do not matter to the endpoint
        for ct in (None, "text/plain", "application/vnd.apache.arrow.stream", "application/json; charset=utf-8"):
            for b in (BODIES[0], BODIES[9], BODIES[-2]):
                run_case(ctx, rig, st, "enabled", authorised[0], b, OUTCOMES[0], ctype=ct)
                run_case(ctx, rig, st, "disabled", authorised[0], b, OUTCOMES[0], ctype=ct)
        # random opaque / near-JWS subjects x random outcomes
        for _ in range(ctx.budget(600, 20000)):
            t = gen_jws_neighbour(rng) if rng.random() < 0.7 else "tok-" + "".join(rng.choice("abcdef0123456789._-\n") for _ in range(rng.randint(3, 40)))
            b = {"cls": "random", "raw": _tok(t)}
            run_case(ctx, rig, st, "enabled", rng.choice(authorised), b, rng.choice(OUTCOMES))
        st.flush(ctx)
        ctx.exhaustive = full
        ctx.note("table", {"callers": len(CALLERS), "bodies": len(BODIES), "outcomes": len(OUTCOMES), "full_product": full})
    finally:
        rig.close()


def replay(ctx: Any, case: dict[str, Any]) -> None:
    if "jws" in case:
        k_jws(ctx, [case["jws"]])
        return
    if case.get("app") == "cfg":
        rig = Rig()
        st = State()
        try:
            if ctx.driver is not None:
                k = ctx.driver.call("C36.constants", {})
                st.max_body, st.max_token, st.success_keys = k["max_body"], k["max_token"], k["success_keys"]
            if case.get("construct"):
                run_config(ctx, rig, st, case["allow"], [], [], [])
            else:
                body = BODIES[case["body_index"]] if case.get("body_index") is not None else {"cls": case["body_cls"], "raw": bytes.fromhex(case["body_hex"])}
                client = rig.fresh_app(10**9, case["allow"])
                run_case(ctx, rig, st, "cfg", case["caller"], body, _outcome_uncase(case["outcome"]), case.get("ctype", "application/json"),
                         conf={"client": client, "allow": list(case["allow"] or [])})
            st.flush(ctx)
        finally:
            rig.close()
        return
    if case.get("app") == "seq":
        rig = Rig()
        st = State()
        try:
            if ctx.driver is not None:
                k = ctx.driver.call("C36.constants", {})
                st.max_body, st.max_token, st.success_keys = k["max_body"], k["max_token"], k["success_keys"]
            run_history(ctx, rig, st, case)
            st.flush(ctx)
        finally:
            rig.close()
        return
    rig = Rig()
    st = State()
    try:
        if ctx.driver is not None:
            k = ctx.driver.call("C36.constants", {})
            st.max_body, st.max_token, st.success_keys = k["max_body"], k["max_token"], k["success_keys"]
        authorised = {"mode": "auth", "principal": ALLOW[0]}
        if case["app"] == "enabled":
            # establish the reference 404 (unknown subject) so that a non-uniform 404 replays as such
            run_case(ctx, rig, st, "enabled", authorised, {"cls": "opaque", "raw": _tok("tok-OPAQUE-reference")}, {"kind": "none"})
        if case["app"] == "disabled":
            run_case(ctx, rig, st, "disabled", authorised, {"cls": "opaque", "raw": _tok("tok-OPAQUE-reference")}, {"kind": "none"})
        body = BODIES[case["body_index"]] if case.get("body_index") is not None else {"cls": case["body_cls"], "raw": bytes.fromhex(case["body_hex"])}
        run_case(ctx, rig, st, case["app"], case["caller"], body, _outcome_uncase(case["outcome"]), case.get("ctype", "application/json"))
        st.flush(ctx)
    finally:
        rig.close()
