"""C06 — methods run only with contract-conforming arguments.

Generated typed signatures (0-5 parameters from int/float/str/bytes/bool/enum/list/dict/frozenset/dataclass, optional or
not, with or without defaults; unary and stream; with and without an injected ``ctx``) are served by a real ``RpcServer``
whose implementation logs every invocation.  Requests are raw Arrow IPC streams: valid ones (framed by the real client
path, which merges defaults) and perturbations of them (rename / reorder / add / drop / retype incl. compatible widenings /
nullability flips / nulls in every position / unknown enum members / undecodable values / row counts), sent to the four
dispatch sites: pipe unary, pipe stream (``serve_one``), HTTP unary, HTTP stream ``/init``.  On the pipe every request is
also sent through the shared-memory side channel: a zero-row pointer batch (showing the declared schema, or the batch's
own) on the pipe, the real single-row batch in the segment — validation must look at the batch the kwargs come from.

The oracle and the model both look at the **bytes that were sent** (the request is re-parsed with pyarrow), never at the
generator's intent.

O (property, from its text):  invoked ⇒ the request's columns equal the declared names, order, Arrow types and
   nullability and every non-optional parameter is non-null (and the kwargs received are the decoded values);
   not conforming ⇒ not invoked and answered HTTP 400 (no X-VGI-RPC-Error) / a complete error stream on the pipe with
   nothing escaping; a valid request IS invoked; a method that raises ⇒ invoked once and answered 200 + X-VGI-RPC-Error
   (HTTP) / an error batch carrying the method's exception (pipe) — never 400.
K (model):  `C06.serve` of the Lean model = the observed (invoked kwargs, wire outcome, exception class, refusing check).
"""

import ast
import io
import re
from typing import Any

import pyarrow as pa

from harness.common import rpcutil
from harness.common import siggen as sg
from harness.common.lean import s2j

PROPERTY = "C06"
LEAN_MODULES = ["VgiVerif.Proofs.C06"]
OBLIGATIONS = [
    "VgiVerif.C06.shapes_recognised",
    "VgiVerif.C06.C06_sound",
    "VgiVerif.C06.C06_complete",
    "VgiVerif.C06.C06_invoked_iff",
    "VgiVerif.C06.C06_rejected_before",
    "VgiVerif.C06.C06_method_errors_not_request_errors",
    "VgiVerif.C06.C06",
]
TRUSTED = [
    "pyarrow: IPC framing, DataType.__eq__ (mirrored by the canonical type descriptor and compared on every run), as_py()",
    "Python dict()/frozenset() and ArrowSerializableDataclass deserialisation: their outcome on a value is an input of the model",
    "Falcon routing / falcon.testing; the version gate itself is C09's model (only pass/refuse is used here)",
    "metadata checks of _read_request (method / request_version keys) and the mechanics of pointer resolution (allocator, "
    "region framing, fetch) are not modelled: a pointer request is its pointer schema + the batch it resolves to",
]
RULE = (
    "signatures: hand-written corpus + random (0-5 params over 11 python types, optional / defaulted / keyword-only, "
    "unary+stream, ctx or not, optional protocol_version); per signature: client-framed valid requests (defaults omitted at "
    "random) and every single perturbation of a valid raw request from the catalogue (rename, swap/rotate/reverse, add, "
    "drop, retype table per type incl. widenings / dictionary / view / run-end encodings and values without a Python "
    "counterpart or failing IPC validation, nullability flip, field metadata, null per position, enum/dataclass/utf8 value "
    "corruption, rows 0/2/3, URL/IPC name mismatch, version mismatch) plus random pairs; x 2 sites per method kind "
    "(all four sites: pipe unary, pipe stream, HTTP unary, HTTP /init); every pipe request additionally routed through the "
    "shared-memory side channel (ShmPipeTransport) as a zero-row pointer batch showing the declared schema / the batch's own "
    "schema while the region holds the perturbed batch; pairs of services in one process that share method and parameter "
    "names but differ in optionality / types / defaults, each explored after one valid call per site on the other (both "
    "orders, fresh names per order); a case is distinct by "
    "(signature, site, request bytes) and non-trivial when the signature has at least one parameter or the method raises"
)
PARTIAL = [
    "requests routed through an external location are modelled (pointer -> resolved batch) but not generated: the fetch refuses "
    "a resolved batch whose schema differs from the pointer's, so only the shared-memory route can make the two differ; "
    "invalid pointers (bad offset/length, undecodable region) and the metadata checks of _read_request are outside the model",
]
MANIFEST = {
    "level": "proof",
    "text": "Lean theorems for ALL declared signatures and ALL requests: validation accepts exactly the conforming, "
            "convertible requests (soundness + completeness), the method is invoked iff gate, name check and validation pass "
            "at each of the four dispatch sites (steps and except->status tables extracted from the source), refusals are 400 / "
            "error stream and method exceptions are 200+marker / method error; generated-signature differential run of model "
            "and real server on the bytes actually sent",
    "note": "Arrow type identity, as_py() and the per-value conversions are abstracted and compared differentially",
    "technique": "Lean 4 proof over extracted step order and handler tables + typed-signature perturbation correspondence",
}

H_ARROW = {"Content-Type": "application/vnd.apache.arrow.stream"}

# ------------------------------------------------------------------------------------------ signatures

TYPES = ["int", "float", "str", "bytes", "bool", "enum", "list_int", "list_str", "dict_str_int", "fset_int", "dc"]
NAMES = ["a", "b", "n", "x_1", "value", "ctx_", "Name", "é", "self_", "p0", "p1", "kw", "_u", "items"]


def gen_value(rng: Any, ty: str) -> Any:
    if ty == "int":
        return rng.choice([0, 1, -1, 7, 2**31, -(2**63), 2**63 - 1])
    if ty == "float":
        return rng.choice([0.0, 1.5, -2.25, 1e300, float("inf")])
    if ty == "str":
        return rng.choice(["", "x", "héllo", "RED", "a" * 40])
    if ty == "bytes":
        return rng.choice([b"", b"\x00\xff", b"abc"])
    if ty == "bool":
        return rng.choice([True, False])
    if ty == "enum":
        return rng.choice(list(sg.Color))
    if ty == "list_int":
        return rng.choice([[], [1], [1, 2, 3]])
    if ty == "list_str":
        return rng.choice([[], ["a"], ["ab", ""]])
    if ty == "dict_str_int":
        return rng.choice([{}, {"k": 1}, {"a": 1, "b": 2}])
    if ty == "fset_int":
        return rng.choice([frozenset(), frozenset({3}), frozenset({1, 2})])
    if ty == "dc":
        return sg.Pt(rng.choice([0, 5, -9]), rng.choice(["", "q"]))
    raise ValueError(ty)


def gen_method(rng: Any, name: str, kind: str, nparams: int | None = None) -> dict[str, Any]:
    n = rng.choice([0, 1, 1, 2, 2, 3, 4, 5]) if nparams is None else nparams
    names = rng.sample(NAMES, n)
    params = []
    for nm in names:
        ty = rng.choice(TYPES)
        p: dict[str, Any] = {"name": nm, "ty": ty, "opt": rng.random() < 0.35}
        r = rng.random()
        if r < 0.3:
            p["default"] = sg.enc_val(None) if (p["opt"] and rng.random() < 0.5) else sg.enc_val(gen_value(rng, ty))
        params.append(p)
    behave: Any = "ok"
    if rng.random() < 0.25:
        behave = {"raise": rng.choice(sorted(sg.method_exceptions()))}
    return {"name": name, "kind": kind, "ctx": rng.random() < 0.4, "params": params, "behave": behave}


def _p(name: str, ty: str, opt: bool = False, **kw: Any) -> dict[str, Any]:
    d: dict[str, Any] = {"name": name, "ty": ty, "opt": opt}
    d.update(kw)
    return d


CORPUS_SIGS: list[list[dict[str, Any]]] = [
    [_p("a", "int")],
    [],
    [_p("a", "int"), _p("b", "int")],
    [_p("a", "int"), _p("e", "enum"), _p("o", "str", True, default=None), _p("l", "list_int"), _p("d", "dc")],
    [_p("s", "str", True), _p("e", "enum", True), _p("d", "dc", True), _p("m", "dict_str_int", True), _p("f", "fset_int", True)],
    [_p("x", "float", default={"f": (1.5).hex()}), _p("y", "bytes"), _p("z", "bool", default=True)],
    [_p("m", "dict_str_int"), _p("f", "fset_int"), _p("ls", "list_str")],
    [_p("ctx_", "int"), _p("kw", "str")],
]

# ------------------------------------------------------------------------------------------ perturbation catalogue


def _same(v: Any) -> Any:
    return v


RETYPE: dict[str, list[tuple[Any, Any]]] = {
    "int": [("int32", lambda v: v % 1000), ("int16", lambda v: v % 1000), ("uint64", lambda v: abs(v) % 1000), ("float64", float),
            ("string", str), (["ts", "s"], lambda v: v % 1000), (["ts", "s"], lambda v: 2**62), (["dur", "s"], lambda v: 2**62),
            ("date64", lambda v: 2**62), ("bool", bool), ("null", lambda v: None), (["dict", "int32", "int64"], _same),
            (["ree", "int32", "int64"], _same), (["decimal", 20, 0], lambda v: __import__("decimal").Decimal(v % 1000)),
            (["ts", "s", "Not/AZone"], lambda v: 0)],
    "float": [("float32", lambda v: 1.5), ("int64", lambda v: 1), ("string", str), ("float16", lambda v: 1.5)],
    "str": [("large_string", _same), ("string_view", _same), ("binary", lambda v: v.encode()), (["dict", "int32", "string"], _same),
            (["dict", "int16", "string"], _same), ("int64", lambda v: 1)],
    "bytes": [("large_binary", _same), ("binary_view", _same), (["fsb", 2], lambda v: b"ab"), ("string", lambda v: "s")],
    "bool": [("int8", int), ("string", str), ("uint8", int)],
    "enum": [("string", _same), ("large_string", _same), (["dict", "int32", "string"], _same), (["dict", "int8", "string"], _same),
             (["dict", "int16", "string", True], _same), (["dict", "int16", "large_string"], _same), ("int64", lambda v: 1),
             (["dict", "uint16", "string"], _same), ("binary", lambda v: v.encode())],
    "list_int": [(["large_list", "int64"], _same), (["list", "int32"], lambda v: [x % 100 for x in v]), (["list", "int64", False], _same),
                 (["list", "int64", True, "element"], _same), (["fsl", "int64", 2], lambda v: [1, 2]), (["list", "string"], lambda v: ["q"]),
                 ("int64", lambda v: 3), (["list", ["list", "int64"]], lambda v: [[1]])],
    "list_str": [(["large_list", "string"], _same), (["list", "large_string"], _same), (["list", "string", False], _same),
                 (["list", "string", True, "element"], _same), ("string", lambda v: "q")],
    "dict_str_int": [(["map", "string", "int64", True], _same), (["map", "string", "int32"], _same), (["map", "large_string", "int64"], _same),
                     (["list", "int64"], lambda v: [1, 2]), (["list", ["list", "int64"]], lambda v: [[1, 2, 3]]),
                     (["list", "string"], lambda v: ["ab"]), (["list", ["list", "string"]], lambda v: [["a", "b"]])],
    "fset_int": [(["large_list", "int64"], _same), (["list", "int32"], lambda v: [x % 100 for x in v]), (["list", ["list", "int64"]], lambda v: [[1]]),
                 (["list", "int64", False], _same)],
    "dc": [("large_binary", _same), ("string", lambda v: "notbytes"), ("int64", lambda v: 1)],
}


def _nested(schema: pa.Schema, vals: list[Any], rows: int | None = 1) -> bytes:
    buf = io.BytesIO()
    with pa.ipc.new_stream(buf, schema) as w:
        if rows is not None:
            w.write_batch(pa.RecordBatch.from_arrays([pa.array([v] * rows, type=f.type) for v, f in zip(vals, schema)], schema=schema))
    return buf.getvalue()


def value_corruptions(ty: str) -> list[tuple[str, Any]]:
    """(label, wire value) that keep the column's Arrow type but are not a value of the declared python type."""
    if ty == "str":
        return [("str-bad-utf8", {"raw": "ff"})]
    if ty == "enum":
        return [("enum-unknown", "PURPLE"), ("enum-case", "red"), ("enum-empty", ""), ("enum-value", "1"), ("enum-dunder", "__class__"),
                ("enum-alias", "name")]
    if ty == "dc":
        return [
            ("dc-garbage", b"\x00\xff"), ("dc-empty", b""), ("dc-other", sg.Other(1.5).serialize_to_bytes()),
            ("dc-nobatch", _nested(pa.schema([("x", pa.int64()), ("y", pa.string())]), [1, "q"], None)),
            ("dc-2rows", _nested(pa.schema([("x", pa.int64()), ("y", pa.string())]), [1, "q"], 2)),
            ("dc-ts-overflow", _nested(pa.schema([("x", pa.timestamp("s")), ("y", pa.string())]), [2**62, "q"])),
        ]
    return []


def col_of(p: dict[str, Any], v: Any) -> dict[str, Any]:
    return {"name": p["name"], "ty": sg.DECLARED_ARROW[p["ty"]], "nullable": bool(p["opt"]), "val": sg.enc_wire(sg.wire_value(p["ty"], v))}


def valid_cols(rng: Any, m: dict[str, Any]) -> list[dict[str, Any]]:
    cols = []
    for p in m["params"]:
        v = None if (p["opt"] and rng.random() < 0.4) else gen_value(rng, p["ty"])
        cols.append(col_of(p, v))
    return cols


def perturbations(rng: Any, m: dict[str, Any], cols: list[dict[str, Any]]) -> list[tuple[str, list[dict[str, Any]], int]]:
    """Every single perturbation of a valid column list: (label, cols, rows)."""
    import copy

    out: list[tuple[str, list[dict[str, Any]], int]] = []
    ps = m["params"]
    n = len(cols)

    def cp() -> list[dict[str, Any]]:
        return copy.deepcopy(cols)

    extra_names = ["zz", "ctx", "self", "A", ""] + ([ps[0]["name"]] if ps else [])
    for i in range(n):
        for new in ["zz", "ctx", cols[i]["name"].upper() if cols[i]["name"].upper() != cols[i]["name"] else cols[i]["name"] + "_",
                    cols[(i + 1) % n]["name"] if n > 1 else "dup", cols[i]["name"] + " "]:
            if new != cols[i]["name"]:
                c = cp()
                c[i]["name"] = new
                out.append((f"rename:{i}", c, 1))
        c = cp()
        del c[i]
        out.append((f"drop:{i}:{'default' if 'default' in ps[i] else 'opt' if ps[i]['opt'] else 'req'}", c, 1))
        c = cp()
        c[i]["nullable"] = not c[i]["nullable"]
        out.append((f"nullflip:{i}", c, 1))
        c = cp()
        c[i]["meta"] = True
        out.append((f"fieldmeta:{i}", c, 1))
        c = cp()
        c[i]["val"] = None
        out.append((f"null:{i}:{'opt' if ps[i]['opt'] else 'req'}", c, 1))
        c = cp()
        c[i]["val"] = None
        c[i]["nullable"] = True
        out.append((f"null+nullable:{i}", c, 1))
        for t, f in RETYPE[ps[i]["ty"]]:
            c = cp()
            c[i]["ty"] = t
            if isinstance(c[i]["val"], dict) and "raw" in c[i]["val"]:
                continue  # a hand-made buffer: keep it on its own column type
            old = sg.dec_wire(c[i]["val"])
            if old is None and t != "null":
                c[i]["val"] = None
            else:
                try:
                    c[i]["val"] = sg.enc_wire(f(old if old is not None else sg.wire_value(ps[i]["ty"], gen_value(rng, ps[i]["ty"]))))
                except Exception:
                    continue
            out.append((f"retype:{ps[i]['ty']}->{t if isinstance(t, str) else '_'.join(map(str, t))}", c, 1))
        for label, wv in value_corruptions(ps[i]["ty"]):
            c = cp()
            c[i]["val"] = wv if isinstance(wv, dict) else sg.enc_wire(wv)
            out.append((f"value:{label}", c, 1))
    for i in range(n - 1):
        c = cp()
        c[i], c[i + 1] = c[i + 1], c[i]
        out.append((f"swap:{i}", c, 1))
    if n > 2:
        out.append(("reverse", list(reversed(cp())), 1))
        out.append(("rotate", cp()[1:] + cp()[:1], 1))
    for pos in sorted({0, n // 2, n}):
        for nm in extra_names:
            for t, v in [("int64", 1), ("string", None)]:
                c = cp()
                c.insert(pos, {"name": nm, "ty": t, "nullable": v is None, "val": v})
                out.append((f"add:{nm or 'empty'}@{pos}", c, 1))
    out.append(("rows:0", cp(), 0))
    out.append(("rows:2", cp(), 2))
    out.append(("rows:3+drop-all", [], 3))
    return out


# ------------------------------------------------------------------------------------------ looking at the bytes


def parse_request(req: bytes) -> dict[str, Any]:
    """What was actually sent: fields, row count, the as_py() outcome per column (first row)."""
    r = pa.ipc.open_stream(io.BytesIO(req))
    batch, md = r.read_next_batch_with_custom_metadata()
    cols = []
    for i, f in enumerate(batch.schema):
        v: Any = None
        exc: BaseException | None = None
        if batch.num_rows >= 1:
            try:
                v = batch.column(i)[0].as_py()
            except Exception as e:  # noqa: BLE001
                exc = e
        cols.append({"name": f.name, "type": f.type, "nullable": f.nullable, "value": v, "exc": exc})
    mdd = dict(md) if md is not None else {}
    valid = True
    try:
        batch.validate(full=True)
    except pa.ArrowInvalid:
        valid = False
    return {"cols": cols, "rows": batch.num_rows, "valid": valid, "method": mdd.get(b"vgi_rpc.method", b"").decode("utf-8", "replace"),
            "version": mdd.get(b"vgi_rpc.protocol_version")}


def conforms(info: Any, parsed: dict[str, Any]) -> tuple[bool, str]:
    """The property's condition, on the request as sent vs the method's declared parameter schema."""
    decl = list(info.params_schema)
    cols = parsed["cols"]
    if not parsed["valid"]:
        return False, "invalid-batch"
    if [c["name"] for c in cols] != [f.name for f in decl]:
        return False, "names/order"
    for c, f in zip(cols, decl):
        if not c["type"].equals(f.type):
            return False, "type"
        if c["nullable"] != f.nullable:
            return False, "nullability"
    if cols and parsed["rows"] != 1:
        return False, "rows"
    for c, f in zip(cols, decl):
        if c["exc"] is not None:
            return False, "no-python-value"
        if not f.nullable and c["value"] is None:
            return False, "null-in-non-optional"
    return True, "conforms"


def values_valid(m: dict[str, Any], parsed: dict[str, Any]) -> tuple[bool, dict[str, Any]]:
    """For a conforming request: is every value one of the declared python type, and what must the method receive."""
    from vgi_rpc.rpc._wire import _deserialize_value

    expect: dict[str, Any] = {}
    for p, c in zip(m["params"], parsed["cols"]):
        v = c["value"]
        if v is None:
            expect[p["name"]] = None
        elif p["ty"] == "enum":
            if v not in sg.ENUM_MEMBERS:
                return False, {}
            expect[p["name"]] = sg.Color[v]
        elif p["ty"] == "dc":
            try:
                expect[p["name"]] = _deserialize_value(v, sg.Pt)
            except Exception:  # noqa: BLE001
                return False, {}
        elif p["ty"] == "dict_str_int":
            expect[p["name"]] = dict(v)
        elif p["ty"] == "fset_int":
            expect[p["name"]] = frozenset(v)
        else:
            expect[p["name"]] = v
    return True, expect


# ------------------------------------------------------------------------------------------ model inputs

_HCLS: dict[str, type] = {}


def hcls(ctx: Any) -> dict[str, type]:
    if not _HCLS and ctx.driver is not None:
        from extract.gen_c06 import _resolve

        for n in ctx.driver.call("C06.hcls", {}):
            _HCLS[n] = _resolve(n)
    return _HCLS


def exn_json(ctx: Any, e: BaseException) -> dict[str, Any]:
    return {"cls": s2j(type(e).__name__), "isa": [n for n, k in hcls(ctx).items() if isinstance(e, k)]}


def conv_json(ctx: Any, f: Any) -> Any:
    try:
        f()
    except Exception as e:  # noqa: BLE001
        return exn_json(ctx, e)
    return "ok"


def val_json(ctx: Any, c: dict[str, Any]) -> Any:
    from vgi_rpc.rpc._wire import _deserialize_value

    if c["exc"] is not None:
        return {"unreadable": exn_json(ctx, c["exc"])}
    v = c["value"]
    if v is None:
        return None
    if isinstance(v, str):
        return {"str": s2j(v)}
    if isinstance(v, bytes):
        return {"bytes": conv_json(ctx, lambda: _deserialize_value(v, sg.Pt))}
    if isinstance(v, list):
        return {"list": [conv_json(ctx, lambda: dict(v)), conv_json(ctx, lambda: frozenset(v))]}
    return "other"


KINDS = {"enum": None, "dict_str_int": "dict", "fset_int": "fset", "dc": "dataclass"}


def decl_json(m: dict[str, Any], info: Any) -> list[dict[str, Any]]:
    out = []
    for p, f in zip(m["params"], info.params_schema):
        assert f.name == p["name"]
        k: Any = KINDS.get(p["ty"], "plain")
        if p["ty"] == "enum":
            k = {"enum": [s2j(x) for x in sg.ENUM_MEMBERS]}
        out.append({"name": s2j(f.name), "ty": s2j(sg.type_canon(f.type)), "nullable": f.nullable,
                    "hasDefault": p["name"] in info.param_defaults, "kind": k})
    return out


def rq_json(ctx: Any, parsed: dict[str, Any]) -> dict[str, Any]:
    return {"cols": [{"name": s2j(c["name"]), "ty": s2j(sg.type_canon(c["type"])), "nullable": c["nullable"], "val": val_json(ctx, c)}
                     for c in parsed["cols"]], "rows": parsed["rows"], "ipcValid": parsed["valid"],
            "pointer": None if parsed.get("pointer") is None else
            [{"name": s2j(c["name"]), "ty": s2j(sg.type_canon(c["type"])), "nullable": c["nullable"], "val": None} for c in parsed["pointer"]]}


# ------------------------------------------------------------------------------------------ running the real code


class Service:
    def __init__(self, methods: list[dict[str, Any]], version: str | None) -> None:
        import falcon.testing

        from vgi_rpc.http import make_wsgi_app

        self.methods = {m["name"]: m for m in methods}
        self.version = version
        self.server = sg.make_server(methods, version)
        self.client = falcon.testing.TestClient(make_wsgi_app(self.server, token_key=b"k" * 32))


_MSG = [
    (re.compile(r"Invalid request batch: "), "invalidBatch"),
    (re.compile(r"Expected 1 row in request batch"), "rowCount"),
    (re.compile(r"Request parameter ('.*?'|\".*?\") of Arrow type .* has no Python value", re.S), "noPythonValue"),
    (re.compile(r"Method name mismatch"), "nameMismatch"),
    (re.compile(r"\(\) got unexpected keyword argument\(s\): (.*)\Z", re.S), "unexpected"),
    (re.compile(r"\(\) missing required argument\(s\): (.*)\Z", re.S), "missing"),
    (re.compile(r"\(\) parameter schema expected (\d+) fields, got (\d+)"), "fieldCount"),
    (re.compile(r"\(\) parameter schema field (\d+) expected name "), "fieldName"),
    (re.compile(r"\(\) parameter ('.*?'|\".*?\") expected Arrow type ", re.S), "fieldType"),
    (re.compile(r"\(\) parameter ('.*?'|\".*?\") expected nullable=", re.S), "fieldNullable"),
    (re.compile(r"\(\) parameter '(.*)' is not optional but got None\Z", re.S), "nullNotOptional"),
]


def classify(err: dict[str, Any] | None, invoked: bool) -> dict[str, Any] | None:
    """Which check refused, read off the error message (`Class: text`)."""
    if err is None:
        return None
    if invoked:
        return {"r": "method"}
    if err.get("type") == "ProtocolVersionError":
        return {"r": "version"}
    msg = err.get("message", "")
    for rx, tag in _MSG:
        mm = rx.search(msg)
        if not mm:
            continue
        if tag in ("unexpected", "missing"):
            return {"r": tag, "names": sorted(ast.literal_eval("[" + mm.group(1) + "]"))}
        if tag == "fieldCount":
            return {"r": tag, "want": int(mm.group(1)), "got": int(mm.group(2))}
        if tag == "fieldName":
            return {"r": tag, "i": int(mm.group(1))}
        if tag in ("fieldType", "fieldNullable", "noPythonValue"):
            return {"r": tag, "name": ast.literal_eval(mm.group(1))}
        if tag == "nullNotOptional":
            return {"r": tag, "name": mm.group(1)}
        return {"r": tag}
    return {"r": "deser"}


_SEG: list[Any] = []  # the shared-memory segment of this run (created on first use, unlinked by `close_segment`)


def segment() -> Any:
    from vgi_rpc.shm import ShmSegment

    if not _SEG:
        _SEG.append(ShmSegment.create(1 << 20))
    return _SEG[0]


def close_segment() -> None:
    import contextlib

    while _SEG:
        seg = _SEG.pop()
        with contextlib.suppress(Exception):
            seg.close()
        with contextlib.suppress(Exception):
            seg.unlink()


def has_dict(schema: pa.Schema) -> bool:
    def walk(t: pa.DataType) -> bool:
        if pa.types.is_dictionary(t):
            return True
        return any(walk(t.field(i).type) for i in range(t.num_fields))

    return any(walk(f.type) for f in schema)


def shm_request(seg: Any, real: bytes, pointer_schema: pa.Schema, md: dict[bytes, bytes]) -> bytes | None:
    """Route a request through the shared-memory side channel as a C++-style client does: the single-row batch goes into
    the segment, a zero-row *pointer* batch with `pointer_schema` and the dispatch metadata goes on the pipe.
    `real` is the complete IPC stream of the batch the pointer resolves to.  None = cannot be framed that way."""
    from vgi_rpc.shm import make_shm_pointer_batch

    seg.reset()
    if has_dict(pointer_schema):
        # the reader decodes the region under the *pointer's* schema (dictionary framing): only an honest pointer works
        rb = pa.ipc.open_stream(io.BytesIO(real)).read_next_batch()
        if not rb.schema.equals(pointer_schema):
            return None
        placed = seg.allocate_and_write(rb)
        if placed is None:
            return None
        off, n = placed
    else:
        off = seg._allocator.allocate(len(real))
        if off is None:
            return None
        n = len(real)
        seg._shm.buf[off:off + n] = real
    pointer, pmd = make_shm_pointer_batch(pointer_schema, off, n)
    buf = io.BytesIO()
    with pa.ipc.new_stream(buf, pointer_schema) as w:
        w.write_batch(pointer, custom_metadata=pa.KeyValueMetadata({**md, **dict(pmd.items())}))
    return buf.getvalue()


def observe_pipe(svc: Service, method: str, req: bytes, seg: Any = None) -> dict[str, Any]:
    m = svc.methods.get(method)
    sg.INVOCATIONS.clear()
    data = req + (sg.empty_tick_stream() if (m is not None and m["kind"] == "stream") else b"")
    if seg is None:
        out, exc = rpcutil.serve_one_bytes(svc.server, data)
    else:
        from vgi_rpc.rpc import PipeTransport, ShmPipeTransport

        w = io.BytesIO()
        exc = None
        try:
            svc.server.serve_one(ShmPipeTransport(PipeTransport(io.BytesIO(data), w), seg))
        except BaseException as e:  # noqa: BLE001
            exc = e
        out = w.getvalue()
    inv = list(sg.INVOCATIONS)
    err = None
    unreadable = None
    try:
        for _sch, bs in rpcutil.read_all_streams(out):
            err = err or rpcutil.error_of(bs)
    except Exception as e:  # noqa: BLE001
        unreadable = repr(e)
    if exc is not None:
        wire = {"w": "errorStreamThenEscape"} if err else {"w": "escaped"}
    elif err is not None:
        wire = {"w": "errorStream"}
    else:
        wire = {"w": "result"}
    return {"inv": inv, "wire": wire, "err": err, "escaped": repr(exc) if exc else None, "unreadable": unreadable, "out_len": len(out)}


def observe_http(svc: Service, url_method: str, kind: str, req: bytes) -> dict[str, Any]:
    sg.INVOCATIONS.clear()
    path = f"/{url_method}/init" if kind == "stream" else f"/{url_method}"
    r = svc.client.simulate_post(path, body=req, headers=H_ARROW)
    inv = list(sg.INVOCATIONS)
    err = None
    unreadable = None
    try:
        for _sch, bs in rpcutil.read_all_streams(r.content):
            err = err or rpcutil.error_of(bs)
    except Exception as e:  # noqa: BLE001
        unreadable = repr(e)
    marker = r.headers.get("X-VGI-RPC-Error") == "true"
    if r.status_code == 200 and not marker and err is None:
        wire: dict[str, Any] = {"w": "result"}
    else:
        wire = {"w": "http", "status": r.status_code, "marker": marker}
    return {"inv": inv, "wire": wire, "err": err, "escaped": None, "unreadable": unreadable, "out_len": len(r.content)}


# ------------------------------------------------------------------------------------------ one case


def site_of(transport: str, kind: str) -> str:
    return {"pipe": {"unary": "pipe_unary", "stream": "pipe_stream"}, "http": {"unary": "http_unary", "stream": "http_init"}}[transport][kind]


def _kw_view(kw: dict[str, Any]) -> list[Any]:
    return [[k, sg.enc_val(v) if not isinstance(v, (sg.Pt, sg.Other)) else sg.enc_val(v)] for k, v in kw.items()]


def check_case(ctx: Any, svc: Service, case: dict[str, Any]) -> None:
    """case = {"methods", "version", "transport", "method" (url / dispatched method), "req_hex", "label"}"""
    req = bytes.fromhex(case["req_hex"])
    transport = case["transport"]
    method = case["method"]
    m = svc.methods[method]
    info = svc.server._methods[method]
    parsed = parse_request(req)
    routed = case.get("shm")
    seg = None
    if routed is not None:
        # `req_hex` is the IPC stream of the batch the request *resolves to*; what travels on the pipe is a zero-row pointer
        # batch with the schema below (its own validity is what the ValidatedReader sees; the resolved batch is not re-validated)
        pschema = pa.ipc.read_schema(pa.py_buffer(bytes.fromhex(routed["pointer_schema_hex"])))
        md = {sg.METHOD_KEY: parsed["method"].encode(), sg.REQUEST_VERSION_KEY: b"1"}
        if parsed["version"] is not None:
            md[sg.PROTOCOL_VERSION_KEY] = parsed["version"]
        seg = segment()
        wire_req = shm_request(seg, req, pschema, md)
        if wire_req is None:
            ctx.tag("pert:unroutable")
            return
        parsed["valid"] = True
        parsed["pointer"] = [{"name": f.name, "type": f.type, "nullable": f.nullable, "value": None, "exc": None} for f in pschema]
        req = wire_req
    site = site_of(transport, m["kind"])
    name_matches = parsed["method"] == method
    if transport == "pipe" and not name_matches:
        return  # on a socket the IPC name selects the method: there is no second name to disagree with
    gate_pass = True
    if svc.version is not None:
        v = parsed["version"]
        gate_pass = v is not None and v.decode("ascii", "replace").split(".")[:2] == svc.version.split(".")[:2]
    ok, why = conforms(info, parsed)
    raises = isinstance(m.get("behave"), dict)
    vv, expect = values_valid(m, parsed) if ok else (False, {})
    tags = [f"site:{site}", f"spec:{why}" if not ok else ("spec:conforms" if vv else "spec:conforms-bad-value"),
            "pert:" + case.get("label", "?").split(":")[0], f"nparams:{len(m['params'])}"]
    if raises:
        tags.append("method:raises")
    if not gate_pass:
        tags.append("gate:refuse")
    if not name_matches:
        tags.append("name:mismatch")
    if routed is not None:
        tags.append("route:shm-pointer=" + routed["pointer"])
    obs = observe_pipe(svc, method, req, seg) if transport == "pipe" else observe_http(svc, method, m["kind"], req)
    invoked = len(obs["inv"]) > 0
    tags.append("impl:invoked" if invoked else "impl:refused")
    ctx.case(case, nontrivial=bool(m["params"]) or raises, tags=tags)
    key_site = site + (":after-other-service" if case.get("before") else "")
    should_run = ok and vv and gate_pass and name_matches

    # ---- O: the property on the implementation -----------------------------------------------------------------
    if len(obs["inv"]) > 1:
        ctx.fail(case, f"C06:invoked-twice:{key_site}", f"method ran {len(obs['inv'])} times for one request")
        return
    if invoked and not ok:
        ctx.fail(case, f"C06:invoked-nonconforming:{key_site}:{why}",
                 f"method {method} ran although the request does not conform ({why}); received {obs['inv'][0][1]!r}")
        return
    if invoked and not (gate_pass and name_matches):
        ctx.fail(case, f"C06:invoked-past-gate:{key_site}", "method ran although the version gate / name check must refuse")
        return
    if invoked:
        got = obs["inv"][0][1]
        if not vv or list(got) != [p["name"] for p in m["params"]] or any(not sg.same_value(got[k], expect[k]) for k in got):
            ctx.fail(case, f"C06:invoked-wrong-arguments:{key_site}",
                     f"method {method} received {got!r}, the request decodes to {expect!r}")
            return
    if should_run and not invoked:
        ctx.fail(case, f"C06:valid-request-rejected:{key_site}", f"a conforming request was refused: {obs['err']} / {obs['wire']}")
        return
    if not invoked:
        # refused before the method ran: HTTP 400 (no marker, Arrow error body) / complete error stream, nothing escapes
        if transport == "http":
            if obs["wire"] != {"w": "http", "status": 400, "marker": False} or obs["err"] is None:
                ctx.fail(case, f"C06:refusal-not-400:{key_site}:{why if not ok else 'bad-value' if not vv else 'gate'}",
                         f"request refused before the method ran, answered {obs['wire']} err={obs['err'] and obs['err']['type']}")
                return
        else:
            if obs["wire"] != {"w": "errorStream"}:
                ctx.fail(case, f"C06:refusal-not-error-stream:{key_site}:{why if not ok else 'bad-value' if not vv else 'gate'}",
                         f"request refused before the method ran, pipe outcome {obs['wire']} escaped={obs['escaped']}")
                return
    if invoked and raises:
        want_type = type(sg.method_exceptions()[m["behave"]["raise"]]()).__name__
        err = obs["err"] or {}
        if transport == "http":
            if obs["wire"] != {"w": "http", "status": 200, "marker": True} or err.get("type") != want_type:
                ctx.fail(case, f"C06:method-error-misreported:{key_site}:{m['behave']['raise']}",
                         f"method raised {want_type}; answered {obs['wire']} with error {err.get('type')}")
                return
        else:
            if obs["wire"] != {"w": "errorStream"} or err.get("type") != want_type:
                ctx.fail(case, f"C06:method-error-misreported:{key_site}:{m['behave']['raise']}",
                         f"method raised {want_type}; pipe outcome {obs['wire']} with error {err.get('type')} escaped={obs['escaped']}")
                return
    if invoked and not raises and obs["wire"] != {"w": "result"}:
        ctx.fail(case, f"C06:ok-call-errored:{key_site}", f"method returned normally but the answer is {obs['wire']} / {obs['err']}")
        return

    # ---- K: the model on the same bytes (queued; compared in `flush_model`) ---------------------------------------
    if ctx.driver is None:
        return
    behave = None
    if raises:
        behave = exn_json(ctx, sg.method_exceptions()[m["behave"]["raise"]]())
    args = {"site": site, "decl": decl_json(m, info), "rq": rq_json(ctx, parsed), "nameMatches": name_matches,
            "gatePass": gate_pass, "behave": behave}
    impl_inv = None
    if invoked:
        impl_inv = [[s2j(k), "null" if v is None else "nonnull"] for k, v in obs["inv"][0][1].items()]
    impl_view = {"invoked": impl_inv, "wire": obs["wire"], "err": (obs["err"] or {}).get("type"), "why": classify(obs["err"], invoked)}
    _PENDING.append((case, site, args, impl_view, [c["name"] for c in parsed["cols"]]))
    if len(_PENDING) >= 1500:
        flush_model(ctx)


_PENDING: list[tuple[Any, ...]] = []


def flush_model(ctx: Any) -> None:
    if not _PENDING or ctx.driver is None:
        _PENDING.clear()
        return
    pend = list(_PENDING)
    _PENDING.clear()
    res = ctx.driver.batch([("C06.serve", p[2]) for p in pend])
    for (case, site, _args, impl_view, col_names), r in zip(pend, res):
        model_inv = None
        if r["invoked"] is not None:
            model_inv = [[k, "null" if t == "null" else "nonnull"] for k, t in r["invoked"]]
        model_why = r["why"]
        if model_why is not None:
            model_why = dict(model_why)
            if model_why["r"] in ("deserType", "deserKey", "deserConv"):
                model_why = {"r": "deser"}
            elif model_why["r"] in ("unexpected", "missing"):
                model_why["names"] = sorted("".join(chr(c) for c in n) for n in model_why["names"])
            elif model_why["r"] in ("fieldType", "fieldNullable"):
                model_why = {"r": model_why["r"], "name": col_names[model_why["i"]]}
            elif "name" in model_why:
                model_why["name"] = "".join(chr(c) for c in model_why["name"])
        model_err = "".join(chr(c) for c in r["err"]) if r["err"] is not None else None
        model_view = {"invoked": model_inv, "wire": r["wire"], "err": model_err, "why": model_why}
        if impl_view != model_view:
            ctx.mismatch(case, model_view, impl_view, f"serve at {site}: model vs implementation")


# ------------------------------------------------------------------------------------------ run


_BEFORE: list[dict[str, Any]] = []  # calls made earlier in this process on *another* service (twin explorations)


def make_case(methods: list[dict[str, Any]], version: str | None, transport: str, method: str, req: bytes, label: str) -> dict[str, Any]:
    c = {"methods": methods, "version": version, "transport": transport, "method": method, "req_hex": req.hex(), "label": label}
    if _BEFORE:
        c["before"] = list(_BEFORE)
    return c


def routed_case(base_case: dict[str, Any], pointer: str, pointer_schema: pa.Schema) -> dict[str, Any]:
    """The same request, sent through the shared-memory side channel behind a pointer batch with `pointer_schema`
    (`pointer` = "declared": what the method declares; "real": the schema of the batch itself)."""
    c = dict(base_case)
    c["transport"] = "pipe"
    c["shm"] = {"pointer": pointer, "pointer_schema_hex": pointer_schema.serialize().to_pybytes().hex()}
    c["label"] = base_case["label"]
    return c


def route_variants(ctx: Any, svc: Service, case: dict[str, Any], rng: Any, full: bool) -> None:
    """Pointer-routed variants of a pipe case: behind the declared schema and behind the batch's own schema."""
    info = svc.server._methods[case["method"]]
    real_schema = pa.ipc.open_stream(io.BytesIO(bytes.fromhex(case["req_hex"]))).schema
    for pointer, sch in (("declared", info.params_schema), ("real", real_schema)):
        if pointer == "real" and real_schema.equals(info.params_schema):
            continue
        if full or rng.random() < (0.5 if pointer == "declared" else 0.15):
            check_case(ctx, svc, routed_case(case, pointer, sch))


def client_request(svc: Service, rng: Any, m: dict[str, Any], version: str | None) -> tuple[bytes, str]:
    """A request framed by the real client (`_send_request`: defaults merged, validated, written)."""
    from vgi_rpc.rpc._wire import _send_request

    info = svc.server._methods[m["name"]]
    kwargs: dict[str, Any] = {}
    omitted = 0
    for p in m["params"]:
        if "default" in p and rng.random() < 0.6:
            omitted += 1
            continue
        kwargs[p["name"]] = None if (p["opt"] and rng.random() < 0.3) else gen_value(rng, p["ty"])
    buf = io.BytesIO()
    _send_request(buf, info, kwargs, protocol_version=version)
    return buf.getvalue(), f"client:omitted{omitted}"


def client_frame(ctx: Any, svc: Service, rng: Any, methods: list[dict[str, Any]], m: dict[str, Any], version: str | None) -> tuple[bytes, str] | None:
    """`client_request`, reporting a refusal of the client's own validation: the kwargs are values of the declared types
    (None only where optional), so the call is valid and must be framed."""
    st = rng.getstate()
    try:
        return client_request(svc, rng, m, version)
    except Exception as e:  # noqa: BLE001
        rng.setstate(st)
        kwargs = _client_kwargs(rng, m)
        case = make_case(methods, version, "client", m["name"], b"", "client")
        case["client_kwargs"] = [[k, sg.enc_val(v)] for k, v in kwargs.items()]
        ctx.case(case, tags=("site:client", "pert:client"))
        ctx.fail(case, f"C06:valid-call-refused-by-client:{type(e).__name__}",
                 f"the client's own validation refused a valid call {kwargs!r}: {type(e).__name__}: {e}")
        return None


def _client_kwargs(rng: Any, m: dict[str, Any]) -> dict[str, Any]:
    kwargs: dict[str, Any] = {}
    for p in m["params"]:
        if "default" in p and rng.random() < 0.6:
            continue
        kwargs[p["name"]] = None if (p["opt"] and rng.random() < 0.3) else gen_value(rng, p["ty"])
    return kwargs


def explore_signature(ctx: Any, params: list[dict[str, Any]], rng: Any, *, version: str | None, behave: Any, use_ctx: bool,
                      n_pairs: int, full: bool) -> None:
    methods = methods_for(params, behave, use_ctx)
    svc = Service(methods, version)
    explore_service(ctx, svc, methods, rng, version=version, n_pairs=n_pairs, full=full)


def methods_for(params: list[dict[str, Any]], behave: Any, use_ctx: bool) -> list[dict[str, Any]]:
    return [
        {"name": "m0", "kind": "unary", "ctx": use_ctx, "params": params, "behave": behave},
        {"name": "s0", "kind": "stream", "ctx": not use_ctx and bool(params), "params": params, "behave": behave},
        {"name": "other", "kind": "unary", "ctx": False, "params": [], "behave": "ok"},
    ]


def explore_service(ctx: Any, svc: Service, methods: list[dict[str, Any]], rng: Any, *, version: str | None, n_pairs: int,
                    full: bool) -> None:
    import copy

    for m in methods[:2]:
        site_pairs = [("pipe", m["name"]), ("http", m["name"])]
        # client-framed valid requests (defaults omitted at random)
        for _ in range(3 if full else 2):
            framed = client_frame(ctx, svc, rng, methods, m, version)
            if framed is None:
                continue
            req, label = framed
            for transport, meth in site_pairs:
                check_case(ctx, svc, make_case(methods, version, transport, meth, req, label))
        base = valid_cols(rng, m)
        req = sg.raw_request(m["name"], base, 1, protocol_version=version)
        for transport, meth in site_pairs:
            check_case(ctx, svc, make_case(methods, version, transport, meth, req, "raw-valid"))
        route_variants(ctx, svc, make_case(methods, version, "pipe", m["name"], req, "raw-valid"), rng, True)
        # URL / IPC name disagreement, version problems
        for ipc_name in ("other", "nope", m["name"].upper()):
            check_case(ctx, svc, make_case(methods, version, "http", m["name"], sg.raw_request(ipc_name, base, 1, protocol_version=version),
                                           "name-mismatch"))
        if version is not None:
            for pv in (None, "9.9.9", "1.3.0", "garbage", version):
                r2 = sg.raw_request(m["name"], base, 1, protocol_version=pv)
                for transport, meth in site_pairs:
                    check_case(ctx, svc, make_case(methods, version, transport, meth, r2, "version"))
        perts = perturbations(rng, m, base)
        for idx, (label, cols, rows) in enumerate(perts):
            try:
                r2 = sg.raw_request(m["name"], cols, rows, protocol_version=version)
            except Exception:  # noqa: BLE001 — pyarrow cannot build that column
                ctx.tag("pert:unbuildable")
                continue
            for j, (transport, meth) in enumerate(site_pairs):
                if full or rng.random() < 0.55:
                    check_case(ctx, svc, make_case(methods, version, transport, meth, r2, label))
            route_variants(ctx, svc, make_case(methods, version, "pipe", m["name"], r2, label), rng, full)
        for _ in range(n_pairs):
            (l1, c1, r1) = rng.choice(perts)
            second = perturbations(rng, {**m, "params": _params_for(c1, m)}, c1) if len(c1) == len(m["params"]) else perts
            (l2, c2, r2_) = rng.choice(second)
            try:
                r3 = sg.raw_request(m["name"], copy.deepcopy(c2), r2_ if r2_ != 1 else r1, protocol_version=version)
            except Exception:  # noqa: BLE001
                ctx.tag("pert:unbuildable")
                continue
            transport, meth = rng.choice(site_pairs)
            check_case(ctx, svc, make_case(methods, version, transport, meth, r3, f"pair:{l1}+{l2}"))
            if transport == "pipe":
                route_variants(ctx, svc, make_case(methods, version, "pipe", meth, r3, f"pair:{l1}+{l2}"), rng, full)


# ---- several services in one process: same method and parameter names, different contracts ----------------------------

_TWIN_SEQ = [0]


def twin_of(rng: Any, params: list[dict[str, Any]], mode: str) -> list[dict[str, Any]]:
    """A second contract over the same parameter *names*: optionality flipped (all / some), and at random a different
    type or default for a parameter."""
    import copy

    out = copy.deepcopy(params)
    flips = list(range(len(out))) if mode == "all" else [i for i in range(len(out)) if rng.random() < 0.5] or [0]
    for i in flips:
        out[i]["opt"] = not out[i]["opt"]
        out[i].pop("default", None)
    for p in out:
        r = rng.random()
        if mode != "all" and r < 0.2:
            p["ty"] = rng.choice(TYPES)
            p.pop("default", None)
        elif mode != "all" and r < 0.4:
            if "default" in p:
                p.pop("default")
            else:
                p["default"] = sg.enc_val(None) if p["opt"] else sg.enc_val(gen_value(rng, p["ty"]))
    return out


def fresh_names(params: list[dict[str, Any]]) -> list[dict[str, Any]]:
    """The same signature over parameter names no earlier service of this process used (so that no state left by an
    earlier exploration can mask or fake an interaction)."""
    import copy

    _TWIN_SEQ[0] += 1
    out = copy.deepcopy(params)
    for i, p in enumerate(out):
        p["name"] = f"t{_TWIN_SEQ[0]}_{i}"
    return out


def prelude(ctx: Any, svc: Service, methods: list[dict[str, Any]], version: str | None) -> list[dict[str, Any]]:
    """One valid call per site on `svc` (a null in every optional position), returned as replayable descriptors."""
    calls = []
    for m in methods[:2]:
        cols = [col_of(p, None if p["opt"] else gen_value(ctx.rng, p["ty"])) for p in m["params"]]
        req = sg.raw_request(m["name"], cols, 1, protocol_version=version)
        for transport in ("pipe", "http"):
            c = {"methods": methods, "version": version, "transport": transport, "method": m["name"], "req_hex": req.hex(),
                 "label": "prelude"}
            check_case(ctx, svc, c)
            calls.append(c)
    return calls


def explore_twins(ctx: Any, rng: Any, params: list[dict[str, Any]], mode: str, *, full: bool, n_pairs: int) -> None:
    """Two Protocols in this process sharing method names and parameter names but not the contract; each is validated
    after the other has been (both orders, each order over fresh names)."""
    if not params:
        return
    for order in (0, 1):
        a = fresh_names(params)
        b = twin_of(rng, a, mode)
        first, second = (a, b) if order == 0 else (b, a)
        m1 = methods_for(first, "ok", False)
        m2 = methods_for(second, "ok", order == 1)
        s1 = Service(m1, None)
        s2 = Service(m2, None)
        ctx.tag("twins:" + mode)
        try:
            _BEFORE.clear()
            _BEFORE.extend(prelude(ctx, s1, m1, None))
            explore_service(ctx, s2, m2, rng, version=None, n_pairs=n_pairs, full=full)
        finally:
            _BEFORE.clear()


def _params_for(cols: list[dict[str, Any]], m: dict[str, Any]) -> list[dict[str, Any]]:
    return m["params"]


def type_identity_check(ctx: Any) -> None:
    """The model's `Ty` (canonical descriptor) identifies exactly the types pyarrow's `==` identifies, over the whole palette."""
    palette: list[Any] = list(sg.DECLARED_ARROW.values())
    for lst in RETYPE.values():
        palette += [t for t, _f in lst]
    palette += [["list", "int64", True, "item"], ["list", "int64", True, "x"], ["map", "string", "int64", False],
                ["ts", "s", "UTC"], ["ts", "ms"], ["dur", "ms"], ["fsl", "int64", 3], ["decimal", 10, 2], ["decimal", 10, 3],
                ["struct", [["a", "int64", True]]], ["struct", [["a", "int64", False]]], ["struct", [["b", "int64", True]]],
                ["list", ["struct", [["a", "int64", True]]]], ["dict", "int16", "string", True]]
    types = [sg.arrow_type(t) for t in palette]
    for i, a in enumerate(types):
        for b in types[i:]:
            same_pa = a.equals(b)
            same_canon = sg.type_canon(a) == sg.type_canon(b)
            ctx.tag("k:type-identity")
            if same_pa != same_canon:
                ctx.mismatch({"type_identity": [str(a), str(b)]}, {"equal": same_canon}, {"equal": same_pa},
                             "canonical type descriptor vs pyarrow DataType equality")
    ctx.note("type_palette", len(types))


def run(ctx: Any) -> None:
    try:
        _run(ctx)
    finally:
        close_segment()


def _run(ctx: Any) -> None:
    rng = ctx.rng
    full = ctx.tier == "thorough" or ctx.deep
    type_identity_check(ctx)
    excs = sorted(sg.method_exceptions())
    # several services in one process: same method and parameter names, optionality flipped; both validation orders.
    # (first, so that a failure that needs the other service's earlier calls is among the replays that get written)
    for params in CORPUS_SIGS:
        if params:
            explore_twins(ctx, rng, params, "all", full=False, n_pairs=ctx.budget(1, 10))
    # hand-written signatures first: each once plain, and with a raising method / a version
    for i, params in enumerate(CORPUS_SIGS):
        explore_signature(ctx, params, rng, version=None, behave="ok", use_ctx=i % 2 == 0, n_pairs=ctx.budget(6, 60), full=True)
    for i, ex in enumerate(excs):
        explore_signature(ctx, CORPUS_SIGS[(i % 3) + 2] if full else CORPUS_SIGS[i % 3], rng, version="1.2.3" if i % 4 == 0 else None,
                          behave={"raise": ex}, use_ctx=i % 2 == 1, n_pairs=ctx.budget(2, 30), full=full)
    explore_signature(ctx, CORPUS_SIGS[3], rng, version="1.2.3", behave="ok", use_ctx=True, n_pairs=ctx.budget(4, 40), full=full)
    # random signatures
    for k in range(ctx.budget(30, 300)):
        m = gen_method(rng, "m0", "unary")
        explore_signature(ctx, m["params"], rng, version="1.2.0" if rng.random() < 0.15 else None, behave=m["behave"],
                          use_ctx=m["ctx"], n_pairs=ctx.budget(4, 30), full=full and k % 4 == 0)
    # several services in one process (same names, different contracts), both validation orders
    for k in range(ctx.budget(8, 120)):
        m = gen_method(rng, "m0", "unary", nparams=rng.choice([1, 2, 2, 3, 4]))
        explore_twins(ctx, rng, m["params"], rng.choice(["all", "some", "some"]), full=False, n_pairs=ctx.budget(1, 10))
    flush_model(ctx)
    ctx.note("sites", ["pipe_unary", "pipe_stream", "http_unary", "http_init"])


def replay(ctx: Any, case: dict[str, Any]) -> None:
    if "type_identity" in case:
        type_identity_check(ctx)
        return
    import json

    built: dict[str, Service] = {}

    def service(methods: Any, version: Any) -> Service:
        k = json.dumps([methods, version], sort_keys=True)
        if k not in built:
            built[k] = Service(methods, version)
        return built[k]

    # every service of the scenario exists before the first call, as in the run
    svc = service(case["methods"], case["version"])
    for b in case.get("before", []):
        service(b["methods"], b["version"])
    try:
        for b in case.get("before", []):
            sb = service(b["methods"], b["version"])
            mb = sb.methods[b["method"]]
            if b["transport"] == "pipe":
                observe_pipe(sb, b["method"], bytes.fromhex(b["req_hex"]))
            else:
                observe_http(sb, b["method"], mb["kind"], bytes.fromhex(b["req_hex"]))
        if "client_kwargs" in case:
            from vgi_rpc.rpc._wire import _send_request

            kwargs = {k: sg.dec_val(v) for k, v in case["client_kwargs"]}
            ctx.case(case)
            try:
                _send_request(io.BytesIO(), svc.server._methods[case["method"]], kwargs, protocol_version=case["version"])
            except Exception as e:  # noqa: BLE001
                ctx.fail(case, f"C06:valid-call-refused-by-client:{type(e).__name__}", f"{type(e).__name__}: {e}")
            return
        check_case(ctx, svc, case)
        flush_model(ctx)
    finally:
        close_segment()
