"""Generated dataclass shapes for C03 (and the dataclass parameters of C02).

One JSON *descriptor* (the annotation grammar of ``lean/VgiVerif/Model/C03.lean``) is the single source for
  * the Lean driver (sent as is),
  * the real Python types (``build``: ``dataclasses.make_dataclass`` + ``enum.Enum`` functional API), and
  * type-directed, boundary-biased instance generation (``gen_value``: a JSON value of ``Py.V``; ``to_py`` makes the object).

Value JSON (see ``Prelude/PyValJson.lean``): null · {"b"} · {"i"} · {"f": binary64 bits} · {"s": code points} · {"y": hex} ·
{"e": member name} · {"ao": [kind, pool id]} · {"l"} · {"t"} · {"fs"} · {"d": [[k, v]…]} · {"o": [class name, [[field, v]…]]} ·
{"ipc": payload} · {"pk": payload} · {"tg": [tag, payload]}.
"""

from __future__ import annotations

import dataclasses
import enum
import itertools
import json
import struct
from typing import Annotated, Any

import pyarrow as pa

SCALARS = ["str", "bytes", "int", "float", "bool"]
INT_WIDTHS = {
    "int8": (pa.int8(), -(2**7), 2**7 - 1),
    "int16": (pa.int16(), -(2**15), 2**15 - 1),
    "int32": (pa.int32(), -(2**31), 2**31 - 1),
    "int64": (pa.int64(), -(2**63), 2**63 - 1),
    "uint8": (pa.uint8(), 0, 2**8 - 1),
    "uint16": (pa.uint16(), 0, 2**16 - 1),
    "uint32": (pa.uint32(), 0, 2**32 - 1),
    "uint64": (pa.uint64(), 0, 2**64 - 1),
}

_counter = itertools.count()


def s2j(s: str) -> list[int]:
    return [ord(c) for c in s]


def j2s(cps: list[int]) -> str:
    return "".join(chr(c) for c in cps)


def f2bits(x: float) -> int:
    return struct.unpack("<Q", struct.pack("<d", x))[0]


def bits2f(b: int) -> float:
    return struct.unpack("<d", struct.pack("<Q", b))[0]


def round32_bits(b: int) -> int:
    """binary64 bits -> bits after a trip through binary32 (CPython's own conversion; overflow -> inf)."""
    x = bits2f(b)
    if x != x:
        # struct keeps the payload top bits and the sign; quiet bit forced (what the hardware conversion does)
        s = b >> 63
        m = b & ((1 << 52) - 1)
        return (s << 63) | (0x7FF << 52) | (((m >> 29) | (1 << 22)) << 29)
    try:
        y = struct.unpack("<f", struct.pack("<f", x))[0]
    except OverflowError:
        y = float("inf") if x > 0 else float("-inf")
    return f2bits(y)


# ----------------------------------------------------------------------------------------------- temporal / decimal values
# {"n": [kind, a, b]}: 0 date (a = days since 1970-01-01) · 1 naive datetime · 2 UTC-aware datetime (a = microseconds since the
# epoch) · 3 time (a = microseconds since midnight) · 4 timedelta (a = microseconds) · 5 Decimal (a = coefficient, b = exponent)

import datetime as _dt
import decimal as _decimal

_EPOCH = _dt.datetime(1970, 1, 1)
_EPOCH_UTC = _dt.datetime(1970, 1, 1, tzinfo=_dt.timezone.utc)


def _td_us(td: _dt.timedelta) -> int:
    return (td.days * 86400 + td.seconds) * 1_000_000 + td.microseconds


def native_to_py(kind: int, a: int, b: int) -> Any:
    if kind == 0:
        return _dt.date.fromordinal(a + 719163)
    if kind == 1:
        return _EPOCH + _dt.timedelta(microseconds=a)
    if kind == 2:
        return _EPOCH_UTC + _dt.timedelta(microseconds=a)
    if kind == 3:
        return (_dt.datetime(2000, 1, 1) + _dt.timedelta(microseconds=a)).time()
    if kind == 4:
        return _dt.timedelta(microseconds=a)
    if kind == 5:
        digits = tuple(int(c) for c in str(abs(a)))
        return _decimal.Decimal((1 if a < 0 else 0, digits, b))
    raise ValueError(kind)


def native_to_j(v: Any) -> Any:
    if isinstance(v, _dt.datetime):
        if v.tzinfo is not None:
            return {"n": [2, _td_us(v - _EPOCH_UTC), 0]}
        return {"n": [1, _td_us(v - _EPOCH), 0]}
    if isinstance(v, _dt.date):
        return {"n": [0, v.toordinal() - 719163, 0]}
    if isinstance(v, _dt.time):
        return {"n": [3, ((v.hour * 60 + v.minute) * 60 + v.second) * 1_000_000 + v.microsecond, 0]}
    if isinstance(v, _dt.timedelta):
        return {"n": [4, _td_us(v), 0]}
    if isinstance(v, _decimal.Decimal):
        t = v.as_tuple()
        if not isinstance(t.exponent, int):
            return {"?": repr(v)}
        coeff = int("".join(map(str, t.digits)) or "0")
        return {"n": [5, -coeff if t.sign else coeff, t.exponent]}
    return None


# ----------------------------------------------------------------------------------------------- pools of Arrow objects

SCHEMA_POOL: list[pa.Schema] = [
    pa.schema([]),
    pa.schema([("a", pa.int64())]),
    pa.schema([("a", pa.int64()), ("b", pa.string())], metadata={b"k": b"v"}),
    pa.schema([pa.field("x", pa.list_(pa.float32()), nullable=False)]),
]
BATCH_POOL: list[pa.RecordBatch] = [
    pa.record_batch({"a": pa.array([], type=pa.int64())}),
    pa.record_batch({"a": [1, 2, 3]}),
    pa.record_batch({"a": [1, None], "s": ["x", "é"]}),
    pa.RecordBatch.from_arrays([], schema=pa.schema([])),
]


def arrow_obj_id(kind: int, o: Any) -> int:
    pool = SCHEMA_POOL if kind == 0 else BATCH_POOL
    for i, p in enumerate(pool):
        try:
            if kind == 0 and p.equals(o, check_metadata=True):
                return i
            if kind == 1 and p.schema.equals(o.schema, check_metadata=True) and p.equals(o):
                return i
        except Exception:
            continue
    pool.append(o)
    return len(pool) - 1


# ----------------------------------------------------------------------------------------------- building Python types


@dataclasses.dataclass
class Node:
    desc: dict[str, Any]
    kind: str
    py: Any  # the Python annotation
    children: list["Node"] = dataclasses.field(default_factory=list)  # opt/list/set: [a]; map: [k, v]; dc: one per field
    cls: Any = None  # dataclass / Enum class
    fields: list[dict[str, Any]] = dataclasses.field(default_factory=list)  # dc: the field descriptors


def build(desc: dict[str, Any], base: type | None = None, namespace: dict[str, Any] | None = None) -> Node:
    """Descriptor -> Node tree with real Python annotations / classes. ``base``/``namespace`` only for the outermost class."""
    from vgi_rpc.utils import ArrowSerializableDataclass, ArrowType, Transient

    k = desc["k"]
    if k in SCALARS:
        return Node(desc, k, {"str": str, "bytes": bytes, "int": int, "float": float, "bool": bool}[k])
    if k == "intw":
        return Node(desc, k, Annotated[int, ArrowType(INT_WIDTHS[desc["w"]][0])])
    if k == "f32":
        return Node(desc, k, Annotated[float, ArrowType(pa.float32())])
    if k == "enum":
        members = desc["members"]
        mixin = desc.get("mixin")
        name = f"E{next(_counter)}"
        vals: dict[str, Any] = {}
        for i, (n, v) in enumerate(members):
            if v is not None:
                vals[j2s(n)] = j2s(v)
            elif mixin == "str":
                vals[j2s(n)] = f"v{i}"
            else:
                vals[j2s(n)] = desc.get("intvals", list(range(1, len(members) + 1)))[i]
        if mixin == "str":
            cls = enum.Enum(name, vals, type=str)
        elif mixin == "int":
            cls = enum.IntEnum(name, vals)
        else:
            cls = enum.Enum(name, vals)
        return Node(desc, k, cls, cls=cls)
    if k == "opt":
        a = build(desc["a"])
        if a.kind == "dcbin":
            # Annotated[Cls | None, ArrowType(pa.binary())]: the only optional form the marker works in
            return Node(desc, k, Annotated[a.cls | None, ArrowType(pa.binary())], [a])
        return Node(desc, k, a.py | None, [a])
    if k == "list":
        a = build(desc["a"])
        return Node(desc, k, list[a.py], [a])
    if k == "set":
        a = build(desc["a"])
        return Node(desc, k, frozenset[a.py], [a])
    if k == "map":
        kk, vv = build(desc["key"]), build(desc["val"])
        return Node(desc, k, dict[kk.py, vv.py], [kk, vv])
    if k in ("dc", "dcbin"):
        children = [build(f["a"]) for f in desc["fields"]]
        spec = []
        for f, ch in zip(desc["fields"], children):
            ann = ch.py
            if f["transient"]:
                ann = Annotated[ann, Transient()]
            if "default" in f:
                dv = f["default"]
                spec.append((j2s(f["name"]), ann, dataclasses.field(default_factory=(lambda dv=dv, ch=ch: to_py(ch, dv)))))
            else:
                spec.append((j2s(f["name"]), ann))
        bases = (base,) if base is not None else (ArrowSerializableDataclass,)
        cls = dataclasses.make_dataclass(j2s(desc["name"]), spec, bases=bases, frozen=True, kw_only=True, namespace=namespace or {})
        py = Annotated[cls, ArrowType(pa.binary())] if k == "dcbin" else cls
        return Node(desc, k, py, children, cls=cls, fields=desc["fields"])
    if k == "schema":
        return Node(desc, k, pa.Schema)
    if k == "batch":
        return Node(desc, k, pa.RecordBatch)
    raise ValueError(f"bad descriptor kind {k}")


def to_py(node: Node, j: Any) -> Any:
    """JSON value -> Python object of the node's type."""
    if j is None:
        return None
    k = node.kind
    if k == "opt":
        return to_py(node.children[0], j)
    if "b" in j:
        return bool(j["b"])
    if "i" in j:
        return int(j["i"])
    if "f" in j:
        return bits2f(j["f"])
    if "s" in j:
        return j2s(j["s"])
    if "y" in j:
        return bytes.fromhex(j["y"])
    if "e" in j:
        return node.cls[j2s(j["e"])]
    if "ao" in j:
        kind, i = j["ao"]
        return (SCHEMA_POOL if kind == 0 else BATCH_POOL)[i]
    if "n" in j:
        return native_to_py(*j["n"])
    if "l" in j:
        return [to_py(node.children[0], x) for x in j["l"]]
    if "fs" in j:
        return frozenset(to_py(node.children[0], x) for x in j["fs"])
    if "d" in j:
        return {to_py(node.children[0], a): to_py(node.children[1], b) for a, b in j["d"]}
    if "o" in j:
        kw = {}
        for (fname, fv), ch in zip(j["o"][1], node.children):
            kw[j2s(fname)] = to_py(ch, fv)
        return node.cls(**kw)
    raise ValueError(f"cannot build {j}")


# ----------------------------------------------------------------------------------------------- Python value -> JSON


def to_j(v: Any, strict: bool = True) -> Any:
    """Value-directed canonical JSON of a Python value (instances, not wire forms).

    strict: floats by bit pattern (model comparison). not strict: Python ``==`` classes (all NaN alike, +0 == -0).
    Sets are sorted, dict items are sorted by key (equality of sets / dicts ignores order).
    """
    if v is None:
        return None
    if isinstance(v, enum.Enum):
        return {"e": s2j(v.name)}
    if isinstance(v, bool):
        return {"b": v}
    if isinstance(v, int):
        return {"i": v}
    if isinstance(v, float):
        if strict:
            return {"f": f2bits(v)}
        if v != v:
            return {"f": "nan"}
        if v == 0:
            return {"f": 0}
        return {"f": f2bits(v)}
    if isinstance(v, str):
        return {"s": s2j(v)}
    if isinstance(v, (bytes, bytearray, memoryview)):
        return {"y": bytes(v).hex()}
    if isinstance(v, pa.Schema):
        return {"ao": [0, arrow_obj_id(0, v)]}
    if isinstance(v, pa.RecordBatch):
        return {"ao": [1, arrow_obj_id(1, v)]}
    nat = native_to_j(v)
    if nat is not None:
        if not strict and nat.get("n", [None])[0] == 5:
            # Decimal equality is numeric: strip trailing zeros of the coefficient
            _k, a, b = nat["n"]
            while a != 0 and a % 10 == 0:
                a //= 10
                b += 1
            if a == 0:
                b = 0
            return {"n": [5, a, b]}
        return nat
    if isinstance(v, list):
        return {"l": [to_j(x, strict) for x in v]}
    if isinstance(v, tuple):
        return {"t": [to_j(x, strict) for x in v]}
    if isinstance(v, (set, frozenset)):
        return {"fs": sorted((to_j(x, strict) for x in v), key=_key)}
    if isinstance(v, dict):
        return {"d": sorted(([to_j(a, strict), to_j(b, strict)] for a, b in v.items()), key=_key)}
    if dataclasses.is_dataclass(v) and not isinstance(v, type):
        return {"o": [s2j(type(v).__name__), [[s2j(f.name), to_j(getattr(v, f.name), strict)] for f in dataclasses.fields(v)]]}
    return {"?": repr(v)}


def to_j_ordered(v: Any) -> Any:
    """Like ``to_j(strict=True)`` but sets / dicts in iteration order (what is sent to the model)."""
    if isinstance(v, (set, frozenset)):
        return {"fs": [to_j_ordered(x) for x in v]}
    if isinstance(v, dict):
        return {"d": [[to_j_ordered(a), to_j_ordered(b)] for a, b in v.items()]}
    if isinstance(v, list):
        return {"l": [to_j_ordered(x) for x in v]}
    if isinstance(v, tuple):
        return {"t": [to_j_ordered(x) for x in v]}
    if dataclasses.is_dataclass(v) and not isinstance(v, type) and not isinstance(v, enum.Enum):
        return {"o": [s2j(type(v).__name__), [[s2j(f.name), to_j_ordered(getattr(v, f.name))] for f in dataclasses.fields(v)]]}
    return to_j(v, True)


def _key(x: Any) -> str:
    return json.dumps(x, sort_keys=True)


def canon_j(j: Any) -> Any:
    """Sort the sets and dicts of a JSON value coming back from the model."""
    if isinstance(j, dict):
        if "fs" in j:
            return {"fs": sorted((canon_j(x) for x in j["fs"]), key=_key)}
        if "d" in j:
            return {"d": sorted(([canon_j(a), canon_j(b)] for a, b in j["d"]), key=_key)}
        if "l" in j:
            return {"l": [canon_j(x) for x in j["l"]]}
        if "t" in j:
            return {"t": [canon_j(x) for x in j["t"]]}
        if "o" in j:
            return {"o": [j["o"][0], [[n, canon_j(x)] for n, x in j["o"][1]]]}
        if "ipc" in j:
            return {"ipc": canon_j(j["ipc"])}
        if "pk" in j:
            return {"pk": canon_j(j["pk"])}
        if "tg" in j:
            return {"tg": [j["tg"][0], canon_j(j["tg"][1])]}
        if "ok" in j:
            return {"ok": canon_j(j["ok"])}
    return j


def wire_j(node: Node, v: Any) -> Any:
    """Annotation-directed JSON of a *row / wire* value (what `_to_row_dict` / `as_py()` hold): IPC bytes are decoded."""
    if v is None:
        return None
    k = node.kind
    if k == "opt":
        return wire_j(node.children[0], v)
    if k in ("schema", "batch") and isinstance(v, (bytes, bytearray)):
        if len(v) == 0:
            return {"y": ""}
        if k == "schema":
            return {"ipc": {"ao": [0, arrow_obj_id(0, pa.ipc.read_schema(pa.py_buffer(v)))]}}
        return {"ipc": {"ao": [1, arrow_obj_id(1, pa.ipc.open_stream(v).read_next_batch())]}}
    if k in ("dc", "dcbin") and isinstance(v, (bytes, bytearray)):
        if len(v) == 0:
            return {"y": ""}
        batch = pa.ipc.open_stream(v).read_next_batch()
        row = {n: batch.column(i)[0].as_py() for i, n in enumerate(batch.schema.names)}
        return {"ipc": _struct_j(node, row)}
    if k in ("dc", "dcbin") and isinstance(v, dict):
        return _struct_j(node, v)
    if k in ("list", "set") and isinstance(v, list):
        return {"l": [wire_j(node.children[0], x) for x in v]}
    if k == "map" and isinstance(v, list):
        out = []
        for item in v:
            if isinstance(item, tuple) and len(item) == 2:
                out.append({"t": [wire_j(node.children[0], item[0]), wire_j(node.children[1], item[1])]})
            else:
                out.append(to_j(item))
        return {"l": out}
    return to_j(v)


def _struct_j(node: Node, row: dict[str, Any]) -> Any:
    by_name = {j2s(f["name"]): ch for f, ch in zip(node.fields, node.children)}
    items = []
    for name, val in row.items():
        ch = by_name.get(name)
        items.append([{"s": s2j(name)}, wire_j(ch, val) if ch is not None else to_j(val)])
    return {"d": items}


# ----------------------------------------------------------------------------------------------- descriptor generation

ENUM_NAMES = ["RED", "GREEN", "BLUE", "A", "b", "Ünï", "X_1", "red"]
FIELD_NAMES = ["a", "b", "c", "x", "y", "val", "name", "items", "ts", "état"]


def gen_enum(rng: Any) -> dict[str, Any]:
    n = rng.choice([1, 2, 3, 4])
    names = rng.sample(ENUM_NAMES, n)
    style = rng.choice(["lower", "cross", "int", "same", "strmix", "intmix"])
    members: list[list[Any]] = []
    desc: dict[str, Any] = {"k": "enum"}
    if style == "lower":
        vals = [f"{nm.lower()}_v{i}" for i, nm in enumerate(names)]  # distinct values: no aliases
        members = [[s2j(nm), s2j(v)] for nm, v in zip(names, vals)]
    elif style == "cross" and n >= 2:
        # value of member i = name of member i+1: a lookup by value would land on the wrong member
        members = [[s2j(nm), s2j(names[(i + 1) % n])] for i, nm in enumerate(names)]
    elif style == "same":
        members = [[s2j(nm), s2j(nm)] for nm in names]
    elif style == "strmix":
        vals = [f"sv{i}" for i in range(n)]
        members = [[s2j(nm), s2j(v)] for nm, v in zip(names, vals)]
        desc["mixin"] = "str"
    elif style == "intmix":
        members = [[s2j(nm), None] for nm in names]
        desc["mixin"] = "int"
        desc["intvals"] = rng.sample(range(-3, 50), n)
    else:
        members = [[s2j(nm), None] for nm in names]
        desc["intvals"] = rng.sample(range(0, 50), n)
    desc["members"] = members
    return desc


def gen_ann(rng: Any, depth: int, hashable: bool = False, top: bool = False, key: bool = False) -> dict[str, Any]:
    """A field annotation. ``hashable``: usable as a set element / dict key; ``key``: additionally never Optional."""
    leaves = [("str", 5), ("bytes", 3), ("int", 5), ("float", 3 if not key else 1), ("bool", 2), ("intw", 3), ("f32", 1 if not key else 0),
              ("enum", 5)]
    if not hashable:
        leaves += [("schema", 1), ("batch", 1)]
    comps: list[tuple[str, int]] = []
    if depth > 0:
        if not key:
            comps += [("opt", 6)]
        comps += [("set", 9), ("dc", 8)]
        if not hashable:
            comps += [("list", 8), ("map", 9)]
            if top:
                comps += [("dcbin", 4), ("optdcbin", 2)]
    pool = leaves + comps
    k = rng.choices([p[0] for p in pool], weights=[p[1] for p in pool])[0]
    if k in SCALARS or k in ("schema", "batch", "f32"):
        return {"k": k}
    if k == "intw":
        return {"k": "intw", "w": rng.choice(list(INT_WIDTHS))}
    if k == "enum":
        return gen_enum(rng)
    if k == "opt":
        inner = gen_ann(rng, depth - 1, hashable)
        return inner if inner["k"] == "opt" else {"k": "opt", "a": inner}
    if k == "list":
        return {"k": "list", "a": gen_ann(rng, depth - 1)}
    if k == "set":
        return {"k": "set", "a": gen_ann(rng, depth - 1, hashable=True)}
    if k == "map":
        return {"k": "map", "key": gen_ann(rng, min(depth - 1, 1), hashable=True, key=True), "val": gen_ann(rng, depth - 1)}
    if k == "dc":
        return gen_cls(rng, depth - 1, hashable=hashable)
    if k == "dcbin":
        d = gen_cls(rng, depth - 1)
        d["k"] = "dcbin"
        return d
    if k == "optdcbin":
        d = gen_cls(rng, depth - 1)
        d["k"] = "dcbin"
        return {"k": "opt", "a": d}
    raise AssertionError(k)


def gen_cls(rng: Any, depth: int, hashable: bool = False, nfields: int | None = None, flat: bool = False) -> dict[str, Any]:
    n = nfields if nfields is not None else rng.choice([0, 1, 1, 2, 2, 3, 4])
    names = rng.sample(FIELD_NAMES, n)
    fields = []
    for nm in names:
        if flat:
            a: dict[str, Any] = {"k": rng.choice(SCALARS)}
            if rng.random() < 0.3:
                a = {"k": "opt", "a": a}
        else:
            a = gen_ann(rng, depth, hashable=hashable, top=True)
        f: dict[str, Any] = {"name": s2j(nm), "transient": False, "a": a}
        r = rng.random()
        if r < 0.15 and not hashable:
            f["transient"] = True
            if rng.random() < 0.6:
                # scratch space: a mutable container built by a default_factory (list / dict / a dataclass holding a list)
                inner_scalar = {"k": rng.choice(["int", "str", "bytes"])}
                a = rng.choice([
                    {"k": "list", "a": inner_scalar},
                    {"k": "map", "key": {"k": "str"}, "val": inner_scalar},
                    {"k": "dc", "name": s2j(f"C{next(_counter)}"), "fields": [{"name": s2j("seen"), "transient": False, "a": {"k": "list", "a": inner_scalar}}]},
                ])
                f["a"] = a
            f["default"] = gen_value(rng, a, small=True)
        elif r < 0.35:
            f["default"] = gen_value(rng, a, small=True)
        fields.append(f)
    return {"k": "dc", "name": s2j(f"C{next(_counter)}"), "fields": fields}


# ----------------------------------------------------------------------------------------------- value generation

STRS = ["", "a", "é", "日本", "😀", "\x00", "a b\n", "RED", "x" * 40, "\U0010ffff", "ß"]
BYTESS = [b"", b"\x00", b"\xff\xfe", b"abc", bytes(range(256)), b"\x01", b"\xff\xff\xff\xff"]
FLOAT_BITS = [0, 1 << 63, 0x3FF0000000000000, 0xBFF0000000000000, 0x7FF0000000000000, 0xFFF0000000000000, 0x7FF8000000000000,
              0x1, 0x000FFFFFFFFFFFFF, 0x0010000000000000, 0x7FEFFFFFFFFFFFFF, 0x3FB999999999999A, 0x400921FB54442D18,
              0x7FF8000000000001, 0xFFF8000000000000, 0x36A0000000000000, 0x47EFFFFFE0000000, 0x3810000000000000]


def gen_int(rng: Any, lo: int, hi: int) -> int:
    c = [lo, hi, 0, 1, -1, lo + 1, hi - 1, 127, 128, 255, 256, 2**31 - 1, 2**31, 2**32, 2**53 + 1, -(2**31) - 1]
    c = [x for x in c if lo <= x <= hi]
    if rng.random() < 0.6:
        return rng.choice(c)
    return rng.randint(lo, hi)


def gen_float_bits(rng: Any, f32: bool, hashable: bool) -> int:
    if rng.random() < 0.6:
        b = rng.choice(FLOAT_BITS)
    else:
        b = rng.getrandbits(64)
    if hashable and bits2f(b) != bits2f(b):
        b = 0x3FF8000000000000
    # a float32 field holds any Python float; half of the time one that binary32 represents exactly
    return round32_bits(b) if f32 and rng.random() < 0.5 else b


def gen_value(rng: Any, a: dict[str, Any], small: bool = False, hashable: bool = False) -> Any:
    """A well-typed JSON value of annotation ``a`` (boundary-biased)."""
    k = a["k"]
    if k == "str":
        return {"s": s2j(rng.choice(STRS))}
    if k == "bytes":
        return {"y": rng.choice(BYTESS).hex()}
    if k == "int":
        return {"i": gen_int(rng, -(2**63), 2**63 - 1)}
    if k == "intw":
        _t, lo, hi = INT_WIDTHS[a["w"]]
        return {"i": gen_int(rng, lo, hi)}
    if k == "float":
        return {"f": gen_float_bits(rng, False, hashable)}
    if k == "f32":
        return {"f": gen_float_bits(rng, True, hashable)}
    if k == "bool":
        return {"b": rng.random() < 0.5}
    if k == "enum":
        return {"e": rng.choice(a["members"])[0]}
    if k == "opt":
        if rng.random() < 0.3:
            return None
        return gen_value(rng, a["a"], small, hashable)
    if k in ("list", "set"):
        n = 0 if rng.random() < 0.2 else rng.choice([1, 1, 2, 3] if not small else [1, 2])
        items = [gen_value(rng, a["a"], small, hashable or k == "set") for _ in range(n)]
        if k == "set":
            return {"fs": _distinct(items)}
        return {"l": items}
    if k == "map":
        n = 0 if rng.random() < 0.2 else rng.choice([1, 1, 2, 3] if not small else [1, 2])
        ks = _distinct([gen_value(rng, a["key"], small, True) for _ in range(n)])
        return {"d": [[kk, gen_value(rng, a["val"], small, hashable)] for kk in ks]}
    if k in ("dc", "dcbin"):
        fs = []
        for f in a["fields"]:
            if "default" in f and rng.random() < (0.6 if f["transient"] else 0.3):
                fs.append([f["name"], f["default"]])
            else:
                fs.append([f["name"], gen_value(rng, f["a"], small, hashable)])
        return {"o": [a["name"], fs]}
    if k == "schema":
        return {"ao": [0, rng.randrange(4)]}
    if k == "batch":
        return {"ao": [1, rng.randrange(4)]}
    raise AssertionError(k)


def _py_eq_key(j: Any) -> str:
    """Key under which two JSON values are equal iff the Python objects are ``==`` (same declared type)."""
    if isinstance(j, dict) and "f" in j:
        x = bits2f(j["f"])
        return "f0" if x == 0 else f"f{j['f']}"
    if isinstance(j, dict) and "fs" in j:
        return "fs" + json.dumps(sorted(_py_eq_key(x) for x in j["fs"]))
    if isinstance(j, dict) and "o" in j:
        return "o" + json.dumps([j["o"][0], [[n, _py_eq_key(x)] for n, x in j["o"][1]]])
    return json.dumps(j, sort_keys=True)


def _distinct(items: list[Any]) -> list[Any]:
    seen = set()
    out = []
    for it in items:
        kk = _py_eq_key(it)
        if kk not in seen:
            seen.add(kk)
            out.append(it)
    return out


# ----------------------------------------------------------------------------------------------- the specified result


def expected(node: Node, v: Any) -> Any:
    """What a round trip must return, computed on the Python side from the property text: the same object with every
    transient field (at any depth) at its default and every float32-declared float rounded to binary32."""
    if v is None:
        return None
    k = node.kind
    if k == "opt":
        return expected(node.children[0], v)
    if k == "list":
        return [expected(node.children[0], x) for x in v]
    if k == "set":
        return frozenset(expected(node.children[0], x) for x in v)
    if k == "map":
        return {expected(node.children[0], a): expected(node.children[1], b) for a, b in v.items()}
    if k == "f32":
        return bits2f(round32_bits(f2bits(v)))  # DESIGN §7.3: rounding to the declared width is not a change
    if k in ("dc", "dcbin"):
        kw = {}
        for f, ch in zip(node.fields, node.children):
            name = j2s(f["name"])
            if f["transient"]:
                kw[name] = to_py(ch, f["default"])
            else:
                kw[name] = expected(ch, getattr(v, name))
        return node.cls(**kw)
    return v


def has_transient(desc: dict[str, Any]) -> bool:
    k = desc["k"]
    if k in ("opt", "list", "set"):
        return has_transient(desc["a"])
    if k == "map":
        return has_transient(desc["key"]) or has_transient(desc["val"])
    if k in ("dc", "dcbin"):
        return any(f["transient"] or has_transient(f["a"]) for f in desc["fields"])
    return False


def depth_of(desc: dict[str, Any]) -> int:
    k = desc["k"]
    if k in ("opt",):
        return depth_of(desc["a"])
    if k in ("list", "set"):
        return 1 + depth_of(desc["a"])
    if k == "map":
        return 1 + max(depth_of(desc["key"]), depth_of(desc["val"]))
    if k in ("dc", "dcbin"):
        return 1 + max([depth_of(f["a"]) for f in desc["fields"]] + [0])
    return 0


def shape_tags(desc: dict[str, Any], prefix: str = "") -> list[str]:
    """`set[enum]`, `map[*, dc]`, … — the container/element combinations present (for the distribution table)."""
    k = desc["k"]
    out = []
    if k in ("opt", "list", "set"):
        out.append(f"{k}[{desc['a']['k']}]")
        out += shape_tags(desc["a"])
    elif k == "map":
        out.append(f"map[{desc['key']['k']},{desc['val']['k']}]")
        out += shape_tags(desc["key"]) + shape_tags(desc["val"])
    elif k in ("dc", "dcbin"):
        for f in desc["fields"]:
            out.append(f"field:{f['a']['k']}" + (":transient" if f["transient"] else ""))
            out += shape_tags(f["a"])
    return out
