"""Self-test of harness/common/detsched.py:  /venv/bin/python -m harness.common.detsched_selftest   (≈ 2 s)

Checks on a tiny in-memory "module under test": a lost update is found only with line-level preemption and never
with the lock; an AB/BA deadlock is found, reported with the blocked operations and replays identically; step limit;
logical time (sleep / Timer / timeouts); Condition hand-off; thread exceptions; a real blocking call is reported as
`hang`; no OS thread is left behind.
"""

from __future__ import annotations

import threading
import time
import types

from harness.common.detsched import DetSched

SRC = '''
import threading, time
class Counter:
    def __init__(self, locked):
        self.n = 0
        self.lock = threading.Lock()
        self.locked = locked
    def inc(self):
        if self.locked:
            with self.lock:
                v = self.n
                self.n = v + 1
        else:
            v = self.n
            self.n = v + 1
class AB:
    def __init__(self):
        self.a = threading.Lock(); self.b = threading.Lock()
    def ab(self):
        with self.a:
            with self.b: pass
    def ba(self):
        with self.b:
            with self.a: pass
def spin():
    e = threading.Event()
    while not e.is_set():
        e.wait(1.0)
def timer_demo(out):
    t = threading.Timer(5.0, lambda: out.append(("fired", time.monotonic())))
    t.start()
    time.sleep(2.0)
    out.append(("slept", time.monotonic()))
def timer_cancel(out):
    t = threading.Timer(5.0, lambda: out.append("fired"))
    t.start(); time.sleep(1.0); t.cancel(); out.append("cancelled")
def cond_demo(out):
    c = threading.Condition(); items = []
    def prod():
        with c:
            items.append(1); c.notify()
    def cons():
        with c:
            while not items: c.wait()
            out.append(items.pop())
    a = threading.Thread(target=cons); b = threading.Thread(target=prod)
    a.start(); b.start(); a.join(); b.join()
def sem_demo(out):
    s = threading.BoundedSemaphore(2); inside = [0]
    def w():
        with s:
            inside[0] += 1; out.append(inside[0]); time.sleep(0); inside[0] -= 1
    ts = [threading.Thread(target=w) for _ in range(3)]
    for t in ts: t.start()
    for t in ts: t.join()
'''


def main() -> None:
    mod = types.ModuleType("detsched_mut")
    exec(compile(SRC, "detsched_mut.py", "exec"), mod.__dict__)
    t0 = time.time()
    base_threads = threading.active_count()

    def counter(locked: bool, lines: bool) -> dict[int, int]:
        ds = DetSched().patch(mod, "threading", "time")
        if lines:
            ds.preempt_lines(mod.Counter.inc)
        res: dict[int, int] = {}

        def setup(ds: DetSched) -> object:
            c = mod.Counter(locked)
            ds.spawn(c.inc)
            ds.spawn(c.inc)
            return c

        with ds:
            for run in ds.explore(setup, dfs=500, bound=2, random=40, seed=1):
                assert run.ok, run
                res[run.value.n] = res.get(run.value.n, 0) + 1
            assert ds.stats["exhaustive"]
        return res

    assert set(counter(False, False)) == {2}  # no scheduling point inside inc: the race is invisible
    assert set(counter(False, True)) == {1, 2}  # line-level preemption exhibits the lost update
    assert set(counter(True, True)) == {2}  # the lock removes it

    ds = DetSched().patch(mod, "threading")

    def ab(ds: DetSched) -> None:
        x = mod.AB()
        ds.spawn(x.ab)
        ds.spawn(x.ba)

    with ds:
        runs = list(ds.explore(ab, dfs=200, bound=2))
        dead = [r for r in runs if r.status == "deadlock"]
        assert dead and all(r.status in ("ok", "deadlock") for r in runs) and ds.stats["exhaustive"]
        assert dead[0].blocked == {0: "acquire Lock1", 1: "acquire Lock0"}, dead[0].blocked
        again = ds.replay(ab, dead[0].schedule)
        assert again.status == "deadlock" and again.trace == dead[0].trace and not again.diverged
        assert ds.replay(ab, [7, 7]).diverged  # a schedule naming a thread that is not enabled

    ds = DetSched(step_limit=200).patch(mod, "threading")
    with ds:
        r = ds.replay(lambda ds: ds.spawn(mod.spin) and None, [])
        assert r.status == "step-limit" and r.clock >= 50.0, (r.status, r.clock)

    ds = DetSched().patch(mod, "threading", "time")
    with ds:
        out: list = []
        r = ds.replay(lambda ds: ds.spawn(mod.timer_demo, out) and None, [])
        assert r.ok and out == [("slept", 2.0), ("fired", 5.0)], out
        out2: list = []
        r = ds.replay(lambda ds: ds.spawn(mod.timer_cancel, out2) and None, [])
        assert r.ok and out2 == ["cancelled"] and r.clock == 1.0, (out2, r.clock)
        for races in (False, True):
            ds.time_races = races
            n = 0
            for r in ds.explore(lambda ds: ds.spawn(mod.cond_demo, []) and None, dfs=400, bound=2):
                assert r.ok, (r.status, r.blocked)
                n += 1
            assert n >= 10
        for r in ds.explore(lambda ds: (o := []) or ds.spawn(mod.sem_demo, o) and None or o, dfs=300, bound=2, random=30):
            assert r.ok and max(r.value) <= 2, (r.status, r.value)

    ds = DetSched(wall_limit=0.3)

    def boom() -> None:
        raise ValueError("x")

    with ds:
        r = ds.replay(lambda ds: ds.spawn(boom) and None, [])
        assert r.status == "ok" and isinstance(r.errors[0], ValueError) and not r.ok
        r = ds.replay(lambda ds: ds.spawn(time.sleep, 1.0) and None, [])  # a REAL blocking call: reported, not waited for
        assert r.status == "hang" and r.leaked == [0], (r.status, r.leaked)
    time.sleep(1.1)
    assert threading.active_count() == base_threads, threading.enumerate()
    print(f"detsched selftest ok ({time.time() - t0:.1f}s)")


if __name__ == "__main__":
    main()
