"""Typed-signature service generator (C06): Protocol classes with 0-5 typed parameters built with ``type(...)``, an
implementation that logs every invocation, and raw request batches built column by column with pyarrow.

Descriptor of one method
------------------------
{"name": "m0", "kind": "unary" | "stream", "ctx": bool,
 "params": [{"name": "p0", "ty": TYPE, "opt": bool, "default": <absent> | JSON value}, ...],
 "behave": "ok" | {"raise": EXC_NAME}}
TYPE ∈ int float str bytes bool enum list_int list_str dict_str_int fset_int dc
EXC_NAME ∈ METHOD_EXCEPTIONS (what the method body itself raises after logging the invocation)

Descriptor of one request column (the raw wire request is a list of these + a row count)
{"name": str, "ty": ARROW (see `arrow_type`), "nullable": bool, "val": JSON-encoded python value (see `dec_val`)}

This module must NOT use ``from __future__ import annotations`` (type hints of the generated Protocol must resolve).
"""

import enum
import io
from dataclasses import dataclass
from typing import Any, Protocol

import pyarrow as pa

from vgi_rpc.rpc import AnnotatedBatch, CallContext, OutputCollector, RpcServer, Stream, StreamState
from vgi_rpc.utils import ArrowSerializableDataclass


class Color(enum.Enum):
    RED = 1
    GREEN = 2
    BLUE = "blue"


@dataclass(frozen=True)
class Pt(ArrowSerializableDataclass):
    x: int
    y: str


@dataclass(frozen=True)
class Other(ArrowSerializableDataclass):
    z: float


@dataclass
class DoneState(StreamState):
    n: int = 0

    def process(self, input: AnnotatedBatch, out: OutputCollector, ctx: CallContext) -> None:
        out.finish()


OUT_SCHEMA = pa.schema([("x", pa.int64())])

PY_TYPES: dict[str, str] = {
    "int": "int", "float": "float", "str": "str", "bytes": "bytes", "bool": "bool", "enum": "Color",
    "list_int": "list[int]", "list_str": "list[str]", "dict_str_int": "dict[str, int]", "fset_int": "frozenset[int]",
    "dc": "Pt",
}
ENUM_MEMBERS = [m.name for m in Color]

INVOCATIONS: list[tuple[str, dict[str, Any]]] = []   # (method, kwargs as received, minus ctx)


class MethodBoom(Exception):
    """A user-defined exception class raised by a method body."""


def method_exceptions() -> dict[str, Any]:
    from vgi_rpc.rpc import RpcError, VersionError

    return {
        "TypeError": lambda: TypeError("m() got an unexpected keyword argument 'zz'"),
        "ArrowInvalid": lambda: pa.ArrowInvalid("method-made arrow invalid"),
        "ArrowTypeError": lambda: pa.ArrowTypeError("method-made arrow type error"),
        "KeyError": lambda: KeyError("NOPE"),
        "ValueError": lambda: ValueError("method value error"),
        "StopIteration": lambda: StopIteration("method stop"),
        "RpcError": lambda: RpcError("ProtocolError", "method-made rpc error", ""),
        "VersionError": lambda: VersionError("method-made version error"),
        "RuntimeError": lambda: RuntimeError("method runtime error"),
        "MethodBoom": lambda: MethodBoom("boom"),
    }


# ------------------------------------------------------------------------------------------ values


def enc_val(v: Any) -> Any:
    """python value -> JSON"""
    if v is None or isinstance(v, (bool, int, str)):
        return v
    if isinstance(v, float):
        return {"f": v.hex()}
    if isinstance(v, bytes):
        return {"b": v.hex()}
    if isinstance(v, Color):
        return {"e": v.name}
    if isinstance(v, Pt):
        return {"pt": [v.x, v.y]}
    if isinstance(v, Other):
        return {"other": v.z.hex()}
    if isinstance(v, frozenset):
        return {"fs": sorted(enc_val(x) for x in v)}
    if isinstance(v, dict):
        return {"d": [[enc_val(k), enc_val(x)] for k, x in v.items()]}
    if isinstance(v, (list, tuple)):
        return {"l": [enc_val(x) for x in v]}
    raise TypeError(type(v))


def dec_val(j: Any) -> Any:
    if j is None or isinstance(j, (bool, int, str)):
        return j
    if isinstance(j, dict):
        if "f" in j:
            return float.fromhex(j["f"])
        if "b" in j:
            return bytes.fromhex(j["b"])
        if "e" in j:
            return Color[j["e"]]
        if "pt" in j:
            return Pt(j["pt"][0], j["pt"][1])
        if "other" in j:
            return Other(float.fromhex(j["other"]))
        if "fs" in j:
            return frozenset(dec_val(x) for x in j["fs"])
        if "d" in j:
            return {dec_val(k): dec_val(x) for k, x in j["d"]}
        if "l" in j:
            return [dec_val(x) for x in j["l"]]
    raise TypeError(j)


def same_value(a: Any, b: Any) -> bool:
    """Equality that treats floats by bit pattern and distinguishes bool from int."""
    return enc_val(a) == enc_val(b) and type(a) is type(b)


# ------------------------------------------------------------------------------------------ arrow types

_PRIMS: dict[str, Any] = {
    "null": pa.null, "bool": pa.bool_, "int8": pa.int8, "int16": pa.int16, "int32": pa.int32, "int64": pa.int64,
    "uint8": pa.uint8, "uint16": pa.uint16, "uint32": pa.uint32, "uint64": pa.uint64, "float16": pa.float16, "float32": pa.float32,
    "float64": pa.float64, "string": pa.string, "large_string": pa.large_string, "string_view": pa.string_view,
    "binary": pa.binary, "large_binary": pa.large_binary, "binary_view": pa.binary_view, "date32": pa.date32, "date64": pa.date64,
}


def arrow_type(t: Any) -> pa.DataType:
    """ARROW descriptor -> pa.DataType.
    "int64" … | ["dict", idx, val, ordered] | ["list", elem, elem_nullable, elem_name] | ["large_list", elem] |
    ["fsl", elem, n] | ["map", k, v, keys_sorted] | ["ts", unit, tz|None] | ["dur", unit] | ["fsb", n] |
    ["struct", [[name, ty, nullable], …]] | ["decimal", p, s]"""
    if isinstance(t, str):
        return _PRIMS[t]()
    k = t[0]
    if k == "dict":
        return pa.dictionary(arrow_type(t[1]), arrow_type(t[2]), ordered=bool(t[3]) if len(t) > 3 else False)
    if k == "list":
        return pa.list_(pa.field(t[3] if len(t) > 3 else "item", arrow_type(t[1]), nullable=t[2] if len(t) > 2 else True))
    if k == "large_list":
        return pa.large_list(arrow_type(t[1]))
    if k == "fsl":
        return pa.list_(arrow_type(t[1]), t[2])
    if k == "map":
        return pa.map_(arrow_type(t[1]), arrow_type(t[2]), keys_sorted=bool(t[3]) if len(t) > 3 else False)
    if k == "ts":
        return pa.timestamp(t[1], tz=t[2] if len(t) > 2 else None)
    if k == "dur":
        return pa.duration(t[1])
    if k == "fsb":
        return pa.binary(t[1])
    if k == "decimal":
        return pa.decimal128(t[1], t[2])
    if k == "struct":
        return pa.struct([pa.field(n, arrow_type(ty), nullable=nl) for n, ty, nl in t[1]])
    if k == "ree":
        return pa.run_end_encoded(arrow_type(t[1]), arrow_type(t[2]))
    raise ValueError(t)


def type_canon(t: pa.DataType) -> str:
    """Canonical structural descriptor of an Arrow type = the model's `Ty`.  Two types get the same text iff they are
    the same Arrow type (list/map child field *names* are not part of a type's identity in Arrow; child nullability,
    dictionary orderedness, map keys_sorted, units and time zones are)."""
    T = pa.types
    if T.is_dictionary(t):
        return f"dict<{type_canon(t.index_type)},{type_canon(t.value_type)},{int(t.ordered)}>"
    if T.is_map(t):
        return f"map<{type_canon(t.key_type)},{type_canon(t.item_type)}{'' if t.item_field.nullable else '!'},{int(t.keys_sorted)}>"
    if T.is_fixed_size_list(t):
        return f"fsl{t.list_size}<{type_canon(t.value_type)}{'' if t.value_field.nullable else '!'}>"
    if T.is_large_list(t):
        return f"large_list<{type_canon(t.value_type)}{'' if t.value_field.nullable else '!'}>"
    if T.is_list(t):
        return f"list<{type_canon(t.value_type)}{'' if t.value_field.nullable else '!'}>"
    if T.is_run_end_encoded(t):
        return f"ree<{type_canon(t.run_end_type)},{type_canon(t.value_type)}>"
    if T.is_struct(t):
        return "struct<" + ",".join(f"{f.name}:{type_canon(f.type)}{'' if f.nullable else '!'}" for f in t) + ">"
    return str(t)


DECLARED_ARROW: dict[str, Any] = {
    "int": "int64", "float": "float64", "str": "string", "bytes": "binary", "bool": "bool",
    "enum": ["dict", "int16", "string", False], "list_int": ["list", "int64"], "list_str": ["list", "string"],
    "dict_str_int": ["map", "string", "int64"], "fset_int": ["list", "int64"], "dc": "binary",
}


def wire_value(ty: str, v: Any) -> Any:
    """What the client's `_convert_for_arrow` puts into the column for a python value of declared TYPE."""
    if v is None:
        return None
    if ty == "enum":
        return v.name
    if ty == "dc":
        return v.serialize_to_bytes()
    if ty == "fset_int":
        return sorted(v)
    if ty == "dict_str_int":
        return list(v.items())
    return v


# ------------------------------------------------------------------------------------------ service


def _method_src(m: dict[str, Any], impl: bool) -> str:
    ps = []
    seen_default = False
    star = False
    for p in m["params"]:
        if "default" in p:
            seen_default = True
        elif seen_default and not star:
            # a required parameter after a defaulted one: only legal keyword-only
            first = next(i for i, q in enumerate(m["params"]) if "default" in q)
            ps.insert(first, "*")
            star = True
        ann = PY_TYPES[p["ty"]] + (" | None" if p["opt"] else "")
        s = f"{p['name']}: {ann}"
        if "default" in p:
            s += f" = _dflt_{m['name']}_{p['name']}"
        ps.append(s)
    if impl and m.get("ctx"):
        ps.insert(0, "ctx: CallContext")  # first, so that it never follows a defaulted parameter
    ret = "int" if m["kind"] == "unary" else "Stream[DoneState]"
    args = ", ".join(["self"] + ps)
    if not impl:
        return f"def {m['name']}({args}) -> {ret}: ...\n"
    names = ", ".join(f"'{p['name']}': {p['name']}" for p in m["params"])
    return f"def {m['name']}({args}) -> {ret}:\n    return _run_{m['name']}({{{names}}})\n"


def build_service(methods: list[dict[str, Any]], version: str | None = None) -> tuple[type, Any]:
    """(Protocol class built with type(...), implementation instance) for a list of method descriptors."""
    excs = method_exceptions()
    ns: dict[str, Any] = {"Color": Color, "Pt": Pt, "Stream": Stream, "DoneState": DoneState, "CallContext": CallContext}
    pns: dict[str, Any] = {"__module__": __name__}
    ins: dict[str, Any] = {"__module__": __name__}
    if version is not None:
        pns["protocol_version"] = version
    for m in methods:
        for p in m["params"]:
            if "default" in p:
                ns[f"_dflt_{m['name']}_{p['name']}"] = dec_val(p["default"])

        def runner(kwargs: dict[str, Any], _m: dict[str, Any] = m) -> Any:
            INVOCATIONS.append((_m["name"], dict(kwargs)))
            b = _m.get("behave", "ok")
            if isinstance(b, dict):
                raise excs[b["raise"]]()
            if _m["kind"] == "unary":
                return 7
            return Stream(output_schema=OUT_SCHEMA, state=DoneState())

        ns[f"_run_{m['name']}"] = runner
        loc: dict[str, Any] = {}
        exec(_method_src(m, impl=False), ns, loc)  # noqa: S102 — generated from the descriptor above
        pns[m["name"]] = loc[m["name"]]
        loc = {}
        exec(_method_src(m, impl=True), ns, loc)  # noqa: S102
        ins[m["name"]] = loc[m["name"]]
    P = type("SigProto", (Protocol,), pns)
    Impl = type("SigImpl", (), ins)
    return P, Impl()


def make_server(methods: list[dict[str, Any]], version: str | None = None) -> RpcServer:
    P, impl = build_service(methods, version)
    return RpcServer(P, impl, enable_describe=False)


# ------------------------------------------------------------------------------------------ raw requests

REQUEST_VERSION_KEY = b"vgi_rpc.request_version"
METHOD_KEY = b"vgi_rpc.method"
PROTOCOL_VERSION_KEY = b"vgi_rpc.protocol_version"


def raw_request(method: str, cols: list[dict[str, Any]], rows: int = 1, protocol_version: str | None = None) -> bytes:
    """A request IPC stream whose batch has exactly the given columns (each value repeated `rows` times)."""
    fields = []
    arrays = []
    for c in cols:
        t = arrow_type(c["ty"])
        fields.append(pa.field(c["name"], t, nullable=c["nullable"], metadata={b"k": b"v"} if c.get("meta") else None))
        if isinstance(c["val"], dict) and "raw" in c["val"]:
            # a utf8 column holding arbitrary bytes (only IPC validation can tell)
            data = bytes.fromhex(c["val"]["raw"])
            offs = pa.array([i * len(data) for i in range(rows + 1)], type=pa.int32()).buffers()[1]
            arrays.append(pa.Array.from_buffers(t, rows, [None, offs, pa.py_buffer(data * rows)]))
        else:
            arrays.append(pa.array([dec_wire(c["val"])] * rows, type=t))
    schema = pa.schema(fields)
    if cols:
        batch = pa.RecordBatch.from_arrays(arrays, schema=schema)
    else:
        batch = pa.RecordBatch.from_struct_array(pa.array([{}] * rows, type=pa.struct([])))
    md = {METHOD_KEY: method.encode(), REQUEST_VERSION_KEY: b"1"}
    if protocol_version is not None:
        md[PROTOCOL_VERSION_KEY] = protocol_version.encode()
    buf = io.BytesIO()
    with pa.ipc.new_stream(buf, schema) as w:
        w.write_batch(batch, custom_metadata=md)
    return buf.getvalue()


def dec_wire(j: Any) -> Any:
    """JSON -> the python value handed to pa.array (wire level: enum names are plain strings, maps are pair lists)."""
    if j is None or isinstance(j, (bool, int, str)):
        return j
    if isinstance(j, dict):
        if "f" in j:
            return float.fromhex(j["f"])
        if "b" in j:
            return bytes.fromhex(j["b"])
        if "l" in j:
            return [dec_wire(x) for x in j["l"]]
        if "t" in j:
            return tuple(dec_wire(x) for x in j["t"])
        if "dec" in j:
            import decimal

            return decimal.Decimal(j["dec"])
    raise TypeError(j)


def enc_wire(v: Any) -> Any:
    if v is None or isinstance(v, (bool, int, str)):
        return v
    if isinstance(v, float):
        return {"f": v.hex()}
    if isinstance(v, bytes):
        return {"b": v.hex()}
    if isinstance(v, tuple):
        return {"t": [enc_wire(x) for x in v]}
    if isinstance(v, list):
        return {"l": [enc_wire(x) for x in v]}
    import decimal

    if isinstance(v, decimal.Decimal):
        return {"dec": str(v)}
    raise TypeError(type(v))


def empty_tick_stream() -> bytes:
    """The immediately-closed input stream a stream client sends after the request (pipe transports)."""
    buf = io.BytesIO()
    with pa.ipc.new_stream(buf, pa.schema([])):
        pass
    return buf.getvalue()
