"""C05 helper: a real `RpcServer.serve()` loop on a pipe / unix pair, fed raw bytes; observes reply, loop state, sentinel.

`Probe.send(data, half_close=False)` writes `data` to the server, reads ONE IPC stream back (with a deadline), then —
when the write side is still open — performs a sentinel `add(2, 3)` with a freshly framed request and checks for 5.

Outcome (the model's `Outcome`):
  replyContinue  a reply stream came back and the connection kept serving (sentinel ok / for half-closed probes: the loop
                 ended only because of our EOF, after replying)
  replyStop      a reply stream came back, then the server ended the connection
  silentStop     no reply; the server ended the connection (serve() returned or an exception escaped it)
  hang           no reply within the deadline while the server is still waiting
"""

import contextlib
import io
import threading
from typing import Any, Protocol

import pyarrow as pa
from pyarrow import ipc

from harness.common import rpcutil
from harness.common.svcgen import OUT_SCHEMA, Hdr, ScriptState
from vgi_rpc.rpc import RpcServer, ShmPipeTransport, Stream, make_pipe_pair, make_unix_pair


class ProbeProtocol(Protocol):
    def add(self, a: int, b: int) -> int: ...
    def ping(self) -> int: ...
    def echo(self, s: str) -> str: ...
    def boom(self, a: int) -> int: ...
    def badstream(self, a: int) -> Stream[ScriptState]: ...
    def okstream(self, a: int) -> Stream[ScriptState]: ...
    def hdrstream(self, a: int) -> Stream[ScriptState, Hdr]: ...


class ProbeProtocolV(Protocol):
    protocol_version = "1.2.3"

    def add(self, a: int, b: int) -> int: ...
    def ping(self) -> int: ...
    def echo(self, s: str) -> str: ...
    def boom(self, a: int) -> int: ...
    def badstream(self, a: int) -> Stream[ScriptState]: ...
    def okstream(self, a: int) -> Stream[ScriptState]: ...
    def hdrstream(self, a: int) -> Stream[ScriptState, Hdr]: ...


class ProbeImpl:
    def add(self, a: int, b: int) -> int:
        return a + b

    def ping(self) -> int:
        return 1

    def echo(self, s: str) -> str:
        return s

    def boom(self, a: int) -> int:
        raise ValueError("boom")

    def badstream(self, a: int) -> Stream[ScriptState]:
        """A header-less stream whose init always fails: the server answers and then drains the client's input stream."""
        raise ValueError("init refused")

    def okstream(self, a: int) -> Stream[ScriptState]:
        """A header-less producer that finishes at once."""
        return Stream(output_schema=OUT_SCHEMA, state=ScriptState(prog="[]"))

    def hdrstream(self, a: int) -> Stream[ScriptState, Hdr]:
        return Stream(output_schema=OUT_SCHEMA, state=ScriptState(prog="[]"), header=Hdr(h=1))


ADD_SCHEMA = pa.schema([pa.field("a", pa.int64(), nullable=False), pa.field("b", pa.int64(), nullable=False)])


def raw_stream(schema: pa.Schema, batches: list[tuple[pa.RecordBatch, dict[bytes, bytes] | None]]) -> bytes:
    buf = io.BytesIO()
    with ipc.new_stream(buf, schema) as w:
        for b, md in batches:
            if md is None:
                w.write_batch(b)
            else:
                w.write_batch(b, custom_metadata=pa.KeyValueMetadata(md))
    return buf.getvalue()


def summarize(batches: list[tuple[pa.RecordBatch, dict[bytes, bytes]]]) -> dict[str, Any]:
    e = rpcutil.error_of(batches)
    if e is not None:
        return {"error": e["type"], "message": e["message"][:160], "kind": e["kind"] or None}
    vals = [b.to_pylist() for b, md in batches if b.num_rows > 0]
    return {"ok": vals}


_SERVERS: dict[Any, RpcServer] = {}


def probe_server(version: str | None) -> RpcServer:
    """An RpcServer of the probe service that is never served: used to run the request checks as primitives."""
    if version not in _SERVERS:
        _SERVERS[version] = RpcServer(ProbeProtocol if version is None else ProbeProtocolV, ProbeImpl())
    return _SERVERS[version]


def unblock(transport: Any) -> None:
    """End the OUTGOING direction of a transport without touching its reader: a thread may be blocked in that reader, and
    closing a BufferedReader from another thread waits for the lock the blocked read holds (a deadlock of the harness itself).
    The peer then reads EOF, leaves its loop and closes its own side, which in turn unblocks our reader."""
    import socket

    t = getattr(transport, "_pipe", transport)
    sock = getattr(t, "_sock", None)
    if sock is not None:
        with contextlib.suppress(Exception):
            sock.shutdown(socket.SHUT_RDWR)
        return
    with contextlib.suppress(Exception):
        t._writer.close()


class Probe:
    def __init__(self, kind: str = "pipe", version: str | None = None, shm: Any = None) -> None:
        """kind: pipe | unix | shm (pipe pair whose server side is a ShmPipeTransport over the segment `shm`)."""
        ct, st = (make_unix_pair if kind == "unix" else make_pipe_pair)()
        if kind == "shm":
            st = ShmPipeTransport(st, shm)
        self.ct, self.st = ct, st
        self.kind = kind
        self.version = version
        self.server = RpcServer(ProbeProtocol if version is None else ProbeProtocolV, ProbeImpl())
        self.exit: str | None = None
        self.th = threading.Thread(target=self._serve, daemon=True)
        self.th.start()

    def _serve(self) -> None:
        try:
            self.server.serve(self.st)
            self.exit = "returned"
        except BaseException as e:  # noqa: BLE001
            self.exit = f"raised:{type(e).__name__}"
            self.exit_detail = str(e)[:200]
        finally:
            with contextlib.suppress(Exception):
                self.st.close()

    def _half_close(self) -> None:
        if self.kind in ("pipe", "shm"):
            self.ct.writer.close()
        else:
            import socket

            self.ct._sock.shutdown(socket.SHUT_WR)

    def send(self, data: bytes, half_close: bool = False, deadline: float = 5.0, finish: bytes = b"") -> dict[str, Any]:
        """Write `data`, wait for ONE reply stream, then write `finish` (what a lockstep peer sends only after it has seen the
        reply, e.g. the end of a refused stream call's input stream), then the sentinel call."""
        out: dict[str, Any] = {"reply": None, "sentinel": None, "read_exc": None}

        def client() -> None:
            try:
                if data:
                    self.ct.writer.write(data)
                    self.ct.writer.flush()
                if half_close:
                    self._half_close()
                try:
                    _sch, bs = rpcutil.read_stream(self.ct.reader)
                    out["reply"] = summarize(bs)
                except BaseException as e:  # noqa: BLE001
                    out["read_exc"] = f"{type(e).__name__}: {str(e)[:100]}"
                    return
                if not half_close:
                    if finish:
                        self.ct.writer.write(finish)
                    self.ct.writer.write(rpcutil.request_bytes("add", ADD_SCHEMA, {"a": 2, "b": 3}, protocol_version=self.version))
                    self.ct.writer.flush()
                    try:
                        _sch, bs = rpcutil.read_stream(self.ct.reader)
                        out["sentinel"] = summarize(bs)
                    except BaseException as e:  # noqa: BLE001
                        out["sentinel"] = {"exc": f"{type(e).__name__}: {str(e)[:100]}"}
            except BaseException as e:  # noqa: BLE001
                out["read_exc"] = f"write {type(e).__name__}: {str(e)[:100]}"

        c = threading.Thread(target=client, daemon=True)
        c.start()
        c.join(deadline)
        hung = c.is_alive()
        live = out
        out = dict(live)      # what was observed by the deadline (the client thread may still fill `live` once it is unblocked)
        if half_close and not hung:
            self.th.join(deadline)
        out["hung"] = hung
        out["server"] = self.exit if self.exit is not None else "alive"
        out["server_detail"] = getattr(self, "exit_detail", None)
        # classify
        if hung:
            out["outcome"] = "hang"
        elif out["reply"] is None:
            out["outcome"] = "silentStop"
        elif half_close:
            # after our EOF the loop must end; it "continued" if it ended by noticing the EOF (returned), not by dying
            out["outcome"] = "replyContinue" if out["server"] == "returned" and out["reply"].get("error") != "ArrowInvalid" else "replyStop"
        else:
            out["outcome"] = "replyContinue" if out["sentinel"] == {"ok": [[{"result": 5}]]} else "replyStop"
        return out

    def close(self) -> None:
        unblock(self.ct)
        self.th.join(3)
        if self.th.is_alive():
            unblock(self.st)
            self.th.join(3)
        if not self.th.is_alive():
            with contextlib.suppress(Exception):
                self.ct.close()
            with contextlib.suppress(Exception):
                self.st.close()
