"""Lifecycle of the Falcon apps a check builds with ``make_wsgi_app``.

A sticky-enabled app starts a daemon ``vgi-rpc-sticky-reaper`` thread (1 s tick) on its first non-exempt request and never
stops it by itself; a check that builds thousands of apps must stop them or it accumulates thousands of ticking threads.
"""

from __future__ import annotations

import threading
from typing import Any


def dispose(app: Any) -> None:
    """Stop every background helper of an app built by make_wsgi_app (idempotent, never raises)."""
    if app is None:
        return
    for m in getattr(app, "_unprepared_middleware", None) or ():
        stop = getattr(m, "stop_reaper", None)
        if callable(stop):
            try:
                stop()
            except Exception:  # pragma: no cover
                pass


def reaper_threads() -> int:
    return sum(1 for t in threading.enumerate() if t.name.startswith("vgi-rpc-sticky-reaper") and t.is_alive())


_LIVE: list[Any] = []


def track(app: Any) -> Any:
    """Remember an app so that `dispose_all` can stop it once the current unit of work (configuration / sequence) is done."""
    _LIVE.append(app)
    return app


def dispose_all() -> None:
    while _LIVE:
        dispose(_LIVE.pop())
