"""Instrumentation of the two compression libraries as `vgi_rpc._codec` sees them (shared by C17 / C18).

`instrument()` replaces, for the duration of a `with` block,

* ``zstandard.get_frame_parameters`` and ``zstandard.ZstdDecompressor`` (``_codec`` imports the module inside its
  functions and looks both up as attributes), and
* the ``zlib`` global of ``vgi_rpc._codec``

by thin recording wrappers around the real objects.  The wrappers

* record every call the repository's loops make (requested size, what came back, `unconsumed_tail` / `eof`), so
  the Lean model can be run against a *scripted* library that replays exactly these answers and must then issue the
  same requests and reach the same outcome;
* optionally **shorten reads**: a request for ``n`` bytes is forwarded as a request for ``k`` with ``1 ≤ k ≤ n``
  chosen by the seeded rng.  The real library then returns a non-empty prefix of at most ``k ≤ n`` bytes of what is
  left — exactly the nondeterminism the reader contract of `Spec/C18.lean` allows, exercised on the real loop code.

Also: builders of frames of every kind the property quantifies over (one-shot / streaming / Arrow-produced /
hand-patched lying headers / truncated / garbage).
"""

from __future__ import annotations

import contextlib
import gzip as _gzipmod
import io
import random
import zlib as _real_zlib
from dataclasses import dataclass, field
from typing import Any, Iterator

import zstandard

_RealZD = zstandard.ZstdDecompressor
_real_gfp = zstandard.get_frame_parameters


@dataclass
class Trace:
    """What one `_codec.decompress` call asked of the libraries."""

    events: list[tuple[Any, ...]] = field(default_factory=list)

    def clear(self) -> None:
        self.events.clear()

    # ---- conversion to the scripted-library description the Lean driver takes -------------------------------
    def zstd_desc(self) -> dict[str, Any]:
        d: dict[str, Any] = {"raw": None, "oneshot": None, "readall": None, "plain": "", "script": []}
        plain = b""
        for ev in self.events:
            if ev[0] == "params":
                d["raw"] = ev[1]
            elif ev[0] == "oneshot":
                d["oneshot"] = ev[1].hex() if ev[1] is not None else None
            elif ev[0] == "readall":
                d["readall"] = ev[1].hex() if ev[1] is not None else None
            elif ev[0] == "read":
                if ev[2] is None:
                    d["script"].append(-1)
                else:
                    d["script"].append(len(ev[2]))
                    plain += ev[2]
        d["plain"] = plain.hex()
        return d

    def zstd_requests(self) -> list[int]:
        return [ev[1] for ev in self.events if ev[0] == "read"]

    def gzip_desc(self, data_nonempty: bool) -> dict[str, Any]:
        d: dict[str, Any] = {"plain": "", "script": [], "decall": -1, "flush": 0, "eof": False, "nonempty": data_nonempty}
        plain = b""
        flushed = False
        for ev in self.events:
            if ev[0] == "dec":
                if ev[2] is None:
                    d["script"].append([-1, False, False])
                else:
                    d["script"].append([len(ev[2]), bool(ev[3]), bool(ev[4])])
                    plain += ev[2]
            elif ev[0] == "decall":
                if ev[1] is None:
                    d["decall"] = -1
                else:
                    d["decall"] = len(ev[1])
                    plain += ev[1]
            elif ev[0] == "flush":
                flushed = True
                if ev[1] is None:
                    d["flush"] = -1
                else:
                    d["flush"] = len(ev[1])
                    plain += ev[1]
            elif ev[0] == "eof" and flushed:
                d["eof"] = bool(ev[1])
        d["plain"] = plain.hex()
        return d

    def gzip_requests(self) -> list[int]:
        return [ev[1] for ev in self.events if ev[0] == "dec"]

    def decoded_bytes(self) -> int:
        """Bytes of decoded output the library handed over (what the caller materialised)."""
        n = 0
        for ev in self.events:
            if ev[0] in ("read", "dec") and ev[2] is not None:
                n += len(ev[2])
            elif ev[0] in ("oneshot", "readall", "decall", "flush") and ev[1] is not None:
                n += len(ev[1])
        return n


class _ShimReader:
    def __init__(self, real: Any, trace: Trace, rng: random.Random | None) -> None:
        self._r, self._t, self._rng = real, trace, rng

    def __enter__(self) -> "_ShimReader":
        self._r.__enter__()
        return self

    def __exit__(self, *a: Any) -> Any:
        return self._r.__exit__(*a)

    def read(self, size: int = -1) -> bytes:
        if size is None or size < 0:
            try:
                out = self._r.read()
            except Exception:
                self._t.events.append(("readall", None))
                raise
            self._t.events.append(("readall", out))
            return out
        k = size
        if self._rng is not None and size > 1:
            k = self._rng.choice([1, size, size, max(1, size // 2), self._rng.randint(1, size)])
        try:
            out = self._r.read(k)
        except Exception:
            self._t.events.append(("read", size, None))
            raise
        self._t.events.append(("read", size, out))
        return out

    def __getattr__(self, name: str) -> Any:
        return getattr(self._r, name)


def _make_zd(trace: Trace, rng: random.Random | None) -> type:
    class ShimZstdDecompressor:
        def __init__(self, *a: Any, **k: Any) -> None:
            self._d = _RealZD(*a, **k)

        def decompress(self, data: bytes, *a: Any, **k: Any) -> bytes:
            try:
                out = self._d.decompress(data, *a, **k)
            except Exception:
                trace.events.append(("oneshot", None))
                raise
            trace.events.append(("oneshot", out))
            return out

        def stream_reader(self, source: Any, *a: Any, **k: Any) -> _ShimReader:
            return _ShimReader(self._d.stream_reader(source, *a, **k), trace, rng)

        def __getattr__(self, name: str) -> Any:
            return getattr(self._d, name)

    return ShimZstdDecompressor


class _ShimDObj:
    def __init__(self, real: Any, trace: Trace, rng: random.Random | None) -> None:
        self._o, self._t, self._rng = real, trace, rng

    def decompress(self, data: bytes, max_length: int = 0) -> bytes:
        if max_length == 0:
            try:
                out = self._o.decompress(data)
            except Exception:
                self._t.events.append(("decall", None))
                raise
            self._t.events.append(("decall", out))
            return out
        k = max_length
        if self._rng is not None and max_length > 1:
            k = self._rng.choice([1, max_length, max_length, max(1, max_length // 2), self._rng.randint(1, max_length)])
        try:
            out = self._o.decompress(data, k)
        except Exception:
            self._t.events.append(("dec", max_length, None, False, False))
            raise
        self._t.events.append(("dec", max_length, out, bool(self._o.unconsumed_tail), bool(self._o.eof)))
        return out

    def flush(self, *a: Any) -> bytes:
        try:
            out = self._o.flush(*a)
        except Exception:
            self._t.events.append(("flush", None))
            raise
        self._t.events.append(("flush", out))
        return out

    @property
    def unconsumed_tail(self) -> bytes:
        return self._o.unconsumed_tail

    @property
    def unused_data(self) -> bytes:
        return self._o.unused_data

    @property
    def eof(self) -> bool:
        v = self._o.eof
        self._t.events.append(("eof", v))
        return v


class _ShimZlib:
    def __init__(self, trace: Trace, rng: random.Random | None) -> None:
        self._t, self._rng = trace, rng

    def decompressobj(self, *a: Any, **k: Any) -> _ShimDObj:
        return _ShimDObj(_real_zlib.decompressobj(*a, **k), self._t, self._rng)

    def __getattr__(self, name: str) -> Any:
        return getattr(_real_zlib, name)


@contextlib.contextmanager
def instrument(rng: random.Random | None = None) -> Iterator[Trace]:
    """Record (and, with an rng, shorten) every library call made by `vgi_rpc._codec` inside the block."""
    from vgi_rpc import _codec

    trace = Trace()

    def gfp(data: Any, *a: Any, **k: Any) -> Any:
        try:
            p = _real_gfp(data, *a, **k)
        except Exception:
            trace.events.append(("params", None))
            raise
        trace.events.append(("params", int(p.content_size)))
        return p

    saved = (zstandard.ZstdDecompressor, zstandard.get_frame_parameters, _codec.zlib)
    zstandard.ZstdDecompressor = _make_zd(trace, rng)  # type: ignore[misc]
    zstandard.get_frame_parameters = gfp  # type: ignore[assignment]
    _codec.zlib = _ShimZlib(trace, rng)  # type: ignore[assignment]
    try:
        yield trace
    finally:
        zstandard.ZstdDecompressor, zstandard.get_frame_parameters, _codec.zlib = saved  # type: ignore[misc,assignment]


# ------------------------------------------------------------------------------------------------ frames

ZSTD_MAGIC = b"\x28\xb5\x2f\xfd"


def zstd_oneshot(x: bytes, level: int = 3, checksum: bool = False) -> bytes:
    return zstandard.ZstdCompressor(level=level, write_checksum=checksum).compress(x)


def zstd_streaming(x: bytes, level: int = 3, pieces: int = 1) -> bytes:
    """Frame from a streaming compressor: no content size in the header."""
    co = zstandard.ZstdCompressor(level=level).compressobj()
    out = []
    n = max(1, len(x) // max(1, pieces))
    for i in range(0, len(x), n):
        out.append(co.compress(x[i : i + n]))
    out.append(co.flush())
    return b"".join(out)


def zstd_params_streaming(x: bytes, level: int = 1, window_log: int = 0, ldm: bool = False, writer: bool = False) -> bytes:
    """Size-less frame from a streaming compressor with explicit compression parameters: a large `window_log` is what
    the ultra levels 20-22 write (32-128 MiB) — built here from a fast strategy, because setting up a real level-22
    streaming context takes tens of seconds — and `ldm` is long-distance matching (`zstd --long`)."""
    kw: dict[str, Any] = {}
    if window_log:
        kw["window_log"] = window_log
    if ldm:
        kw["enable_ldm"] = True
    cctx = zstandard.ZstdCompressor(compression_params=zstandard.ZstdCompressionParameters.from_level(level, **kw))
    if writer:
        buf = io.BytesIO()
        with cctx.stream_writer(buf, closefd=False) as w:
            w.write(x)
        return buf.getvalue()
    co = cctx.compressobj()
    return co.compress(x) + co.flush()


def zstd_oneshot_params(x: bytes, level: int = 1, window_log: int = 0, ldm: bool = False) -> bytes:
    """Size-declaring frame from the one-shot API with explicit parameters."""
    kw: dict[str, Any] = {}
    if window_log:
        kw["window_log"] = window_log
    if ldm:
        kw["enable_ldm"] = True
    return zstandard.ZstdCompressor(compression_params=zstandard.ZstdCompressionParameters.from_level(level, **kw)).compress(x)


def zstd_stream_writer(x: bytes, level: int = 3, with_size: bool = True) -> bytes:
    """What `_CompressionMiddleware.process_response` does (stream_writer, size known or not)."""
    buf = io.BytesIO()
    cctx = zstandard.ZstdCompressor(level=level)
    kw = {"size": len(x)} if with_size else {}
    with cctx.stream_writer(buf, closefd=False, **kw) as w:
        for i in range(0, len(x), 65536):
            w.write(x[i : i + 65536])
    return buf.getvalue()


def arrow_compressed(x: bytes, codec: str) -> bytes:
    """`pa.CompressedOutputStream` — the pre-compressed producer path."""
    import pyarrow as pa

    sink = pa.BufferOutputStream()
    with pa.CompressedOutputStream(sink, codec) as out:
        out.write(x)
    return sink.getvalue().to_pybytes()


def gzip_zlib(x: bytes, level: int = 6, pieces: int = 1) -> bytes:
    co = _real_zlib.compressobj(level, _real_zlib.DEFLATED, 31)
    out = []
    n = max(1, len(x) // max(1, pieces))
    for i in range(0, len(x), n):
        out.append(co.compress(x[i : i + n]))
    out.append(co.flush(_real_zlib.Z_FINISH))
    return b"".join(out)


def gzip_module(x: bytes, level: int = 6) -> bytes:
    """stdlib `gzip.compress` (header with mtime field; same member format)."""
    return _gzipmod.compress(x, compresslevel=max(0, level), mtime=0)


def fcs_field(frame: bytes) -> tuple[int, int] | None:
    """(offset, width) of the Frame_Content_Size field of a zstd frame header, or None when the frame has none."""
    if frame[:4] != ZSTD_MAGIC or len(frame) < 6:
        return None
    fhd = frame[4]
    fcs_flag = fhd >> 6
    single = (fhd >> 5) & 1
    did_flag = fhd & 3
    off = 5 + (0 if single else 1) + (0, 1, 2, 4)[did_flag]
    width = (1 if single else 0, 2, 4, 8)[fcs_flag]
    if width == 0:
        return None
    return off, width


def patch_declared(frame: bytes, new_size: int) -> bytes | None:
    """Rewrite the declared content size of a size-declaring zstd frame (a *lying* header).  None if it does not fit."""
    f = fcs_field(frame)
    if f is None:
        return None
    off, width = f
    if width == 2:
        v = new_size - 256
        if not 0 <= v < 65536:
            return None
    else:
        v = new_size
        if not 0 <= v < 256**width:
            return None
    return frame[:off] + v.to_bytes(width, "little") + frame[off + width :]


def reference_gzip_ok(data: bytes) -> bool:
    """Is `data` one complete, intact gzip member (possibly followed by other bytes)?  Decided with plain zlib."""
    d = _real_zlib.decompressobj(31)
    try:
        d.decompress(data)
        d.flush()
    except Exception:
        return False
    return bool(d.eof)


def reference_zstd_complete(data: bytes) -> bool:
    """Does `data` start with one complete, intact zstd frame?  Decided with `decompressobj().eof`."""
    d = _RealZD().decompressobj()
    try:
        d.decompress(data)
    except Exception:
        return False
    return bool(d.eof)
