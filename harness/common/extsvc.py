"""External-storage plumbing for generated services (C30).

* `install_tenacity_shim()`   — `tenacity` is not installed in the sandbox and `resolve_external_location` imports it.
* `Store`                     — the repository's fake object store (`vgi_rpc.conformance.fake_storage.serve_in_thread`,
                                loopback) with raw GET/PUT access used to corrupt objects *on the storage side*.
* `RecordingStorage`          — `ExternalStorage` + `UploadUrlProvider` that delegates to the real `FakeStorageBackend`
                                and, right after each upload, lets a mutator rewrite the stored object.
* `build_ext` / `run_script`  — generated services like `svcgen`, but (a) every method takes a `pad` argument so that a
                                request can be made larger than `max_request_bytes` (client upload-URL flow), (b) the
                                server records what the method / `process()` actually received, (c) both ends get an
                                `external_location` config.
"""

import contextlib
import hashlib
import http.client
import io
import json
import sys
import threading
import time
import types
from dataclasses import dataclass, field
from typing import Any, Protocol
from urllib.parse import urlparse

import pyarrow as pa
from pyarrow import ipc

from harness.common import svcgen
from harness.common.svcgen import EVENTS, Hdr, IN_SCHEMA, OUT_SCHEMA, ScriptState, make_exc


def install_tenacity_shim() -> None:
    """Minimal `tenacity` (Retrying / stop_after_attempt / wait_fixed / retry_if_exception_type) — TRUSTED."""
    if "tenacity" in sys.modules:
        return
    ten = types.ModuleType("tenacity")

    class stop_after_attempt:  # noqa: N801
        def __init__(self, n: int) -> None:
            self.n = n

    class wait_fixed:  # noqa: N801
        def __init__(self, s: float) -> None:
            self.s = s

    class retry_if_exception_type:  # noqa: N801
        def __init__(self, t: Any) -> None:
            self.t = t

    class Retrying:
        def __init__(self, stop: Any, wait: Any, retry: Any, reraise: bool = True) -> None:
            self.stop, self.wait, self.retry, self.reraise = stop, wait, retry, reraise

        def __call__(self, fn: Any, *a: Any, **k: Any) -> Any:
            n = 0
            while True:
                n += 1
                try:
                    return fn(*a, **k)
                except BaseException as e:  # noqa: BLE001
                    if not isinstance(e, self.retry.t) or n >= self.stop.n:
                        raise
                    if self.wait.s:
                        time.sleep(self.wait.s)

    ten.Retrying, ten.stop_after_attempt, ten.wait_fixed, ten.retry_if_exception_type = (  # type: ignore[attr-defined]
        Retrying, stop_after_attempt, wait_fixed, retry_if_exception_type)
    ten.__verif_shim__ = True  # type: ignore[attr-defined]
    sys.modules["tenacity"] = ten


install_tenacity_shim()

from vgi_rpc.conformance.fake_storage import FakeStorageBackend, serve_in_thread  # noqa: E402
from vgi_rpc.external import Compression, ExternalLocationConfig  # noqa: E402
from vgi_rpc.external_fetch import FetchConfig  # noqa: E402
from vgi_rpc.log import Level  # noqa: E402
from vgi_rpc.rpc import AnnotatedBatch, CallContext, OutputCollector, RpcConnection, RpcError, RpcServer, Stream  # noqa: E402

# ----------------------------------------------------------------------------------------- storage


class Store:
    """The fake object store on a loopback port + raw (undecoded) access to its blobs."""

    def __init__(self) -> None:
        self.base, self._shutdown = serve_in_thread()
        self.backend = FakeStorageBackend(self.base)
        u = urlparse(self.base)
        self.host, self.port = u.hostname, u.port
        self.fetch_config = FetchConfig()

    def close(self) -> None:
        with contextlib.suppress(Exception):
            self.fetch_config.close()
        with contextlib.suppress(Exception):
            self._shutdown()

    @staticmethod
    def blob_id(url: str) -> str:
        return urlparse(url).path.rsplit("/", 1)[1]

    def raw_get(self, url: str) -> tuple[bytes, str | None] | None:
        """Stored bytes exactly as stored and the stored Content-Encoding (no decoding)."""
        c = http.client.HTTPConnection(self.host, self.port, timeout=10)
        try:
            c.request("GET", f"/blob/{self.blob_id(url)}", headers={"Accept-Encoding": "identity"})
            r = c.getresponse()
            body = r.read()
            if r.status != 200:
                return None
            return body, r.getheader("Content-Encoding")
        finally:
            c.close()

    def raw_put(self, url: str, data: bytes, encoding: str | None) -> None:
        c = http.client.HTTPConnection(self.host, self.port, timeout=10)
        try:
            h = {"Content-Type": "application/octet-stream", "Content-Length": str(len(data))}
            if encoding:
                h["Content-Encoding"] = encoding
            c.request("PUT", f"/blob/{self.blob_id(url)}", body=data, headers=h)
            r = c.getresponse()
            r.read()
            assert r.status == 204, r.status
        finally:
            c.close()

    # The repository's `FakeStorageBackend` adapter speaks this same wire contract (POST /alloc, PUT upload_url) but builds a
    # fresh httpx2 client (and TLS context) per request: 60 ms per upload.  Same endpoints, one plain connection each.
    def alloc(self) -> dict[str, str]:
        c = http.client.HTTPConnection(self.host, self.port, timeout=10)
        try:
            c.request("POST", "/alloc", body=b"{}", headers={"Content-Type": "application/json", "Content-Length": "2"})
            r = c.getresponse()
            body = r.read()
            assert r.status == 200, r.status
            return dict(json.loads(body))
        finally:
            c.close()

    def put_url(self, upload_url: str, data: bytes, encoding: str | None) -> None:
        c = http.client.HTTPConnection(self.host, self.port, timeout=10)
        try:
            h = {"Content-Type": "application/octet-stream", "Content-Length": str(len(data))}
            if encoding:
                h["Content-Encoding"] = encoding
            c.request("PUT", urlparse(upload_url).path, body=data, headers=h)
            r = c.getresponse()
            r.read()
            assert r.status == 204, r.status
        finally:
            c.close()

    def upload(self, data: bytes, content_encoding: str | None) -> str:
        a = self.alloc()
        self.put_url(a["upload_url"], data, content_encoding)
        return a["download_url"]

    def stats(self) -> dict[str, int]:
        c = http.client.HTTPConnection(self.host, self.port, timeout=10)
        try:
            c.request("GET", "/_stats")
            return dict(json.loads(c.getresponse().read()))
        finally:
            c.close()


@dataclass
class Upload:
    index: int
    url: str
    side: str                      # "server" (ExternalStorage.upload) | "client" (PUT to a vended upload URL)
    data: bytes                    # bytes as uploaded
    encoding: str | None


class RecordingStorage:
    """Delegates to the real backend; records every upload; lets `mutator(upload, store)` rewrite the stored object
    after the upload has completed (= a storage-side fault between upload and fetch)."""

    def __init__(self, store: Store, mutator: Any = None) -> None:
        self.store = store
        self.mutator = mutator
        self.uploads: list[Upload] = []
        self.vended: dict[str, str] = {}     # upload_url -> download_url
        self.lock = threading.Lock()

    def _record(self, url: str, side: str, data: bytes, encoding: str | None) -> None:
        with self.lock:
            up = Upload(len(self.uploads), url, side, bytes(data), encoding)
            self.uploads.append(up)
        if self.mutator is not None:
            self.mutator(up, self.store)

    def upload(self, data: bytes, schema: pa.Schema, *, content_encoding: str | None = None) -> str:
        url = self.store.upload(data, content_encoding)
        self._record(url, "server", data, content_encoding)
        return url

    def generate_upload_url(self, schema: pa.Schema) -> Any:
        from datetime import UTC, datetime, timedelta

        from vgi_rpc.external import UploadUrl

        a = self.store.alloc()
        u = UploadUrl(upload_url=a["upload_url"], download_url=a["download_url"], expires_at=datetime.now(UTC) + timedelta(hours=1))
        self.vended[u.upload_url] = u.download_url
        return u

    def client_put_done(self, upload_url: str, data: bytes, encoding: str | None) -> None:
        self._record(self.vended.get(upload_url, upload_url), "client", data, encoding)


# ----------------------------------------------------------------------------------------- generated service


def digest(x: Any) -> str:
    return hashlib.sha256(repr(x).encode()).hexdigest()[:12]


@dataclass
class ExtScriptState(ScriptState):
    """`ScriptState` that also records what `process()` received (rows, first value, application metadata)."""

    def process(self, input: AnnotatedBatch, out: OutputCollector, ctx: CallContext) -> None:
        if self.exchange:
            b = input.batch
            md = {}
            if input.custom_metadata is not None:
                for k, v in dict(input.custom_metadata).items():
                    ks = k.decode() if isinstance(k, bytes) else k
                    if not ks.startswith("vgi_rpc."):
                        md[ks] = v.decode() if isinstance(v, bytes) else v
            EVENTS.append(("input", self.tag, self.i, b.num_rows, digest(b.to_pydict()), sorted(md.items())))
        steps = json.loads(self.prog)
        act = steps[self.i]["act"] if self.i < len(steps) else None
        b = (act.get("emit") or act.get("emit_finish")) if isinstance(act, dict) else None
        if b and b.get("ent"):
            out = _EntropyOut(out, b)      # same call, high-entropy column values
        super().process(input, out, ctx)


def column_values(ident: int, rows: int, ent: str | None) -> list[int]:
    """Column data of an emitted batch: `ident` repeated, or (ent="rand") `ident` followed by incompressible values."""
    if not ent or rows == 0:
        return [ident] * rows
    import random

    r = random.Random(ident * 7919 + rows)
    return [ident] + [r.getrandbits(63) - (1 << 62) for _ in range(rows - 1)]


class _EntropyOut:
    """Proxy for the OutputCollector handed to `ScriptState.process`: `emit_pydict` emits the step's high-entropy column."""

    def __init__(self, out: Any, b: dict[str, Any]) -> None:
        object.__setattr__(self, "_o", out)
        object.__setattr__(self, "_b", b)

    def __getattr__(self, name: str) -> Any:
        return getattr(self._o, name)

    def emit_pydict(self, data: dict[str, Any], metadata: dict[str, str] | None = None) -> None:
        b = self._b
        self._o.emit_pydict({"x": column_values(b["id"], b.get("rows", 1), b.get("ent"))}, metadata=metadata)


DIGESTS: list[str] = []      # content digest of every data batch the client received, in order


def ev_data(ab: AnnotatedBatch) -> list[Any]:
    b = ab.batch
    DIGESTS.append(hashlib.sha256(repr(b.to_pydict()).encode()).hexdigest()[:16])
    return svcgen._ev_data(ab)


def _p_unary(self, a: int, pad: str) -> int: ...
def _p_stream(self, a: int, pad: str) -> Stream[ExtScriptState]: ...
def _p_stream_h(self, a: int, pad: str) -> Stream[ExtScriptState, Hdr]: ...


def build_ext(desc: dict[str, Any]) -> tuple[type, Any]:
    """Like `svcgen.build`, with a `pad: str` parameter on every method and argument recording."""
    pns: dict[str, Any] = {"__module__": __name__}
    ins: dict[str, Any] = {"__module__": __name__}
    for m in desc["methods"]:
        name = m["name"]
        if m["kind"] == "unary":
            pns[name] = svcgen._clone(_p_unary, name)

            def impl_u(self, a: int, pad: str, ctx: CallContext, _m=m) -> int:
                EVENTS.append(("invoke", _m["name"], a, len(pad), digest(pad)))
                for lg in _m.get("logs", []):
                    ctx.client_log(Level(lg["level"]), lg["text"], **lg.get("extra", {}))
                out = _m["out"]
                if "raise" in out:
                    raise make_exc(out["raise"])
                return out["ok"]

            impl_u.__name__ = name
            ins[name] = impl_u
        else:
            hdr = bool(m.get("header"))
            pns[name] = svcgen._clone(_p_stream_h if hdr else _p_stream, name)

            def impl_s(self, a: int, pad: str, ctx: CallContext, _m=m, _hdr=hdr):  # annotations set below
                EVENTS.append(("invoke", _m["name"], a, len(pad), digest(pad)))
                for lg in _m.get("init_logs", []):
                    ctx.client_log(Level(lg["level"]), lg["text"], **lg.get("extra", {}))
                init = _m.get("init", "ok")
                if isinstance(init, dict) and "raise" in init:
                    raise make_exc(init["raise"])
                st = ExtScriptState(prog=json.dumps(_m["steps"]), i=0, exchange=_m["kind"] == "exchange", tag=f"{_m['name']}#{a}")
                kw: dict[str, Any] = {"output_schema": OUT_SCHEMA, "state": st}
                if _m["kind"] == "exchange":
                    kw["input_schema"] = IN_SCHEMA
                if _hdr:
                    kw["header"] = Hdr(h=_m.get("hdr", 0))
                return Stream(**kw)

            impl_s.__name__ = name
            impl_s.__annotations__ = {"a": int, "pad": str, "ctx": CallContext,
                                      "return": Stream[ExtScriptState, Hdr] if hdr else Stream[ExtScriptState]}
            ins[name] = impl_s
    P = type("GenProtoExt", (Protocol,), pns)
    Impl = type("GenImplExt", (), ins)
    return P, Impl()


# ----------------------------------------------------------------------------------------- connection


@dataclass
class ExtCfg:
    """One offload configuration of one transport."""

    kind: str = "pipe"                    # pipe | http | http-up (real httpx2 client: client upload-URL flow enabled)
    threshold: int | None = 0             # server `externalize_threshold_bytes`; None = no storage on the server (inline)
    compression: str | None = None        # None | "zstd" | "gzip"
    level: int = 3
    max_request_bytes: int | None = None  # http-up: requests above this go through the upload-URL flow
    cap: int | None = None                # http: max_response_bytes
    nosha: bool = False                   # simulate a writer that predates vgi_rpc.location.sha256 (pointer without digest)
    max_retries: int = 2

    def label(self) -> str:
        t = "inline" if self.threshold is None else f"thr={self.threshold}"
        s = f"{self.kind}({t},{self.compression or 'none'}"
        if self.kind.startswith("http"):
            s += f",cap={self.cap}"
        if self.max_request_bytes is not None:
            s += f",maxreq={self.max_request_bytes}"
        if self.nosha:
            s += ",nosha"
        return s + ")"


class ExtConn:
    """Client connection + server for one configuration; both ends hold an `external_location` config."""

    def __init__(self, P: type, impl: Any, cfg: ExtCfg, store: Store, storage: RecordingStorage, on_log: Any) -> None:
        self.cfg = cfg
        comp = Compression(cfg.compression, cfg.level) if cfg.compression else None
        common = dict(url_validator=None, retry_delay_seconds=0.0, max_retries=cfg.max_retries, fetch_config=store.fetch_config)
        self.server_cfg = ExternalLocationConfig(storage=storage if cfg.threshold is not None else None,
                                                 externalize_threshold_bytes=cfg.threshold or 0, compression=comp, **common)
        self.client_cfg = ExternalLocationConfig(storage=None, **common)
        self.server = RpcServer(P, impl, enable_describe=True, external_location=self.server_cfg)
        self._stack = contextlib.ExitStack()
        self.thread: threading.Thread | None = None
        if cfg.kind == "pipe":
            from vgi_rpc.rpc import make_pipe_pair

            self.ct, self.st = make_pipe_pair()
            self.thread = threading.Thread(target=self._serve, daemon=True)
            self.thread.start()
            self.proxy = self._stack.enter_context(RpcConnection(P, self.ct, on_log=on_log, external_location=self.client_cfg))
        elif cfg.kind == "http":
            from vgi_rpc.http import http_connect
            from vgi_rpc.http._testing import make_sync_client

            self.client = make_sync_client(self.server, token_key=b"k" * 32, max_response_bytes=cfg.cap)
            self.client._default_headers["Accept-Encoding"] = "identity"
            self.proxy = self._stack.enter_context(
                http_connect(P, client=self.client, on_log=on_log, external_location=self.client_cfg))
        elif cfg.kind == "http-up":
            import httpx2

            from vgi_rpc.http import http_connect, make_wsgi_app

            app = make_wsgi_app(self.server, token_key=b"k" * 32, max_response_bytes=cfg.cap,
                                upload_url_provider=storage, max_request_bytes=cfg.max_request_bytes)

            class _PutHook(httpx2.BaseTransport):
                """Loopback transport to the object store; reports every completed client PUT to the recorder."""

                def __init__(self) -> None:
                    self.inner = httpx2.HTTPTransport()

                def handle_request(self, request: Any) -> Any:
                    body = request.read() if request.method == "PUT" else b""
                    resp = self.inner.handle_request(request)
                    if request.method == "PUT" and 200 <= resp.status_code < 300:
                        resp.read()
                        storage.client_put_done(str(request.url), body, request.headers.get("Content-Encoding"))
                    return resp

                def close(self) -> None:
                    self.inner.close()

            self.client = httpx2.Client(base_url="http://rpc.test", mounts={
                "http://rpc.test": httpx2.WSGITransport(app=app), f"http://{store.host}": _PutHook()})
            self._stack.callback(self.client.close)
            # the sandbox's httpx2 cannot decode zstd responses: request compression off => plain Accept-Encoding
            self.proxy = self._stack.enter_context(
                http_connect(P, client=self.client, on_log=on_log, external_location=self.client_cfg, compression_level=None))
        else:
            raise ValueError(cfg.kind)

    def _serve(self) -> None:
        try:
            self.server.serve(self.st)
        except Exception as e:  # noqa: BLE001
            EVENTS.append(("serve_exit", type(e).__name__, str(e)[:200]))
        finally:
            with contextlib.suppress(Exception):
                self.st.close()

    def close(self) -> None:
        with contextlib.suppress(Exception):
            self._stack.close()
        if self.thread is not None:
            self.thread.join(timeout=5)


@contextlib.contextmanager
def pointers_without_sha(on: bool) -> Any:
    """Simulate a writer that predates `vgi_rpc.location.sha256`: pointer batches are built without the digest."""
    if not on:
        yield
        return
    import vgi_rpc.external as ext
    import vgi_rpc.http._client as hc

    orig = ext.make_external_location_batch

    def no_sha(schema: pa.Schema, url: str, sha256: str | None = None) -> Any:
        return orig(schema, url, None)

    ext.make_external_location_batch = no_sha
    hc.make_external_location_batch = no_sha
    try:
        yield
    finally:
        ext.make_external_location_batch = orig
        hc.make_external_location_batch = orig


@contextlib.contextmanager
def before_each_attempt(hook: Any) -> Any:
    """Run `hook()` at the start of every fetch attempt of `resolve_external_location` (fault sequences: the stored object
    changes between retries).  Patches the `fetch_url` name `_fetch_and_resolve` calls; the real `fetch_url` does the work."""
    import vgi_rpc.external as ext

    real = ext.fetch_url

    def hooked(url: str, config: Any, **kw: Any) -> bytes:
        hook()
        return real(url, config, **kw)

    ext.fetch_url = hooked
    try:
        yield
    finally:
        ext.fetch_url = real


def make_input(v: int, rows: int, meta: dict[str, str] | None = None) -> AnnotatedBatch:
    b = pa.RecordBatch.from_pydict({"v": [v + i for i in range(rows)]}, schema=IN_SCHEMA)
    cm = pa.KeyValueMetadata({k.encode(): val.encode() for k, val in meta.items()}) if meta else None
    return AnnotatedBatch(batch=b, custom_metadata=cm)


def run_script(desc: dict[str, Any], script: list[list[Any]], cfg: ExtCfg, store: Store, mutator: Any = None,
               deadline: float = 30.0) -> dict[str, Any]:
    """Ops: ["call", m, a, padlen] | ["open", m, a, padlen] | ["iter", n|None] | ["send", v, rows, meta?] | ["close"].
    Returns {"trace", "events", "marks", "hung", "uploads": [Upload…]}."""
    EVENTS.clear()
    DIGESTS.clear()
    P, impl = build_ext(desc)
    storage = RecordingStorage(store, mutator)
    cur: list[list[Any]] = []
    on_log = lambda m: cur.append(svcgen._ev_log(m))  # noqa: E731
    trace: list[list[Any]] = []
    marks: list[int] = []          # len(EVENTS) after each op: which server-side records each op caused
    result: dict[str, Any] = {"hung": False}

    def body() -> None:
        with pointers_without_sha(cfg.nosha):
            conn = ExtConn(P, impl, cfg, store, storage, on_log)
            sess: Any = None
            it: Any = None
            try:
                for op in script:
                    cur.clear()
                    kind = op[0]
                    try:
                        if kind not in ("call", "open") and sess is None:
                            cur.append(["nosession"])
                        elif kind == "call":
                            v = getattr(conn.proxy, op[1])(a=op[2], pad="p" * op[3])
                            cur.append(["value", v])
                        elif kind == "open":
                            sess = None
                            it = None
                            sess = getattr(conn.proxy, op[1])(a=op[2], pad="p" * op[3])
                            if sess.header is not None:
                                cur.append(["header", sess.header.h])
                            cur.append(["opened"])
                        elif kind == "iter":
                            n = op[1]
                            if it is None:
                                it = iter(sess)
                            got = 0
                            while n is None or got < n:
                                try:
                                    ab = next(it)
                                except StopIteration:
                                    cur.append(["end"])
                                    break
                                cur.append(ev_data(ab))
                                got += 1
                        elif kind == "send":
                            cur.append(ev_data(sess.exchange(make_input(op[1], op[2], op[3] if len(op) > 3 else None))))
                        elif kind == "close":
                            sess.close()
                            cur.append(["closed"])
                        else:
                            raise ValueError(kind)
                    except RpcError as e:
                        cur.append(svcgen._ev_err(e))
                    except StopIteration:
                        cur.append(["end"])
                    except Exception as e:  # noqa: BLE001
                        cur.append(["raised", type(e).__name__, str(e)[:160]])
                    trace.append([list(x) for x in cur])
                    marks.append(len(EVENTS))
            finally:
                conn.close()

    th = threading.Thread(target=body, daemon=True)
    th.start()
    th.join(deadline)
    if th.is_alive():
        result["hung"] = True
    result["trace"] = [list(t) for t in trace]
    result["events"] = list(EVENTS)
    result["uploads"] = list(storage.uploads)
    result["marks"] = list(marks)
    result["digests"] = list(DIGESTS)
    return result


# ----------------------------------------------------------------------------------------- objects


def decode_object(data: bytes, encoding: str | None) -> bytes | None:
    """What `fetch_url` makes of a stored object: decoded bytes, or None when the named codec fails."""
    from vgi_rpc._codec import Encoding, decompress

    enc = (encoding or "").strip().lower().split(";", 1)[0].strip()
    for e in Encoding:
        if e.value == enc:
            try:
                return decompress(e, data, max_output_size=1 << 30)
            except Exception:  # noqa: BLE001
                return None
    return data


def encode_object(raw: bytes, encoding: str | None, level: int = 3) -> bytes:
    from vgi_rpc._codec import Encoding, compress

    if not encoding:
        return raw
    return compress(Encoding(encoding), raw, level=level)


def parse_stream(raw: bytes) -> dict[str, Any]:
    """pyarrow's reading of some bytes: {"schema": Schema|None, "batches": [(batch, cm dict|None)], "tail": "clean"|"invalid"}
    or {"bad": True, "other": bool} when `open_stream` raises (other = not ArrowInvalid / OSError)."""
    try:
        r = ipc.open_stream(io.BytesIO(raw))
    except (pa.ArrowInvalid, OSError):
        return {"bad": True, "other": False}
    except Exception:  # noqa: BLE001 — e.g. ArrowNotImplementedError: not one of the retry types
        return {"bad": True, "other": True}
    out: list[tuple[pa.RecordBatch, dict[bytes, bytes] | None]] = []
    tail = "clean"
    while True:
        try:
            b, md = r.read_next_batch_with_custom_metadata()
            b.validate(full=True)
        except StopIteration:
            break
        except (pa.ArrowInvalid, OSError):
            tail = "invalid"
            break
        except Exception:  # noqa: BLE001
            tail = "other"
            break
        out.append((b, dict(md) if md is not None else None))
    return {"bad": False, "schema": r.schema, "batches": out, "tail": tail}


def write_stream(schema: pa.Schema, batches: list[tuple[pa.RecordBatch, dict[bytes, bytes] | None]]) -> bytes:
    buf = io.BytesIO()
    w = ipc.new_stream(buf, schema)
    for b, cm in batches:
        if cm is None:
            w.write_batch(b)
        else:
            w.write_batch(b, custom_metadata=pa.KeyValueMetadata(cm))
    w.close()
    return buf.getvalue()
