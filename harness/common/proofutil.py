"""Shared pieces of the proxy-proof checks (C22, C24): the spec oracle written from docs/proxy-proof-spec.md,
a token grammar with field-level mutations, and helpers to drive the real gate in-process with controlled clocks."""

from __future__ import annotations

import hashlib
import hmac as _hmac
import logging
import string
from dataclasses import dataclass, field
from typing import Any

URLSAFE = set(string.ascii_letters + string.digits + "_-")
DIGITS = set(string.digits)
B64_ALPHABET = string.ascii_uppercase + string.ascii_lowercase + string.digits + "-_"
PROOF_HEADER_ENV = "HTTP_VGI_PROXY_PROOF"
REASONS = ("no_proof", "malformed", "unknown_kid", "expired", "not_yet_valid", "bad_mac", "replayed")


# ------------------------------------------------------------------------------------------------ spec (docs only)


def spec_b64url_decode(text: str) -> bytes:
    """base64url without padding, from RFC 4648: concatenate the sextets, keep whole bytes (excess bits dropped)."""
    bits = 0
    n = 0
    for ch in text:
        bits = (bits << 6) | B64_ALPHABET.index(ch)
        n += 6
    extra = n % 8
    bits >>= extra
    return bits.to_bytes((n - extra) // 8, "big")


def spec_b64url_encode(raw: bytes) -> str:
    n = int.from_bytes(raw, "big") if raw else 0
    nbits = len(raw) * 8
    pad = (-nbits) % 6
    n <<= pad
    out = []
    for i in range((nbits + pad) // 6):
        out.append(B64_ALPHABET[(n >> (6 * ((nbits + pad) // 6 - 1 - i))) & 63])
    return "".join(out)


def spec_canonical(kid: str, ts: str, nonce: str, origin: str) -> bytes:
    """§4"""
    return (b"vgi.proxy.proof.v1\x00" + kid.encode() + b"\x00" + ts.encode() + b"\x00" + nonce.encode() + b"\x00"
            + origin.encode())


def spec_mac(secret: bytes, kid: str, ts: str, nonce: str, origin: str) -> bytes:
    return _hmac.new(secret, spec_canonical(kid, ts, nonce, origin), hashlib.sha256).digest()


def spec_mint(secret: bytes, kid: str, ts: int | str, nonce: str, origin: str) -> str:
    """§3: v1.<kid>.<ts>.<nonce>.<mac>"""
    return f"v1.{kid}.{ts}.{nonce}.{spec_b64url_encode(spec_mac(secret, kid, str(ts), nonce, origin))}"


@dataclass
class SpecCache:
    """§10 as far as step 9 needs it: remembered (nonce, expiry) pairs, oldest first."""

    ttl: int
    capacity: int
    entries: list[tuple[str, int]] = field(default_factory=list)


def _byte_len(v: str) -> int:
    return len(v.encode("utf-8", "surrogatepass"))


def spec_table(vals: list[str], now: int, keys: dict[str, tuple[bytes, str]], origin: str, skew: int,
               cache: SpecCache | None, mono: int) -> tuple[str, Any, str]:
    """The §6 table. Returns ("ok", claims, step) or ("err", reason, step); mutates ``cache`` like §10 says.
    ``step`` names the row that decided (used for failure keys and distribution tags)."""
    if len(vals) == 0:
        return "err", "no_proof", "1:absent"
    if len(vals) > 1:
        return "err", "malformed", "2:multi"
    v = vals[0]
    if v == "":
        return "err", "malformed", "2:empty"
    if _byte_len(v) > 512:
        return "err", "malformed", "2:too-long"
    f = v.split(".")
    if len(f) != 5:
        return "err", "malformed", "3:fields"
    if f[0] != "v1":
        return "err", "malformed", "3:version"
    kid, ts, nonce, mac = f[1:]
    if not (1 <= len(kid) <= 64 and all(c in URLSAFE for c in kid)):
        return "err", "malformed", "4:kid"
    if not (1 <= len(ts) <= 20 and all(c in DIGITS for c in ts)):
        return "err", "malformed", "4:ts"
    if not (len(nonce) == 22 and all(c in URLSAFE for c in nonce)):
        return "err", "malformed", "4:nonce"
    if not (len(mac) == 43 and all(c in URLSAFE for c in mac)):
        return "err", "malformed", "4:mac"
    if kid not in keys:
        return "err", "unknown_kid", "5"
    secret, label = keys[kid]
    t = int(ts)
    if now - t > skew:
        return "err", "expired", "6"
    if t - now > skew:
        return "err", "not_yet_valid", "7"
    if spec_b64url_decode(mac) != spec_mac(secret, kid, ts, nonce, origin):
        return "err", "bad_mac", "8"
    if cache is not None:
        live = [(n, e) for n, e in cache.entries if e > mono]
        if any(n == nonce for n, _ in live):
            cache.entries = live
            return "err", "replayed", "9"
        live = live[max(0, len(live) + 1 - cache.capacity):]
        live.append((nonce, mono + cache.ttl))
        cache.entries = live
    claims = {"verified": "true", "proxy": label, "kid": kid, "origin_id": origin, "reason": "ok"}
    return "ok", claims, "ok"


# ------------------------------------------------------------------------------------------------ driving the real code


class FakeClock:
    """stands in for the ``time`` module inside vgi_rpc.http._replay while a cache is constructed"""

    def __init__(self) -> None:
        self.t = 0

    def monotonic(self) -> int:
        return self.t

    def time(self) -> int:  # pragma: no cover - not used by _replay
        return self.t


class quiet_proof_logger:
    """the gate logs one WARNING per refusal; keep 10^4 of them off stderr"""

    def __enter__(self) -> None:
        self.lg = logging.getLogger("vgi_rpc.http._proof")
        self.lg2 = logging.getLogger("vgi_rpc.http")
        self.old = (self.lg.disabled, self.lg2.disabled)
        self.lg.disabled = True
        self.lg2.disabled = True

    def __exit__(self, *a: Any) -> None:
        self.lg.disabled, self.lg2.disabled = self.old


def make_gate(mode: str, origin: str, keys: dict[str, tuple[bytes, str]], skew: int, capacity: int, replay: bool,
              now_fn: Any) -> tuple[Any, FakeClock, Any]:
    """Real ``proxy_proof_gate`` whose wall clock is ``now_fn`` and whose replay cache reads a FakeClock.
    Returns (gate, cache clock, NonceCache | None)."""
    import vgi_rpc.http._replay as _replay
    from vgi_rpc.http._proof import ProxyProofConfig, proxy_proof_gate

    clock = FakeClock()
    real_time = _replay.time
    _replay.time = clock  # NonceCache.__init__ binds `time.monotonic` at construction
    try:
        cfg = ProxyProofConfig(mode=mode, origin_id=origin, secrets=dict(keys), skew_seconds=skew,  # type: ignore[arg-type]
                               replay_capacity=capacity, enable_replay_cache=replay)
        gate = proxy_proof_gate(cfg, now=now_fn)
    finally:
        _replay.time = real_time
    cache = None
    for cell in gate._fn.__closure__ or ():
        try:
            if type(cell.cell_contents).__name__ == "NonceCache":
                cache = cell.cell_contents
        except ValueError:
            pass
    return gate, clock, cache


_ENV_TEMPLATE: dict[str, Any] | None = None


def make_request(raw: str | None) -> Any:
    """A real ``falcon.Request`` whose VGI-Proxy-Proof header value is exactly ``raw`` (``None`` = header absent).
    The WSGI environ is filled directly: ``falcon.testing``'s helper would ``str.strip()`` the value."""
    import falcon
    import falcon.testing.helpers as h

    global _ENV_TEMPLATE
    if _ENV_TEMPLATE is None:
        _ENV_TEMPLATE = h.create_environ(path="/x", method="POST")
    env = dict(_ENV_TEMPLATE)
    if raw is not None:
        env[PROOF_HEADER_ENV] = raw
    return falcon.Request(env)


def join_instances(vals: list[str], sep: str = ",") -> str | None:
    """what a WSGI server hands over for repeated header instances"""
    return None if not vals else sep.join(vals)


def run_gate(gate: Any, raw: str | None) -> dict[str, Any]:
    """Call the real gate; canonicalise the outcome."""
    from vgi_rpc.http._proof import ProofError

    try:
        claims = gate(make_request(raw))
    except ProofError as e:
        return {"kind": "refused", "reason": e.reason, "str": str(e),
                "auth_reason": str(getattr(e, "vgi_auth_reason", None)), "perm": isinstance(e, PermissionError)}
    except BaseException as e:  # noqa: BLE001
        return {"kind": "raised", "what": type(e).__name__, "msg": str(e)[:200]}
    return {"kind": "claims", "claims": dict(claims)}


def hmac_rows(raws: list[str | None], keys: dict[str, tuple[bytes, str]], origin: str) -> list[list[str]]:
    """HMAC table handed to the model: for every 5-field value naming a configured kid, the digest the *real*
    `hmac` gives for the *implementation's* canonical string (so a model/implementation difference in the
    canonical string shows up as a correspondence mismatch)."""
    from vgi_rpc.http._proof import canonical_string

    rows: dict[tuple[bytes, bytes], bytes] = {}
    for raw in raws:
        if not raw:
            continue
        f = raw.split(".")
        if len(f) != 5 or f[1] not in keys:
            continue
        try:
            msg = canonical_string(f[1], f[2], f[3], origin)
        except UnicodeEncodeError:
            continue
        k = keys[f[1]][0]
        rows[(k, msg)] = _hmac.new(k, msg, hashlib.sha256).digest()
    return [[k.hex(), m.hex(), d.hex()] for (k, m), d in rows.items()]


# ------------------------------------------------------------------------------------------------ token grammar

NASTY = [".", ",", "=", " ", "\n", "\t", "\x00", "\r", "é", "ÿ", "１", "١", "/", "+", "~", "!", ":", "K", "\ud800", "𝟏",
         "\x1c", "\x85", "%", "\\"]
VERSIONS = ["v1", "v2", "V1", "v1 ", " v1", "", "v10", "v", "1", "ｖ1", "v１", "v1\n", "v1=", "v\x001"]


def rand_urlsafe(rng: Any, n: int) -> str:
    return "".join(rng.choice(B64_ALPHABET) for _ in range(n))


def mutate_field(rng: Any, s: str, lo: int, hi: int, alphabet: str) -> tuple[str, str]:
    """one field-level mutation: charset violation at first/middle/last, or a length just outside [lo, hi]"""
    kind = rng.choice(["first", "middle", "last", "short", "long", "pad", "nl", "empty", "edge-lo", "edge-hi"])
    if kind in ("first", "middle", "last") and s:
        pos = {"first": 0, "middle": len(s) // 2, "last": len(s) - 1}[kind]
        return s[:pos] + rng.choice(NASTY) + s[pos + 1:], f"charset-{kind}"
    if kind == "short":
        return (s[: lo - 1] if lo >= 1 else ""), "len-lo-1"
    if kind == "long":
        return (s + "".join(rng.choice(alphabet) for _ in range(hi + 1)))[: hi + 1], "len-hi+1"
    if kind == "pad":
        return s + "=", "padding"
    if kind == "nl":
        return s + "\n", "trailing-nl"
    if kind == "empty":
        return "", "empty"
    if kind == "edge-lo":
        return (s + "".join(rng.choice(alphabet) for _ in range(lo)))[:lo], "len-lo"
    return (s + "".join(rng.choice(alphabet) for _ in range(hi)))[:hi], "len-hi"
