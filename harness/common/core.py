"""Shared plumbing of every check: context, counters, evidence, findings, classification.

A property module ``harness/cNN.py`` defines

    PROPERTY     = "C09"
    LEAN_MODULES = ["VgiVerif.Proofs.C09"]              # built before the run (proof obligations)
    OBLIGATIONS  = ["VgiVerif.C09.semver_spec", ...]    # property theorems (full Lean names)
    TRUSTED      = ["..."]                              # what is modelled, not verified (strings)
    RULE         = "how cases are generated and what makes one non-trivial"
    def run(ctx): ...                                   # generate cases, call ctx.* below

and reports through the :class:`Ctx` it is handed:

    ctx.case(case, nontrivial=True, tags=(...))   count one explored case (hashable via JSON)
    ctx.mismatch(case, model=..., impl=..., what=...)   K: model and implementation disagree
    ctx.fail(case, key=..., what=...)                   O: the property itself fails on the real code
    ctx.note(name, value)                               extra evidence keys
"""

from __future__ import annotations

import hashlib
import json
import os
import random
import time
from dataclasses import dataclass, field
from pathlib import Path
from typing import Any

VERIF = Path(__file__).resolve().parents[2]
REPO = Path(os.environ.get("VERIF_REPO", "/repo"))


def canon(obj: Any) -> str:
    return json.dumps(obj, sort_keys=True, default=_default, ensure_ascii=True, separators=(",", ":"))


def _default(o: Any) -> Any:
    if isinstance(o, (bytes, bytearray, memoryview)):
        return {"hex": bytes(o).hex()}
    if isinstance(o, (set, frozenset)):
        return sorted(_default(x) if not isinstance(x, (str, int, float, bool, type(None))) else x for x in o)
    if isinstance(o, tuple):
        return list(o)
    return repr(o)


@dataclass
class Failure:
    case: Any
    key: str
    what: str


@dataclass
class Mismatch:
    case: Any
    model: Any
    impl: Any
    what: str


@dataclass
class Ctx:
    prop: str
    tier: str
    seed: int
    driver: Any = None  # LeanDriver (may be None if the driver could not be built)
    rng: random.Random = field(default_factory=random.Random)
    evaluations: int = 0
    distinct: set[str] = field(default_factory=set)
    samples: list[Any] = field(default_factory=list)
    tags: dict[str, int] = field(default_factory=dict)
    failures: list[Failure] = field(default_factory=list)
    mismatches: list[Mismatch] = field(default_factory=list)
    notes: dict[str, Any] = field(default_factory=dict)
    deep: bool = False  # True when a proof/correspondence is broken and the search budget is raised
    source_drift: list[str] = field(default_factory=list)
    t0: float = field(default_factory=time.time)
    exhaustive: bool = False
    max_samples: int = 6

    def __post_init__(self) -> None:
        self.rng = random.Random(f"{self.prop}:{self.seed}")

    # ------------------------------------------------------------------ budgets
    def budget(self, quick: int, thorough: int) -> int:
        n = thorough if self.tier == "thorough" else quick
        if self.deep and self.tier != "thorough":
            n = min(thorough, n * 4)
        scale = float(os.environ.get("VERIF_SCALE", "1"))
        return max(1, int(n * scale))

    # ------------------------------------------------------------------ reporting
    def case(self, case: Any, nontrivial: bool = True, tags: tuple[str, ...] | list[str] = ()) -> None:
        self.evaluations += 1
        if nontrivial:
            h = hashlib.blake2b(canon(case).encode(), digest_size=12).hexdigest()
            if h not in self.distinct:
                self.distinct.add(h)
                # keep a spread of samples: first few distinct cases
                if len(self.samples) < self.max_samples and (len(self.distinct) % 7 == 1 or len(self.samples) < 2):
                    self.samples.append(json.loads(canon(case)))
        for t in tags:
            self.tags[t] = self.tags.get(t, 0) + 1

    def tag(self, *tags: str) -> None:
        for t in tags:
            self.tags[t] = self.tags.get(t, 0) + 1

    def mismatch(self, case: Any, model: Any, impl: Any, what: str = "model != implementation") -> None:
        if len(self.mismatches) < 50:
            self.mismatches.append(Mismatch(json.loads(canon(case)), json.loads(canon(model)), json.loads(canon(impl)), what))
        else:
            self.notes["mismatches_dropped"] = self.notes.get("mismatches_dropped", 0) + 1

    def fail(self, case: Any, key: str, what: str) -> None:
        if len(self.failures) < 200:
            self.failures.append(Failure(json.loads(canon(case)), key, what))
        else:
            self.notes["failures_dropped"] = self.notes.get("failures_dropped", 0) + 1

    def note(self, name: str, value: Any) -> None:
        self.notes[name] = value

    def elapsed(self) -> float:
        return time.time() - self.t0


# ---------------------------------------------------------------------- known findings


def load_findings(prop: str) -> list[dict[str, Any]]:
    """Known findings of one property: known_findings/<prop>.json (source), aggregated into known_findings.json."""
    p = VERIF / "known_findings" / f"{prop}.json"
    if p.exists():
        return [f for f in json.loads(p.read_text()).get("findings", []) if f.get("property") == prop]
    p = VERIF / "known_findings.json"
    if not p.exists():
        return []
    data = json.loads(p.read_text())
    return [f for f in data.get("findings", []) if f.get("property") == prop]


def match_finding(findings: list[dict[str, Any]], key: str) -> dict[str, Any] | None:
    """A failure key matches an *open* finding when equal, or when the finding key ends with '*' and is a prefix."""
    for f in findings:
        if f.get("status") != "open":
            continue
        k = f["key"]
        if k == key or (k.endswith("*") and key.startswith(k[:-1])):
            return f
    return None
