"""Generated-service harness: build a real Protocol + implementation from a JSON descriptor, run a client script over
any transport configuration, and return the canonical trace a client observed.

The SAME descriptor is sent to the Lean driver (`Engine.*`), so model and implementation execute the same program.

Descriptor
----------
{"methods": [
   {"name": "u0", "kind": "unary", "logs": [LOG…], "out": {"ok": 5} | {"raise": EXC}},
   {"name": "p0", "kind": "producer" | "exchange", "header": bool, "hdr": 7, "init_logs": [LOG…],
    "init": "ok" | {"raise": EXC} | "nonstream" | "noheader",
    "steps": [{"logs": [LOG…], "act": {"emit": B} | "finish" | {"emit_finish": B} | {"raise": EXC} | "nothing",
               "post": [LOG…]   (logs emitted after the data batch, same process() call)}, …]}]}
LOG = {"level": "INFO", "text": "…", "extra": {"k": "v"}}        B = {"id": 3, "rows": 1, "meta": {"a": "b"}}
EXC = {"cls": "ValueError", "arg": "boom"}                       (str(exc), class name and error_kind are computed here)

A producer's k-th process() call plays steps[k] (past the end: "finish"); an exchange's k-th input plays steps[k]
(past the end: {"emit": {"id": 1000+k}}).

Script (client ops on one connection)
-------------------------------------
["call", m, a] | ["open", m, a] | ["iter", n|None] | ["tick"] | ["send", v, variant] | ["close"] | ["cancel"]
Trace = list (one entry per op) of event lists; events:
  ["value", v] ["header", h] ["data", id, rows, meta] ["log", level, text, extra] ["error", type, message, kind]
  ["end"] ["refused", type] ["opened"] ["raised", pyexc]     (raised = a non-RpcError exception reached the caller)
"""

import contextlib
import json
import threading
from dataclasses import dataclass
from typing import Any, Protocol

import pyarrow as pa

from vgi_rpc.log import Level
from vgi_rpc.rpc import (
    AnnotatedBatch,
    CallContext,
    OutputCollector,
    RpcConnection,
    RpcError,
    RpcServer,
    Stream,
    StreamState,
    make_pipe_pair,
)
from vgi_rpc.utils import ArrowSerializableDataclass

OUT_SCHEMA = pa.schema([("x", pa.int64())])
IN_SCHEMA = pa.schema([("v", pa.int64())])
OUT2_SCHEMA = pa.schema([("x", pa.int64()), ("y", pa.int64())])   # "wide" exchange methods (desc: "wide": true)
IN2_SCHEMA = pa.schema([("v", pa.int64()), ("w", pa.int64())])


# ----------------------------------------------------------------------------------------- exceptions


class CustomError(Exception):
    """A user-defined exception class."""


class KindedError(Exception):
    """A user-defined exception advertising an error_kind."""

    error_kind = "custom_kind"


def exc_classes() -> dict[str, type[BaseException]]:
    from vgi_rpc.rpc import _common as c

    d: dict[str, type[BaseException]] = {
        "ValueError": ValueError, "RuntimeError": RuntimeError, "KeyError": KeyError, "TypeError": TypeError,
        "ZeroDivisionError": ZeroDivisionError, "PermissionError": PermissionError, "CustomError": CustomError,
        "KindedError": KindedError,
        # classes the framework's own control flow also uses: raised by user code they are implementation errors like any other
        "StopIteration": StopIteration, "BrokenPipeError": BrokenPipeError, "ConnectionResetError": ConnectionResetError,
        "OSError": OSError, "EOFError": EOFError, "ArrowInvalid": pa.ArrowInvalid, "TimeoutError": TimeoutError,
    }
    for n in ("MethodNotImplementedError", "SessionLostError", "ServerDrainingError", "ProtocolVersionError"):
        if hasattr(c, n):
            d[n] = getattr(c, n)
    return d


def make_exc(e: dict[str, Any]) -> BaseException:
    return exc_classes()[e["cls"]](e["arg"])


def exc_view(e: dict[str, Any]) -> dict[str, Any]:
    """What the descriptor's exception looks like to the spec: class name, str(exc), declared error_kind."""
    x = make_exc(e)
    k = getattr(x, "error_kind", None)
    return {"type": type(x).__name__, "text": str(x), "kind": k if isinstance(k, str) else None}


# ----------------------------------------------------------------------------------------- state / header


@dataclass
class Hdr(ArrowSerializableDataclass):
    h: int


@dataclass
class ScriptState(StreamState):
    """Plays a step script; everything it needs travels in its own (serialisable) fields."""

    prog: str
    i: int = 0
    exchange: bool = False
    tag: str = ""

    def process(self, input: AnnotatedBatch, out: OutputCollector, ctx: CallContext) -> None:
        steps = json.loads(self.prog)
        k = self.i
        self.i = k + 1
        EVENTS.append(("process", self.tag, k))
        if k < len(steps):
            step = steps[k]
        elif self.exchange:
            step = {"logs": [], "act": {"emit": {"id": 1000 + k}}}
        else:
            step = {"logs": [], "act": "finish"}
        for lg in step.get("logs", []):
            out.client_log(Level(lg["level"]), lg["text"], **lg.get("extra", {}))
        act = step["act"]
        if act == "finish":
            for lg in step.get("post", []):
                out.client_log(Level(lg["level"]), lg["text"], **lg.get("extra", {}))
            out.finish()
        elif act == "nothing":
            return
        elif "emit" in act or "emit_finish" in act:
            b = act.get("emit") or act.get("emit_finish")
            if b.get("alias"):
                # zero-copy output that re-uses the INPUT's buffers in another column layout (x <- w, y <- v): over a
                # shared-memory transport this is only safe while the input's region stays allocated until the output is written
                ib = input.batch
                out.emit(pa.RecordBatch.from_arrays([ib.column(1), ib.column(0)], schema=OUT2_SCHEMA), metadata=b.get("meta") or None)
            elif len(input.batch.schema) == 2:
                out.emit_pydict({"x": [b["id"]] * b.get("rows", 1), "y": [0] * b.get("rows", 1)}, metadata=b.get("meta") or None)
            else:
                out.emit_pydict({"x": [b["id"]] * b.get("rows", 1)}, metadata=b.get("meta") or None)
            for lg in step.get("post", []):
                out.client_log(Level(lg["level"]), lg["text"], **lg.get("extra", {}))
            if "emit_finish" in act:
                out.finish()
        elif "raise" in act:
            raise make_exc(act["raise"])

    def on_cancel(self, ctx: CallContext) -> None:
        EVENTS.append(("on_cancel", self.tag, self.i))


EVENTS: list[tuple[Any, ...]] = []  # server-side instrumentation (process / on_cancel / method invocations)


def _p_unary(self, a: int) -> int: ...
def _p_stream(self, a: int) -> Stream[ScriptState]: ...
def _p_stream_h(self, a: int) -> Stream[ScriptState, Hdr]: ...


def _clone(fn: Any, name: str) -> Any:
    import types

    g = types.FunctionType(fn.__code__, fn.__globals__, name, fn.__defaults__, fn.__closure__)
    g.__annotations__ = dict(fn.__annotations__)
    g.__qualname__ = name
    return g


def build(desc: dict[str, Any], version: str | None = None) -> tuple[type, Any]:
    """Return (ProtocolClass, implementation instance)."""
    pns: dict[str, Any] = {"__module__": __name__}
    ins: dict[str, Any] = {"__module__": __name__}
    if version is not None:
        pns["protocol_version"] = version
    for m in desc["methods"]:
        name = m["name"]
        if m["kind"] == "unary":
            pns[name] = _clone(_p_unary, name)

            def impl_u(self, a: int, ctx: CallContext, _m=m) -> int:
                EVENTS.append(("invoke", _m["name"], a))
                for lg in _m.get("logs", []):
                    ctx.client_log(Level(lg["level"]), lg["text"], **lg.get("extra", {}))
                out = _m["out"]
                if "raise" in out:
                    raise make_exc(out["raise"])
                return out["ok"]

            impl_u.__name__ = name
            ins[name] = impl_u
        else:
            hdr = bool(m.get("header"))
            pns[name] = _clone(_p_stream_h if hdr else _p_stream, name)

            def impl_s(self, a: int, ctx: CallContext, _m=m, _hdr=hdr):  # annotations set below
                EVENTS.append(("invoke", _m["name"], a))
                for lg in _m.get("init_logs", []):
                    ctx.client_log(Level(lg["level"]), lg["text"], **lg.get("extra", {}))
                init = _m.get("init", "ok")
                if isinstance(init, dict) and "raise" in init:
                    raise make_exc(init["raise"])
                if init == "nonstream":
                    return 42
                st = ScriptState(prog=json.dumps(_m["steps"]), i=0, exchange=_m["kind"] == "exchange", tag=_m["name"])
                wide = bool(_m.get("wide")) and _m["kind"] == "exchange"
                kw: dict[str, Any] = {"output_schema": OUT2_SCHEMA if wide else OUT_SCHEMA, "state": st}
                if _m["kind"] == "exchange":
                    kw["input_schema"] = IN2_SCHEMA if wide else IN_SCHEMA
                if _m["kind"] == "producer" and _m.get("explicit_empty_input"):
                    # a producer may spell out its (empty) input schema with an equal-but-not-identical schema object
                    kw["input_schema"] = pa.schema([])
                if _hdr and init != "noheader":
                    kw["header"] = Hdr(h=_m.get("hdr", 0))
                return Stream(**kw)

            impl_s.__name__ = name
            impl_s.__annotations__ = {"a": int, "ctx": CallContext, "return": Stream[ScriptState, Hdr] if hdr else Stream[ScriptState]}
            ins[name] = impl_s
    P = type("GenProto", (Protocol,), pns)
    Impl = type("GenImpl", (), ins)
    return P, Impl()


# ----------------------------------------------------------------------------------------- transports


@dataclass
class Config:
    kind: str = "pipe"                 # pipe | unix | tcp | shm | http
    cap: int | None = None             # http: max_response_bytes
    codec: str | None = "zstd"         # http: response compression the client asks for: None|"zstd"|"gzip"
    shm_size: int = 1 << 20
    ext_threshold: int | None = None   # externalisation threshold (None = off) — needs storage wired by caller

    def label(self) -> str:
        if self.kind == "http":
            return f"http(cap={self.cap},codec={self.codec})"
        return self.kind


class Conn:
    """A live client connection to a generated service over one transport configuration."""

    def __init__(self, P: type, impl: Any, cfg: Config, on_log: Any, server_kwargs: dict[str, Any] | None = None,
                 wsgi_kwargs: dict[str, Any] | None = None) -> None:
        self.cfg = cfg
        self.server = RpcServer(P, impl, enable_describe=True, **(server_kwargs or {}))
        self._stack = contextlib.ExitStack()
        self.thread: threading.Thread | None = None
        self.shm = None
        if cfg.kind in ("pipe", "unix", "tcp", "shm"):
            from vgi_rpc.rpc import ShmPipeTransport, make_tcp_pair, make_unix_pair

            mk = {"pipe": make_pipe_pair, "unix": make_unix_pair, "tcp": make_tcp_pair, "shm": make_pipe_pair}[cfg.kind]
            ct, st = mk()
            if cfg.kind == "shm":
                from vgi_rpc.shm import ShmSegment

                self.shm = ShmSegment.create(cfg.shm_size)
                ct = ShmPipeTransport(ct, self.shm)
                st = ShmPipeTransport(st, self.shm)
            self.ct, self.st = ct, st
            self.thread = threading.Thread(target=self._serve, daemon=True)
            self.thread.start()
            self.proxy = self._stack.enter_context(RpcConnection(P, ct, on_log=on_log))
        elif cfg.kind == "http":
            from vgi_rpc.http import http_connect
            from vgi_rpc.http._testing import make_sync_client

            kw = dict(token_key=b"k" * 32, max_response_bytes=cfg.cap)
            kw.update(wsgi_kwargs or {})
            self.client = make_sync_client(self.server, **kw)
            if cfg.codec is None:
                self.client._default_headers["Accept-Encoding"] = "identity"
            else:
                self.client._default_headers["Accept-Encoding"] = cfg.codec
            self.proxy = self._stack.enter_context(http_connect(P, client=self.client, on_log=on_log))
        else:
            raise ValueError(cfg.kind)

    def _serve(self) -> None:
        try:
            self.server.serve(self.st)
        except Exception as e:  # noqa: BLE001
            EVENTS.append(("serve_exit", type(e).__name__, str(e)[:200]))
        finally:
            with contextlib.suppress(Exception):
                self.st.close()

    def close(self) -> None:
        with contextlib.suppress(Exception):
            self._stack.close()
        if self.thread is not None:
            self.thread.join(timeout=5)
        if self.shm is not None:
            with contextlib.suppress(Exception):
                self.shm.unlink()
            with contextlib.suppress(Exception):
                self.shm.close()


# ----------------------------------------------------------------------------------------- script runner


def _ev_log(msg: Any) -> list[Any]:
    extra = {k: v for k, v in (msg.extra or {}).items() if k not in ("server_id", "request_id")}
    return ["log", msg.level.value, msg.message, dict(sorted(extra.items()))]


def _ev_err(e: RpcError) -> list[Any]:
    return ["error", e.error_type, e.error_message, getattr(e, "error_kind", None)]


def _ev_data(ab: AnnotatedBatch) -> list[Any]:
    b = ab.batch
    x = b.column("x").to_pylist() if "x" in b.schema.names else []
    md = {}
    if ab.custom_metadata is not None:
        for k, v in dict(ab.custom_metadata).items():
            ks = k.decode() if isinstance(k, bytes) else k
            if not ks.startswith("vgi_rpc."):
                md[ks] = v.decode() if isinstance(v, bytes) else v
    if "y" in b.schema.names:
        # two-column (wide) outputs are identified by their whole content, not by their first value
        return ["data", wide_digest(x, b.column("y").to_pylist()), b.num_rows, dict(sorted(md.items()))]
    return ["data", x[0] if x else None, b.num_rows, dict(sorted(md.items()))]


def wide_digest(x: list[int], y: list[int]) -> int:
    """Content digest of a two-column batch (order- and column-sensitive), small enough for a JSON number."""
    h = 17
    for i, (a, c) in enumerate(zip(x, y)):
        h = (h * 1_000_003 + a * 31 + c * 7 + i) % 2_147_483_629
    return h


def wide_input_values(v: int, rows: int) -> tuple[list[int], list[int]]:
    return [v * 1_000_000 + j for j in range(rows)], [-(v * 1_000_000 + 3 * j + 1) for j in range(rows)]


def make_wide_input(v: int, rows: int) -> AnnotatedBatch:
    a, c = wide_input_values(v, rows)
    return AnnotatedBatch.from_pydict({"v": a, "w": c}, schema=IN2_SCHEMA)


def run_script(desc: dict[str, Any], script: list[list[Any]], cfg: Config, *, version: str | None = None,
               deadline: float = 20.0, server_kwargs: dict[str, Any] | None = None,
               wsgi_kwargs: dict[str, Any] | None = None) -> dict[str, Any]:
    """Run the client script; returns {"trace": [[events…] per op], "events": server instrumentation, "hung": bool}."""
    EVENTS.clear()
    P, impl = build(desc, version)
    cur: list[list[Any]] = []
    on_log = lambda m: cur.append(_ev_log(m))  # noqa: E731
    trace: list[list[Any]] = []
    result: dict[str, Any] = {"hung": False}

    def body() -> None:
        conn = Conn(P, impl, cfg, on_log, server_kwargs, wsgi_kwargs)
        sess: Any = None
        it: Any = None
        try:
            for op in script:
                cur.clear()
                kind = op[0]
                try:
                    if kind not in ("call", "open") and sess is None:
                        cur.append(["nosession"])   # the open failed: there is no session object to use
                    elif kind == "call":
                        v = getattr(conn.proxy, op[1])(a=op[2])
                        cur.append(["value", v])
                    elif kind == "open":
                        sess = None
                        it = None
                        sess = getattr(conn.proxy, op[1])(a=op[2])
                        if sess.header is not None:
                            cur.append(["header", sess.header.h])
                        cur.append(["opened"])
                    elif kind == "iter":
                        n = op[1]
                        if it is None:
                            it = iter(sess)
                        got = 0
                        while n is None or got < n:
                            try:
                                ab = next(it)
                            except StopIteration:
                                cur.append(["end"])
                                break
                            cur.append(_ev_data(ab))
                            got += 1
                    elif kind == "tick":
                        try:
                            cur.append(_ev_data(sess.tick()))
                        except StopIteration:
                            cur.append(["end"])
                    elif kind == "send":
                        variant = op[2] if len(op) > 2 else "ok"
                        if isinstance(variant, dict) and "wide_rows" in variant:
                            cur.append(_ev_data(sess.exchange(make_wide_input(op[1], variant["wide_rows"]))))
                        else:
                            cur.append(_ev_data(sess.exchange(make_input(op[1], variant))))
                    elif kind == "close":
                        sess.close()
                        cur.append(["closed"])
                    elif kind == "cancel":
                        sess.cancel()
                        cur.append(["cancelled"])
                    else:
                        raise ValueError(kind)
                except RpcError as e:
                    cur.append(_ev_err(e))
                except StopIteration:
                    cur.append(["end"])
                except Exception as e:  # noqa: BLE001
                    cur.append(["raised", type(e).__name__, str(e)[:200]])
                trace.append([list(x) for x in cur])
        finally:
            conn.close()

    th = threading.Thread(target=body, daemon=True)
    th.start()
    th.join(deadline)
    if th.is_alive():
        result["hung"] = True
    result["trace"] = [list(t) for t in trace]
    result["events"] = list(EVENTS)
    return result


def make_input(v: int, variant: str = "ok") -> AnnotatedBatch:
    """Input batches for exchange streams: conforming, reordered/compatibly typed, or a different field set."""
    if variant == "ok":
        return AnnotatedBatch.from_pydict({"v": [v]}, schema=IN_SCHEMA)
    if variant == "int32":
        return AnnotatedBatch.from_pydict({"v": [v]}, schema=pa.schema([("v", pa.int32())]))
    if variant == "extra":
        return AnnotatedBatch.from_pydict({"v": [v], "w": [v]}, schema=pa.schema([("v", pa.int64()), ("w", pa.int64())]))
    if variant == "renamed":
        return AnnotatedBatch.from_pydict({"z": [v]}, schema=pa.schema([("z", pa.int64())]))
    if variant == "string":
        return AnnotatedBatch.from_pydict({"v": [str(v)]}, schema=pa.schema([("v", pa.string())]))
    raise ValueError(variant)
