"""Op-level generated services (C07 / C08): a superset of `svcgen` descriptors.

New dimensions
  * a stream step is an ORDERED list of operations, so every order of emit / client_log / finish / raise inside one
    `process()` call can be generated:      {"ops": [["emit", B], ["log", LOG], ["raise", EXC]]}
    (svcgen's {"logs", "act", "post"} steps are accepted too and converted);
  * result-schema shapes: a unary method declared `-> None` ("ret": "none"), streams whose output schema is the EMPTY schema
    ("schema": "empty"; their data batches have no columns);
  * client logs emitted from `on_cancel` ("cancel_logs": [LOG…]).

`run_script` is svcgen's own runner (same script language, same trace format) with this module's `build`.
"""

import json
from dataclasses import dataclass
from typing import Any, Protocol

import pyarrow as pa

from harness.common import svcgen
from harness.common.svcgen import EVENTS, IN_SCHEMA, OUT_SCHEMA, Config, Hdr, make_exc
from vgi_rpc.log import Level
from vgi_rpc.rpc import AnnotatedBatch, CallContext, OutputCollector, Stream, StreamState

EMPTY_SCHEMA = pa.schema([])


def step_ops(step: dict[str, Any]) -> list[list[Any]]:
    """svcgen step -> op list (an op-level step is returned as is)."""
    if "ops" in step:
        return [list(o) for o in step["ops"]]
    ops: list[list[Any]] = [["log", x] for x in step.get("logs", [])]
    act = step["act"]
    post = [["log", x] for x in step.get("post", [])]
    if act == "finish":
        return ops + post + [["finish"]]
    if act == "nothing":
        return ops
    if "emit" in act:
        return ops + [["emit", act["emit"]]] + post
    if "emit_finish" in act:
        return ops + [["emit", act["emit_finish"]]] + post + [["finish"]]
    return ops + [["raise", act["raise"]]]


@dataclass
class OpState(StreamState):
    """Plays op-level steps; everything it needs travels in its own (serialisable) fields."""

    prog: str
    i: int = 0
    exchange: bool = False
    tag: str = ""
    empty: bool = False
    cancel_logs: str = "[]"

    def process(self, input: AnnotatedBatch, out: OutputCollector, ctx: CallContext) -> None:
        steps = json.loads(self.prog)
        k = self.i
        self.i = k + 1
        EVENTS.append(("process", self.tag, k))
        if k < len(steps):
            ops = step_ops(steps[k])
        elif self.exchange:
            ops = [["emit", {"id": 1000 + k}]]
        else:
            ops = [["finish"]]
        for op in ops:
            if op[0] == "log":
                lg = op[1]
                out.client_log(Level(lg["level"]), lg["text"], **lg.get("extra", {}))
            elif op[0] == "emit":
                b = op[1]
                if self.empty:
                    out.emit(pa.RecordBatch.from_pydict({}, schema=EMPTY_SCHEMA), metadata=b.get("meta") or None)
                else:
                    out.emit_pydict({"x": [b["id"]] * b.get("rows", 1)}, metadata=b.get("meta") or None)
            elif op[0] == "finish":
                out.finish()
            elif op[0] == "raise":
                raise make_exc(op[1])
            else:
                raise ValueError(op[0])

    def on_cancel(self, ctx: CallContext) -> None:
        EVENTS.append(("on_cancel", self.tag, self.i))
        for lg in json.loads(self.cancel_logs):
            ctx.client_log(Level(lg["level"]), lg["text"], **lg.get("extra", {}))


def _p_unary(self, a: int) -> int: ...
def _p_unary_none(self, a: int) -> None: ...
def _p_stream(self, a: int) -> Stream[OpState]: ...
def _p_stream_h(self, a: int) -> Stream[OpState, Hdr]: ...


def build(desc: dict[str, Any], version: str | None = None) -> tuple[type, Any]:
    """Return (ProtocolClass, implementation instance)."""
    pns: dict[str, Any] = {"__module__": __name__}
    ins: dict[str, Any] = {"__module__": __name__}
    if version is not None:
        pns["protocol_version"] = version
    for m in desc["methods"]:
        name = m["name"]
        if m["kind"] == "unary":
            none = m.get("ret") == "none"
            pns[name] = svcgen._clone(_p_unary_none if none else _p_unary, name)

            def impl_u(self, a: int, ctx: CallContext, _m=m, _none=none):  # annotations set below
                EVENTS.append(("invoke", _m["name"], a))
                for lg in _m.get("logs", []):
                    ctx.client_log(Level(lg["level"]), lg["text"], **lg.get("extra", {}))
                out = _m["out"]
                if "raise" in out:
                    raise make_exc(out["raise"])
                return None if _none else out["ok"]

            impl_u.__name__ = name
            impl_u.__annotations__ = {"a": int, "ctx": CallContext, "return": None if none else int}
            ins[name] = impl_u
        else:
            hdr = bool(m.get("header"))
            pns[name] = svcgen._clone(_p_stream_h if hdr else _p_stream, name)

            def impl_s(self, a: int, ctx: CallContext, _m=m, _hdr=hdr):  # annotations set below
                EVENTS.append(("invoke", _m["name"], a))
                for lg in _m.get("init_logs", []):
                    ctx.client_log(Level(lg["level"]), lg["text"], **lg.get("extra", {}))
                init = _m.get("init", "ok")
                if isinstance(init, dict) and "raise" in init:
                    raise make_exc(init["raise"])
                empty = _m.get("schema") == "empty"
                st = OpState(prog=json.dumps(_m["steps"]), i=0, exchange=_m["kind"] == "exchange", tag=_m["name"], empty=empty,
                             cancel_logs=json.dumps(_m.get("cancel_logs", [])))
                kw: dict[str, Any] = {"output_schema": EMPTY_SCHEMA if empty else OUT_SCHEMA, "state": st}
                if _m["kind"] == "exchange":
                    kw["input_schema"] = IN_SCHEMA
                if _hdr:
                    kw["header"] = Hdr(h=_m.get("hdr", 0))
                return Stream(**kw)

            impl_s.__name__ = name
            impl_s.__annotations__ = {"a": int, "ctx": CallContext, "return": Stream[OpState, Hdr] if hdr else Stream[OpState]}
            ins[name] = impl_s
    P = type("OpProto", (Protocol,), pns)
    Impl = type("OpImpl", (), ins)
    return P, Impl()


def run_script(desc: dict[str, Any], script: list[list[Any]], cfg: Config, **kw: Any) -> dict[str, Any]:
    """svcgen.run_script over this module's builder."""
    orig = svcgen.build
    svcgen.build = build
    try:
        return svcgen.run_script(desc, script, cfg, **kw)
    finally:
        svcgen.build = orig
