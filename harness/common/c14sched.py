"""C14, schedules: the call-state cache's own critical sections under two threads of one worker.

The real ``_CallStateCache`` (and, in :func:`explore_app`, the real WSGI app) runs under the deterministic scheduler
(``harness/common/detsched.py``): ``_state_token.threading`` is the scheduler's fake, every source line of
``_CallStateCache.get`` / ``put`` is a preemption point, so a thread can be stopped between the lookup and the update.

O  a call of ``get`` / ``put`` never raises; ``get`` returns ``None`` or the object stored under that very key; the cache
   never exceeds its capacity.  Through the app: a continuation racing an ``/init`` on the same worker (cache at capacity)
   gets the answer an instance with an empty cache gives.
K  every explored execution is *linearizable against the Lean model*: some interleaving of the two threads' calls, run
   through ``applyOps`` (the function the theorems ``cache_calls_atomic`` / ``cache_calls_sound`` are about), returns
   the observed results and ends in the observed ``_entries`` (keys in order, expiry).
"""

from __future__ import annotations

import itertools
import types
from typing import Any

from harness.common.detsched import DetSched
from harness.common.lean import s2j

TPS = 4
TTL = 10.0  # seconds, the cache's own ttl in these runs


def _auth(i: int) -> Any:
    from vgi_rpc.rpc import AuthContext

    return None if i == 0 else AuthContext(domain="d", authenticated=True, principal=f"p{i}")


def _key(ST: Any, k: list[int]) -> tuple[bytes, Any]:
    return bytes([k[0]]) * 16, _auth(k[1])


def make_sched(ST: Any) -> DetSched:
    ds = DetSched(step_limit=4000, wall_limit=10.0, trace_time=False)
    ds.patch(ST, "threading")
    ds.preempt_lines(ST._CallStateCache.get, ST._CallStateCache.put)
    return ds


def _worker(ds: DetSched, cache: Any, ST: Any, prog: list[dict[str, Any]], objs: dict[int, Any]) -> None:
    for i, op in enumerate(prog):
        call_id, auth = _key(ST, op["k"])
        try:
            if op["op"] == "get":
                r = cache.get(call_id, auth, op["now"] / TPS)
                ds.emit("ret", i, None if r is None else getattr(r, "content", "?"))
            else:
                cache.put(call_id, auth, objs[op["content"]], op["now"] / TPS)
                ds.emit("ret", i, None)
        except Exception as e:  # noqa: BLE001 — the property: a cache call never raises
            ds.emit("raised", i, type(e).__name__)


def make_setup(ST: Any, cfg: dict[str, Any]) -> Any:
    def setup(ds: DetSched) -> Any:
        cache = ST._CallStateCache(max_entries=cfg["cap"], ttl=TTL)
        objs = {c: types.SimpleNamespace(content=c) for c in range(64)}
        for op in cfg["prefill"]:
            call_id, auth = _key(ST, op["k"])
            cache.put(call_id, auth, objs[op["content"]], op["now"] / TPS)
        for prog in cfg["progs"]:
            ds.spawn(_worker, ds, cache, ST, prog, objs)
        return cache

    return setup


def _model_op(ST: Any, op: dict[str, Any]) -> dict[str, Any]:
    call_id, auth = _key(ST, op["k"])
    out = {"op": op["op"], "cid": call_id[0], "key": s2j(ST._CallStateCache._identity(auth)), "now": op["now"]}
    if op["op"] == "put":
        out["content"] = op["content"]
    return out


def _interleavings(n0: int, n1: int) -> list[list[int]]:
    out = []
    for pos in itertools.combinations(range(n0 + n1), n0):
        s = [1] * (n0 + n1)
        for p in pos:
            s[p] = 0
        out.append(s)
    return out


def analyse(ctx: Any, ST: Any, cfg: dict[str, Any], run: Any, case: dict[str, Any]) -> dict[str, Any] | None:
    """O on one run; returns what K needs (observed results per thread, final entries), or None when O already failed."""
    if run.status != "ok" or run.diverged:
        ctx.fail(case, f"C14:cache-schedule-{run.status}", f"run ended {run.status} (blocked {run.blocked}); schedule {run.schedule}")
        return None
    if run.errors:
        ctx.fail(case, "C14:cache-thread-died", f"{run.errors}")
        return None
    rets: dict[int, dict[int, Any]] = {0: {}, 1: {}}
    bad = False
    for ev in run.trace:
        if ev[0] == "raised":
            op = cfg["progs"][ev[1]][ev[2]]
            ctx.fail(case, f"C14:cache-call-raised:{op['op']}:{ev[3]}",
                     f"_CallStateCache.{op['op']} raised {ev[3]} (thread {ev[1]}, call {op}); a worker with an empty cache has "
                     f"nothing to raise from — the request would be answered 500 instead of what a cold worker answers")
            bad = True
        elif ev[0] == "ret":
            rets[ev[1]][ev[2]] = ev[3]
    if bad:
        return None
    cache = run.value
    stored: dict[tuple[int, int], set[int]] = {}
    for op in cfg["prefill"] + [o for p in cfg["progs"] for o in p]:
        if op["op"] == "put":
            stored.setdefault(tuple(op["k"]), set()).add(op["content"])
    for t, prog in enumerate(cfg["progs"]):
        for i, op in enumerate(prog):
            r = rets[t].get(i)
            if op["op"] == "get" and r is not None and r not in stored.get(tuple(op["k"]), set()):
                ctx.fail(case, "C14:cache-get-foreign-entry", f"get{op['k']} returned the object {r}, never stored under that key")
                return None
    if len(cache._entries) > cfg["cap"]:
        ctx.fail(case, "C14:cache-over-capacity", f"{len(cache._entries)} entries in a cache of capacity {cfg['cap']}")
        return None
    final = [{"cid": k[0][0], "key": s2j(k[1]), "exp": v[0] * TPS} for k, v in cache._entries.items()]
    return {"rets": rets, "final": final}


def _sequence(cfg: dict[str, Any], order: list[int]) -> list[tuple[int, int]]:
    idx = [0, 0]
    seq = []
    for t in order:
        seq.append((t, idx[t]))
        idx[t] += 1
    return seq


def linearizable(ctx: Any, ST: Any, cfg: dict[str, Any], obs: list[tuple[dict[str, Any], dict[str, Any]]]) -> None:
    """K: each observed execution equals the model run on some interleaving of the two programs."""
    if ctx.driver is None or not obs:
        return
    n0, n1 = len(cfg["progs"][0]), len(cfg["progs"][1]) if len(cfg["progs"]) > 1 else 0
    orders = _interleavings(n0, n1)
    pre = [_model_op(ST, op) for op in cfg["prefill"]]
    reqs = []
    for order in orders:
        ops = pre + [_model_op(ST, cfg["progs"][t][i]) for t, i in _sequence(cfg, order)]
        reqs.append(("C14.cacheOps", {"cap": cfg["cap"], "ttl": int(TTL * TPS), "ops": ops}))
    res = ctx.driver.batch(reqs)
    outcomes = []
    for order, r in zip(orders, res):
        results = r["results"][len(pre):]
        per: dict[int, dict[int, Any]] = {0: {}, 1: {}}
        for (t, i), v in zip(_sequence(cfg, order), results):
            per[t][i] = v
        outcomes.append((per, [{"cid": e["cid"], "key": e["key"], "exp": e["exp"]} for e in r["entries"]]))
    for case, o in obs:
        if len(ctx.mismatches) >= 10:
            return
        if not any(per == o["rets"] and fin == o["final"] for per, fin in outcomes):
            ctx.mismatch(case, [[p, f] for p, f in outcomes][:4], [o["rets"], o["final"]],
                         "concurrent get/put: the observed execution equals no sequence of model calls (not linearizable)")


# ------------------------------------------------------------------------------------------ configurations


def corpus() -> list[dict[str, Any]]:
    g = lambda k, now, a=0: {"op": "get", "k": [k, a], "now": now}  # noqa: E731
    p = lambda k, c, now, a=0: {"op": "put", "k": [k, a], "content": c, "now": now}  # noqa: E731
    S = TPS
    return [
        # a lookup of a cached call races an insert that evicts it (cache at capacity)
        {"cap": 1, "prefill": [p(0, 1, 0)], "progs": [[g(0, 5 * S)], [p(1, 2, 5 * S)]]},
        {"cap": 2, "prefill": [p(0, 1, 0), p(1, 2, 0)], "progs": [[g(0, 5 * S), g(1, 5 * S)], [p(2, 3, 5 * S), p(3, 4, 5 * S)]]},
        # two lookups of one key, one at the expiry boundary (delete) and one before it (touch)
        {"cap": 2, "prefill": [p(0, 1, 0), p(1, 2, 0)], "progs": [[g(0, 10 * S)], [g(0, 9 * S), g(1, 9 * S)]]},
        # both threads delete the same dead entry
        {"cap": 2, "prefill": [p(0, 1, 0)], "progs": [[g(0, 11 * S)], [g(0, 12 * S)]]},
        # re-insert of a key that another thread is looking up; same call id under two identities
        {"cap": 2, "prefill": [p(0, 1, 0), p(0, 5, 0, 1)], "progs": [[g(0, 5 * S), g(0, 5 * S, 1)], [p(0, 3, 6 * S), p(1, 4, 6 * S)]]},
        # capacity 0: nothing is ever kept
        {"cap": 0, "prefill": [], "progs": [[p(0, 1, 0), g(0, 1)], [p(0, 2, 0), g(0, 1)]]},
    ]


def generate(rng: Any) -> dict[str, Any]:
    cap = rng.choice([1, 1, 2, 2, 3])
    keys = [[k, a] for k in range(3) for a in (0, 1)][: rng.choice([2, 3, 4])]
    times = [0, 5 * TPS, 9 * TPS, 10 * TPS, 10 * TPS + 1, 12 * TPS]

    def op(content: int) -> dict[str, Any]:
        k = rng.choice(keys)
        if rng.random() < 0.55:
            return {"op": "get", "k": k, "now": rng.choice(times[1:])}
        return {"op": "put", "k": k, "content": content, "now": rng.choice(times[:3])}

    prefill = [{"op": "put", "k": k, "content": 10 + i, "now": 0} for i, k in enumerate(rng.sample(keys, min(len(keys), cap)))]
    progs = [[op(20 + 10 * t + i) for i in range(rng.choice([1, 2, 2, 3]))] for t in range(2)]
    return {"cap": cap, "prefill": prefill, "progs": progs}


def explore_cache(ctx: Any, n_cfg: int, dfs: int, rnd: int) -> None:
    from vgi_rpc.http.server import _state_token as ST

    ds = make_sched(ST)
    cfgs = corpus() + [generate(ctx.rng) for _ in range(n_cfg)]
    runs = 0
    with ds:
        for ci, cfg in enumerate(cfgs):
            obs = []
            setup = make_setup(ST, cfg)
            for run in ds.explore(setup, dfs=dfs, bound=2, random=rnd, seed=f"{ctx.seed}:{ci}"):
                runs += 1
                case = {"sched": "cache", "cfg": cfg, "schedule": run.schedule}
                ctx.case(case, nontrivial=run.preemptions > 0, tags=("src:cache-schedules", f"sched:preemptions:{min(run.preemptions, 2)}"))
                o = analyse(ctx, ST, cfg, run, case)
                if o is not None:
                    obs.append((case, o))
                if len(ctx.failures) >= 20:
                    break
            linearizable(ctx, ST, cfg, obs)
            if len(ctx.failures) >= 20:
                break
    ctx.note("cache_schedule_runs", runs)
    ctx.note("cache_schedule_configs", len(cfgs))


def replay_cache(ctx: Any, case: dict[str, Any]) -> None:
    from vgi_rpc.http.server import _state_token as ST

    ds = make_sched(ST)
    cfg = case["cfg"]
    with ds:
        run = ds.replay(make_setup(ST, cfg), case["schedule"])
        ctx.case(case, nontrivial=True, tags=("src:replay",))
        o = analyse(ctx, ST, cfg, run, case)
        if o is not None:
            linearizable(ctx, ST, cfg, [(case, o)])
