"""Lean side of a check: (re)build, obligation/axiom audit, forbidden-token audit, driver process."""

from __future__ import annotations

import fcntl
import json
import os
import re
import subprocess
import tempfile
import time
from pathlib import Path
from typing import Any

VERIF = Path(__file__).resolve().parents[2]
LEAN = VERIF / "lean"
DRIVER_BIN = LEAN / ".lake" / "build" / "bin" / "driver"
ALLOWED_AXIOMS = {"propext", "Classical.choice", "Quot.sound"}
FORBIDDEN = re.compile(r"\bsorry\b|\badmit\b|^\s*axiom\s|native_decide|bv_decide|implemented_by|\bunsafe\s|maxHeartbeats\s+0\b")


class BuildLock:
    def __enter__(self) -> "BuildLock":
        self.f = open(LEAN / ".build.lock", "w")
        fcntl.flock(self.f, fcntl.LOCK_EX)
        return self

    def __exit__(self, *a: Any) -> None:
        fcntl.flock(self.f, fcntl.LOCK_UN)
        self.f.close()


def _run(cmd: list[str], timeout: int = 1800) -> tuple[int, str]:
    env = dict(os.environ)
    p = subprocess.run(cmd, cwd=LEAN, capture_output=True, text=True, timeout=timeout, env=env)
    out = "\n".join(l for l in (p.stdout + p.stderr).splitlines() if "WARNING conda" not in l)
    return p.returncode, out


def build_driver() -> tuple[bool, str]:
    with BuildLock():
        rc, out = _run(["lake", "build", "driver"])
    return rc == 0 and DRIVER_BIN.exists(), out


def build_modules(modules: list[str]) -> tuple[bool, str]:
    if not modules:
        return True, ""
    with BuildLock():
        rc, out = _run(["lake", "build"] + ["+" + m for m in modules])
    return rc == 0, out


def run_leanchecker(modules: list[str]) -> tuple[int, str]:
    with BuildLock():
        return _run(["lake", "env", "leanchecker"] + modules, timeout=1500)


def strip_comments(src: str) -> str:
    # remove nested /- -/ block comments and -- line comments (string literals containing these are not used here)
    out = []
    i, depth, n = 0, 0, len(src)
    while i < n:
        if src.startswith("/-", i):
            depth += 1
            i += 2
        elif depth and src.startswith("-/", i):
            depth -= 1
            i += 2
        elif depth:
            if src[i] == "\n":
                out.append("\n")
            i += 1
        elif src.startswith("--", i):
            while i < n and src[i] != "\n":
                i += 1
        else:
            out.append(src[i])
            i += 1
    return "".join(out)


def forbidden_tokens() -> list[str]:
    hits = []
    for p in sorted(LEAN.rglob("*.lean")):
        if ".lake" in p.parts:
            continue
        for ln, line in enumerate(strip_comments(p.read_text()).splitlines(), 1):
            if FORBIDDEN.search(line):
                hits.append(f"{p.relative_to(LEAN)}:{ln}: {line.strip()[:120]}")
    return hits


def theorem_statements(modules: list[str], names: list[str]) -> dict[str, str]:
    """Hash of the source text of each obligation (so evidence shows which statement was checked)."""
    import hashlib

    out: dict[str, str] = {}
    texts = []
    for m in modules:
        p = LEAN / (m.replace(".", "/") + ".lean")
        if p.exists():
            texts.append(p.read_text())
    blob = "\n".join(texts)
    for n in names:
        short = n.split(".")[-1]
        m = re.search(r"^theorem\s+" + re.escape(short) + r"\b(.*?)(?::=|\bby\b)", blob, re.S | re.M)
        if m:
            out[n] = hashlib.sha256(" ".join(m.group(1).split()).encode()).hexdigest()[:16]
    return out


def audit_axioms(modules: list[str], theorems: list[str]) -> dict[str, list[str] | None]:
    """`#print axioms` for every theorem; None = theorem missing / not compiled."""
    if not theorems:
        return {}
    src = "".join(f"import {m}\n" for m in modules)
    # one command per theorem; an unknown constant is an error on that line only
    for t in theorems:
        src += f"#print axioms {t}\n"
    with tempfile.NamedTemporaryFile("w", suffix=".lean", dir=LEAN, delete=False, prefix=".axioms_") as f:
        f.write(src)
        tmp = f.name
    try:
        with BuildLock():
            rc, out = _run(["lake", "env", "lean", tmp])
    finally:
        os.unlink(tmp)
    res: dict[str, list[str] | None] = {t: None for t in theorems}
    # output:  'X' depends on axioms: [a, b]   |   'X' does not depend on any axioms
    for m in re.finditer(r"'([^']+)' depends on axioms: \[([^\]]*)\]", out, re.S):
        res[m.group(1)] = [a.strip() for a in m.group(2).replace("\n", " ").split(",") if a.strip()]
    for m in re.finditer(r"'([^']+)' does not depend on any axioms", out):
        res[m.group(1)] = []
    return res


class DriverError(Exception):
    pass


class LeanDriver:
    """JSON-lines pipe to the native model driver."""

    def __init__(self) -> None:
        if not DRIVER_BIN.exists():
            raise DriverError("driver binary missing")
        self.p = subprocess.Popen(
            [str(DRIVER_BIN)], stdin=subprocess.PIPE, stdout=subprocess.PIPE, stderr=subprocess.DEVNULL
        )
        self.n = 0
        self.calls = 0

    def batch(self, reqs: list[tuple[str, Any]]) -> list[Any]:
        """Send many requests, return results in order. A bad-op raises DriverError."""
        if not reqs:
            return []
        out: list[Any] = []
        CH = 2000
        for i in range(0, len(reqs), CH):
            chunk = reqs[i : i + CH]
            lines = []
            for m, a in chunk:
                self.n += 1
                lines.append(json.dumps({"id": self.n, "m": m, "a": a}, ensure_ascii=True))
            data = ("\n".join(lines) + "\n").encode()
            # write in a thread-free way: driver answers line by line, pipes are large enough for a chunk
            import threading

            def _w() -> None:
                assert self.p.stdin is not None
                try:
                    self.p.stdin.write(data)
                    self.p.stdin.flush()
                except (BrokenPipeError, OSError, ValueError):
                    pass  # the reader below reports the dead driver

            th = threading.Thread(target=_w, daemon=True)
            th.start()
            assert self.p.stdout is not None
            f = self.p.stdout
            try:
                for (m, a) in chunk:
                    line = _readline(f)
                    if not line:
                        raise DriverError(f"driver died on {m}")
                    r = json.loads(line)
                    if "e" in r:
                        raise DriverError(f"{m}: {r['e']} (args {json.dumps(a)[:300]})")
                    out.append(r["r"])
            except BaseException:
                # the rest of the chunk is abandoned: a writer blocked on a full pipe must not keep the process alive
                self.p.kill()
                raise
            th.join()
            self.calls += len(chunk)
        return out

    def call(self, m: str, a: Any) -> Any:
        return self.batch([(m, a)])[0]

    def close(self) -> None:
        try:
            if self.p.stdin:
                self.p.stdin.close()
            self.p.wait(timeout=5)
        except Exception:
            self.p.kill()


def _readline(f: Any) -> bytes:
    return bytes(f.readline())


def s2j(s: str) -> list[int]:
    """Python str → JSON value for a Lean `List Char` argument (code points; surrogates preserved as numbers)."""
    return [ord(c) for c in s]


def j2s(cps: list[int]) -> str:
    return "".join(chr(c) for c in cps)


def b2j(b: bytes) -> str:
    return bytes(b).hex()
