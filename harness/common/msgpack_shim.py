"""Minimal pure-Python stand-in for the `msgpack` package (absent from the sandbox).

Only what `vgi_rpc.utils.serialize_compact` / `deserialize_compact` use: ``packb(obj, use_bin_type=True)`` and
``unpackb(data, raw=False)`` for nil / bool / int / float64 / str / bin / array / map, with the real library's
observable error behaviour (``OverflowError`` for integers outside [-2**63, 2**64), ``TypeError`` for unsupported
objects, ``ValueError`` subclasses for malformed input, string map keys only).  It is part of the TRUSTED base of the
checks that use it and is installed for the harness process only (``install()`` / ``uninstall()``).
"""

from __future__ import annotations

import struct
import sys
import types
from typing import Any


class UnpackException(Exception):
    pass


class FormatError(ValueError, UnpackException):
    pass


class StackError(ValueError, UnpackException):
    pass


class OutOfData(UnpackException):
    pass


class ExtraData(ValueError):
    def __init__(self, unpacked: Any, extra: bytes) -> None:
        self.unpacked = unpacked
        self.extra = extra

    def __str__(self) -> str:
        return "unpack(b) received extra data."


def _pack(o: Any, out: list[bytes], use_bin_type: bool, depth: int) -> None:
    if depth > 511:
        raise ValueError("recursion limit exceeded.")
    if o is None:
        out.append(b"\xc0")
    elif o is True:
        out.append(b"\xc3")
    elif o is False:
        out.append(b"\xc2")
    elif isinstance(o, int):
        if 0 <= o < 0x80:
            out.append(struct.pack("B", o))
        elif -0x20 <= o < 0:
            out.append(struct.pack("b", o))
        elif 0x80 <= o <= 0xFF:
            out.append(b"\xcc" + struct.pack("B", o))
        elif -0x80 <= o < 0:
            out.append(b"\xd0" + struct.pack("b", o))
        elif 0xFF < o <= 0xFFFF:
            out.append(b"\xcd" + struct.pack(">H", o))
        elif -0x8000 <= o < -0x80:
            out.append(b"\xd1" + struct.pack(">h", o))
        elif 0xFFFF < o <= 0xFFFFFFFF:
            out.append(b"\xce" + struct.pack(">I", o))
        elif -0x80000000 <= o < -0x8000:
            out.append(b"\xd2" + struct.pack(">i", o))
        elif 0xFFFFFFFF < o <= 0xFFFFFFFFFFFFFFFF:
            out.append(b"\xcf" + struct.pack(">Q", o))
        elif -0x8000000000000000 <= o < -0x80000000:
            out.append(b"\xd3" + struct.pack(">q", o))
        else:
            raise OverflowError("Integer value out of range")
    elif isinstance(o, float):
        out.append(b"\xcb" + struct.pack(">d", o))
    elif isinstance(o, str):
        b = o.encode("utf-8")  # lone surrogates -> UnicodeEncodeError (a ValueError), like the real packer
        n = len(b)
        if n < 32:
            out.append(struct.pack("B", 0xA0 | n))
        elif n <= 0xFF:
            out.append(b"\xd9" + struct.pack("B", n))
        elif n <= 0xFFFF:
            out.append(b"\xda" + struct.pack(">H", n))
        else:
            out.append(b"\xdb" + struct.pack(">I", n))
        out.append(b)
    elif isinstance(o, (bytes, bytearray, memoryview)):
        b = bytes(o)
        n = len(b)
        if not use_bin_type:
            raise TypeError("shim supports use_bin_type=True only")
        if n <= 0xFF:
            out.append(b"\xc4" + struct.pack("B", n))
        elif n <= 0xFFFF:
            out.append(b"\xc5" + struct.pack(">H", n))
        else:
            out.append(b"\xc6" + struct.pack(">I", n))
        out.append(b)
    elif isinstance(o, (list, tuple)):
        n = len(o)
        if n < 16:
            out.append(struct.pack("B", 0x90 | n))
        elif n <= 0xFFFF:
            out.append(b"\xdc" + struct.pack(">H", n))
        else:
            out.append(b"\xdd" + struct.pack(">I", n))
        for x in o:
            _pack(x, out, use_bin_type, depth + 1)
    elif isinstance(o, dict):
        n = len(o)
        if n < 16:
            out.append(struct.pack("B", 0x80 | n))
        elif n <= 0xFFFF:
            out.append(b"\xde" + struct.pack(">H", n))
        else:
            out.append(b"\xdf" + struct.pack(">I", n))
        for k, v in o.items():
            _pack(k, out, use_bin_type, depth + 1)
            _pack(v, out, use_bin_type, depth + 1)
    else:
        raise TypeError(f"can not serialize {type(o).__name__!r} object")


def packb(o: Any, use_bin_type: bool = True, **_kw: Any) -> bytes:
    out: list[bytes] = []
    _pack(o, out, use_bin_type, 0)
    return b"".join(out)


class _R:
    def __init__(self, data: bytes) -> None:
        self.d = data
        self.p = 0

    def take(self, n: int) -> bytes:
        if self.p + n > len(self.d):
            raise ValueError("Unpack failed: incomplete input")
        b = self.d[self.p : self.p + n]
        self.p += n
        return b


def _unpack(r: _R, raw: bool, depth: int) -> Any:
    if depth > 511:
        raise StackError("recursion limit exceeded")
    t = r.take(1)[0]
    if t < 0x80:
        return t
    if t >= 0xE0:
        return t - 0x100
    if 0xA0 <= t <= 0xBF:
        return _str(r.take(t & 0x1F), raw)
    if 0x90 <= t <= 0x9F:
        return [_unpack(r, raw, depth + 1) for _ in range(t & 0x0F)]
    if 0x80 <= t <= 0x8F:
        return _map(r, t & 0x0F, raw, depth)
    if t == 0xC0:
        return None
    if t == 0xC2:
        return False
    if t == 0xC3:
        return True
    if t in (0xC4, 0xC5, 0xC6):
        n = int.from_bytes(r.take(1 << (t - 0xC4)), "big")
        return bytes(r.take(n))
    if t == 0xCA:
        return struct.unpack(">f", r.take(4))[0]
    if t == 0xCB:
        return struct.unpack(">d", r.take(8))[0]
    if 0xCC <= t <= 0xCF:
        return int.from_bytes(r.take(1 << (t - 0xCC)), "big")
    if 0xD0 <= t <= 0xD3:
        return int.from_bytes(r.take(1 << (t - 0xD0)), "big", signed=True)
    if t in (0xD9, 0xDA, 0xDB):
        n = int.from_bytes(r.take(1 << (t - 0xD9)), "big")
        return _str(r.take(n), raw)
    if t in (0xDC, 0xDD):
        n = int.from_bytes(r.take(2 if t == 0xDC else 4), "big")
        return [_unpack(r, raw, depth + 1) for _ in range(n)]
    if t in (0xDE, 0xDF):
        n = int.from_bytes(r.take(2 if t == 0xDE else 4), "big")
        return _map(r, n, raw, depth)
    raise FormatError(f"unsupported msgpack type byte 0x{t:02x} (shim)")


def _str(b: bytes, raw: bool) -> Any:
    return bytes(b) if raw else b.decode("utf-8")  # UnicodeDecodeError is a ValueError


def _map(r: _R, n: int, raw: bool, depth: int) -> dict[Any, Any]:
    out: dict[Any, Any] = {}
    for _ in range(n):
        k = _unpack(r, raw, depth + 1)
        if not isinstance(k, (str, bytes)):
            raise ValueError(f"{type(k).__name__} is not allowed for map key when strict_map_key=True")
        out[k] = _unpack(r, raw, depth + 1)
    return out


def unpackb(data: Any, raw: bool = False, **_kw: Any) -> Any:
    r = _R(bytes(data))
    v = _unpack(r, raw, 0)
    if r.p != len(r.d):
        raise ExtraData(v, r.d[r.p :])
    return v


_SHIM_NAME = "msgpack"


def module() -> types.ModuleType:
    m = types.ModuleType(_SHIM_NAME)
    m.packb = packb  # type: ignore[attr-defined]
    m.unpackb = unpackb  # type: ignore[attr-defined]
    m.ExtraData = ExtraData  # type: ignore[attr-defined]
    m.FormatError = FormatError  # type: ignore[attr-defined]
    m.StackError = StackError  # type: ignore[attr-defined]
    m.OutOfData = OutOfData  # type: ignore[attr-defined]
    m.UnpackException = UnpackException  # type: ignore[attr-defined]
    m.__verif_shim__ = True  # type: ignore[attr-defined]
    m.version = (1, 1, 0)  # type: ignore[attr-defined]
    return m


def install() -> types.ModuleType:
    """Register the shim as ``msgpack`` (only if the real package is not importable). Call before importing vgi_rpc."""
    try:
        import msgpack as real  # noqa: F401

        if not getattr(real, "__verif_shim__", False):
            return real
    except ImportError:
        pass
    m = module()
    sys.modules[_SHIM_NAME] = m
    return m


def set_enabled(enabled: bool) -> bool:
    """Switch the compact codec of an already-imported ``vgi_rpc.utils`` on/off (shim present / absent).

    Mirrors exactly what the import-time ``try: import msgpack`` does: binds ``utils.msgpack`` and ``_HAVE_MSGPACK``.
    Cached per-class compact plans are computed under the current setting, so callers must use fresh classes (or clear
    ``_cached_compact_plan``) after switching.  Returns the previous setting.
    """
    import vgi_rpc.utils as u

    prev = bool(u._HAVE_MSGPACK)
    if enabled:
        m = install()
        u.msgpack = m  # type: ignore[attr-defined]
        u._HAVE_MSGPACK = True
    else:
        u._HAVE_MSGPACK = False
    return prev
