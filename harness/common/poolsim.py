"""In-memory stand-in for `vgi_rpc.rpc._transport.SubprocessTransport` (used by C32).

A `FakeWorker` is what `WorkerPool` believes to be a spawned subprocess: `.proc` (`poll()`, `pid`, `args`, `returncode`),
`.reader` / `.writer`, `.close()`.  Behind it a REAL `RpcServer` serves the C32 test service on a real thread over two
in-memory byte channels, so "stale bytes" and "server in the middle of a stream" are real states of a real connection:

    synced(w)  :=  no unread byte client->server, none server->client, and the server blocked at a request boundary

The server thread is NOT managed by the deterministic scheduler: it only reacts to the bytes the (single running) client
thread writes, and the client blocks for real on the channel while holding the scheduler's baton, so a run is still a
function of the schedule.  Every observation (`poll`, `synced`) first waits for the server to quiesce.

Events (through the `emit` callback, in the calling thread): ["wspawn", wid, key] ["spawnFail"] ["die", wid]
["poll", wid, alive] ["tclose", wid].
"""

import enum
import io
import threading
import time
from dataclasses import dataclass
from typing import Any, Callable, Protocol

import pyarrow as pa

from vgi_rpc.log import Level
from vgi_rpc.rpc import AnnotatedBatch, CallContext, OutputCollector, PipeTransport, RpcServer, Stream, StreamState
from vgi_rpc.utils import ArrowSerializableDataclass

QUIESCE_S = 5.0

# ------------------------------------------------------------------------------------------ the service

OUT_SCHEMA = pa.schema([("x", pa.int64())])
IN_SCHEMA = pa.schema([("v", pa.int64())])


@dataclass
class Hdr(ArrowSerializableDataclass):
    h: int


@dataclass
class ProdState(StreamState):
    """Producer: `n` batches tag*1000+i, `logs` log lines before each batch and one after; then `logs` lines and finish."""

    tag: int
    n: int
    logs: int
    i: int = 0

    def process(self, input: AnnotatedBatch, out: OutputCollector, ctx: CallContext) -> None:
        for j in range(self.logs):
            out.client_log(Level.INFO, f"p{self.tag}.{self.i}.{j}")
        if self.i >= self.n:
            out.finish()
            return
        out.emit_pydict({"x": [self.tag * 1000 + self.i]})
        out.client_log(Level.INFO, f"q{self.tag}.{self.i}")
        self.i += 1


@dataclass
class ExchState(StreamState):
    """Exchange: answers v with tag*1000+v after `logs` log lines."""

    tag: int
    logs: int

    def process(self, input: AnnotatedBatch, out: OutputCollector, ctx: CallContext) -> None:
        for j in range(self.logs):
            out.client_log(Level.INFO, f"e{self.tag}.{j}")
        v = input.batch.column("v")[0].as_py()
        out.emit_pydict({"x": [self.tag * 1000 + v]})


class Phase(enum.Enum):
    """The worker's view of the enum: it knows one member more than the client (`ClientPhase`)."""

    READY = "ready"
    BUSY = "busy"
    DRAINING = "draining"


class ClientPhase(enum.Enum):
    READY = "ready"
    BUSY = "busy"


@dataclass
class Rec(ArrowSerializableDataclass):
    """The worker's record; the client's (`ClientRec`) has a field the worker does not send."""

    a: int


@dataclass
class ClientRec(ArrowSerializableDataclass):
    a: int
    b: int


class PoolSvc(Protocol):
    """Service of the C32 harness AS THE WORKER SEES IT: every answer carries the caller's own number back."""

    def phase(self, k: int, bad: int) -> Phase: ...
    def maybe(self, k: int, bad: int) -> int | None: ...
    def rec(self, k: int, bad: int) -> Rec: ...
    def label(self, k: int, bad: int) -> str: ...

    def echo(self, k: int) -> int: ...
    def noisy(self, k: int, n: int) -> int: ...
    def bad(self, k: int) -> int: ...
    def prod(self, tag: int, n: int, logs: int) -> Stream[ProdState]: ...
    def prodh(self, tag: int, n: int, logs: int) -> Stream[ProdState, Hdr]: ...
    def exch(self, tag: int, logs: int) -> Stream[ExchState]: ...
    def badstream(self, tag: int) -> Stream[ProdState]: ...


class PoolSvcClient(Protocol):
    """The same service AS THE CLIENTS SEE IT — one release behind: `phase` has an enum member less, `maybe` is not
    optional, `rec` has another field, `label` is still an int.  Replies to these four arrive intact and fail in the
    client's own validation / decoding of the value (an ordinary client-side Exception)."""

    def phase(self, k: int, bad: int) -> ClientPhase: ...
    def maybe(self, k: int, bad: int) -> int: ...
    def rec(self, k: int, bad: int) -> ClientRec: ...
    def label(self, k: int, bad: int) -> ClientPhase: ...
    def echo(self, k: int) -> int: ...
    def noisy(self, k: int, n: int) -> int: ...
    def bad(self, k: int) -> int: ...
    def prod(self, tag: int, n: int, logs: int) -> Stream[ProdState]: ...
    def prodh(self, tag: int, n: int, logs: int) -> Stream[ProdState, Hdr]: ...
    def exch(self, tag: int, logs: int) -> Stream[ExchState]: ...
    def badstream(self, tag: int) -> Stream[ProdState]: ...


class PoolSvcImpl:
    def phase(self, k: int, bad: int) -> Phase:
        return Phase.DRAINING if bad else Phase.READY  # bad: a member the client does not know

    def maybe(self, k: int, bad: int) -> int | None:
        return None if bad else k  # bad: None where the client's protocol says `int`

    def rec(self, k: int, bad: int) -> Rec:
        return Rec(a=k)  # the client's record wants a field `b` as well

    def label(self, k: int, bad: int) -> str:
        return "nonsense" if bad else "READY"  # a str where the client expects an enum member NAME

    def echo(self, k: int) -> int:
        return k

    def noisy(self, k: int, n: int, ctx: CallContext) -> int:
        for j in range(n):
            ctx.client_log(Level.INFO, f"u{k}.{j}")
        return k

    def bad(self, k: int) -> int:
        raise ValueError(f"bad {k}")

    def prod(self, tag: int, n: int, logs: int) -> Stream[ProdState]:
        return Stream(output_schema=OUT_SCHEMA, state=ProdState(tag=tag, n=n, logs=logs))

    def prodh(self, tag: int, n: int, logs: int, ctx: CallContext) -> Stream[ProdState, Hdr]:
        for j in range(logs):
            ctx.client_log(Level.INFO, f"h{tag}.{j}")
        return Stream(output_schema=OUT_SCHEMA, state=ProdState(tag=tag, n=n, logs=logs), header=Hdr(h=tag))

    def exch(self, tag: int, logs: int) -> Stream[ExchState]:
        return Stream(output_schema=OUT_SCHEMA, state=ExchState(tag=tag, logs=logs), input_schema=IN_SCHEMA)

    def badstream(self, tag: int) -> Stream[ProdState]:
        raise ValueError(f"badstream {tag}")


_SERVER: list[RpcServer] = []


def _server() -> RpcServer:
    """One RpcServer for all fake workers (construction is expensive; serving is per transport)."""
    if not _SERVER:
        _SERVER.append(RpcServer(PoolSvc, PoolSvcImpl()))
    return _SERVER[0]


# ------------------------------------------------------------------------------------------ byte channels


class Chan:
    """Unidirectional in-memory byte channel; reads block for real (the peer is a real thread)."""

    def __init__(self) -> None:
        self.buf = bytearray()
        self.cv = threading.Condition()
        self.closed = False
        self.total_read = 0
        self.waiting = False  # a reader is blocked with nothing to read
        self.peer_in: "Chan | None" = None  # the channel the OTHER party reads (set on the client's read side only)

    def write(self, b: Any) -> int:
        data = bytes(b)
        with self.cv:
            if self.closed:
                raise BrokenPipeError("channel closed")
            self.buf += data
            self.waiting = False  # the blocked reader (if any) has to look again
            self.cv.notify_all()
        return len(data)

    def read(self, n: int = -1) -> bytes:
        with self.cv:
            while len(self.buf) < n and not self.closed:
                self.waiting = True
                self.cv.notify_all()
                if self.peer_in is not None:
                    # client side: the server is blocked on its (empty) input, which only this thread could feed, and has
                    # written everything it was going to write: the two wait for each other.  A real client would hang
                    # forever; the harness turns it into an error of the operation.
                    if self.peer_in.waiting and len(self.buf) < n:
                        self.waiting = False
                        raise OSError("poolsim: client and server are both waiting for input (protocol deadlock)")
                    self.cv.wait(0.005)
                else:
                    self.cv.wait()
            self.waiting = False
            k = len(self.buf) if n < 0 else min(n, len(self.buf))
            out = bytes(self.buf[:k])
            del self.buf[:k]
            self.total_read += k
            return out

    def close(self) -> None:
        with self.cv:
            self.closed = True
            self.cv.notify_all()


class _RFile(io.RawIOBase):
    def __init__(self, ch: Chan) -> None:
        self.ch = ch

    def readable(self) -> bool:
        return True

    def read(self, n: int = -1) -> bytes:
        return self.ch.read(n)

    def readinto(self, b: Any) -> int:
        d = self.ch.read(len(b))
        b[: len(d)] = d
        return len(d)


class _WFile(io.RawIOBase):
    def __init__(self, ch: Chan) -> None:
        self.ch = ch

    def writable(self) -> bool:
        return True

    def write(self, b: Any) -> int:
        return self.ch.write(b)


# ------------------------------------------------------------------------------------------ the fake subprocess


class World:
    """Per-run registry: worker ids in spawn order, scripted spawn failures, the event sink."""

    def __init__(self, emit: Callable[..., None], keys: list[list[str]], fail_spawns: set[int] | None = None,
                 lazy_exit: bool = False) -> None:
        self.emit = emit
        # lazy_exit: a server that ends BY ITSELF (garbage on its input) stays "running" for poll(): a real process takes
        # its time to exit after the serve loop has ended, so a poll() made right after cannot see it — the worst case of
        # that race.  (A killed process and a closed transport are always seen.)
        self.lazy_exit = lazy_exit
        self.keys = [tuple(k) for k in keys]
        self.workers: list["FakeWorker"] = []
        self.spawn_calls = 0
        self.fail_spawns = fail_spawns or set()

    def key_index(self, cmd: Any) -> int:
        return self.keys.index(tuple(str(a) for a in cmd))

    def shutdown(self) -> None:
        for w in self.workers:
            w.hard_close()

    def factory(self) -> type:
        world = self

        class SubprocessTransport(FakeWorker):  # the name the pool module looks up
            def __init__(self, cmd: list[str], *, stderr: Any = None, stderr_logger: Any = None) -> None:
                n = world.spawn_calls
                world.spawn_calls += 1
                if n in world.fail_spawns:
                    world.emit("spawnFail")
                    raise OSError(f"scripted spawn failure #{n}")
                FakeWorker.__init__(self, world, cmd)

        return SubprocessTransport


class _FakeProc:
    def __init__(self, w: "FakeWorker", args: list[str]) -> None:
        self._w = w
        self.args = args
        self.pid = 40000 + w.wid
        self.returncode: int | None = None

    def poll(self) -> int | None:
        w = self._w
        w.check_exit()
        w.world.emit("poll", w.wid, self.returncode is None)
        return self.returncode


class FakeWorker:
    def __init__(self, world: World, cmd: list[str]) -> None:
        self.world = world
        self.wid = len(world.workers)
        world.workers.append(self)
        self.c2s = Chan()
        self.s2c = Chan()
        self.s2c.peer_in = self.c2s
        self.reader = _RFile(self.s2c)
        self.writer = _WFile(self.c2s)
        self.closed = False
        self.boundary = 0
        self.exit: str | None = None
        self.server = _server()
        self._st = PipeTransport(_RFile(self.c2s), _WFile(self.s2c))
        self.thread = threading.Thread(target=self._serve, daemon=True, name=f"poolsim-w{self.wid}")
        self.thread.start()
        self.proc = _FakeProc(self, [str(a) for a in cmd])
        world.emit("wspawn", self.wid, world.key_index(cmd))

    # RpcServer.serve's loop, plus the request-boundary mark
    def _serve(self) -> None:
        try:
            while True:
                self.boundary = self.c2s.total_read
                try:
                    self.server.serve_one(self._st)
                except (EOFError, StopIteration):
                    self.exit = "eof"
                    break
                except (BrokenPipeError, ConnectionResetError, ConnectionAbortedError):
                    self.exit = "pipe"
                    break
                except pa.ArrowInvalid:
                    self.exit = "invalid"
                    break
        except BaseException as e:  # noqa: BLE001
            self.exit = f"crash:{type(e).__name__}"
        finally:
            self.s2c.close()

    def quiesce(self) -> None:
        """Wait until the server has consumed everything it can (blocked on an empty input) or has ended."""
        t0 = time.monotonic()
        with self.c2s.cv:
            while self.thread.is_alive() and not self.c2s.waiting:
                if time.monotonic() - t0 > QUIESCE_S:
                    raise RuntimeError(f"worker {self.wid}: server did not quiesce")
                self.c2s.cv.wait(0.002)

    def check_exit(self) -> None:
        """Quiesce; a server that has ended by itself (garbage on its input) is a dead process: event ["die", wid] —
        unless the world is `lazy_exit`, where poll() keeps seeing it running."""
        self.quiesce()
        if self.proc.returncode is None and not self.thread.is_alive() and not self.world.lazy_exit:
            self.proc.returncode = 0 if self.exit == "eof" else 1
            self.world.emit("die", self.wid)

    def state(self) -> dict[str, Any]:
        """The real connection state (after quiescence)."""
        self.check_exit()
        alive = self.proc.returncode is None  # what poll() says
        serving = self.thread.is_alive() and alive  # the server loop is really there
        return {"alive": alive, "serving": serving, "c2s": len(self.c2s.buf), "s2c": len(self.s2c.buf),
                "boundary": self.c2s.total_read == self.boundary, "exit": self.exit}

    def synced(self) -> bool:
        st = self.state()
        return bool(st["serving"] and st["c2s"] == 0 and st["s2c"] == 0 and st["boundary"])

    def kill(self, status: int = -9) -> None:
        """The process ends with exit status `status` — a signal (negative), a crash (positive) or a CLEAN exit (0: an idle
        timeout of its own, an orderly shutdown): both pipes break.  `poll()` then returns that status: 0 is as dead as -9."""
        if self.proc.returncode is None:
            self.proc.returncode = status
            self.c2s.close()
            self.s2c.close()
            self.thread.join(QUIESCE_S)
            self.world.emit("die", self.wid)

    def close(self) -> None:
        """SubprocessTransport.close(): close stdin, wait for exit, close stdout — idempotent."""
        if self.closed:
            return
        self.closed = True
        self.c2s.close()
        self.thread.join(QUIESCE_S)
        self.s2c.close()
        if self.proc.returncode is None:
            self.proc.returncode = 0
        self.world.emit("tclose", self.wid)

    def hard_close(self) -> None:
        """End-of-run cleanup by the harness (no event)."""
        self.closed = True
        self.c2s.close()
        self.s2c.close()
        self.thread.join(QUIESCE_S)
