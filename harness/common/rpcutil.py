"""Helpers to drive the real vgi_rpc code in-process at the byte level (pipe family and HTTP)."""

from __future__ import annotations

import io
import re
from typing import Any

import pyarrow as pa
from pyarrow import ipc

from vgi_rpc.rpc import PipeTransport, RpcServer
from vgi_rpc.rpc._wire import _write_request


def request_bytes(method: str, schema: pa.Schema, kwargs: dict[str, Any], extra_metadata: dict[bytes, bytes] | None = None,
                  protocol_version: str | None = None) -> bytes:
    """A complete request IPC stream as the real client frames it (framework keys win over extra_metadata)."""
    buf = io.BytesIO()
    _write_request(buf, method, schema, kwargs, protocol_version=protocol_version, extra_metadata=extra_metadata)
    return buf.getvalue()


def read_stream(data: bytes | io.BufferedIOBase) -> tuple[pa.Schema, list[tuple[pa.RecordBatch, dict[bytes, bytes]]]]:
    """Decode one IPC stream into (schema, [(batch, custom_metadata)])."""
    src = io.BytesIO(data) if isinstance(data, (bytes, bytearray)) else data
    r = ipc.open_stream(src)
    out = []
    while True:
        try:
            b, md = r.read_next_batch_with_custom_metadata()
        except StopIteration:
            break
        out.append((b, dict(md) if md is not None else {}))
    return r.schema, out


def read_all_streams(data: bytes) -> list[tuple[pa.Schema, list[tuple[pa.RecordBatch, dict[bytes, bytes]]]]]:
    src = io.BytesIO(data)
    out = []
    while src.tell() < len(data):
        out.append(read_stream(src))
    return out


def serve_one_bytes(server: RpcServer, req: bytes) -> tuple[bytes, BaseException | None]:
    """Run RpcServer.serve_one on an in-memory pipe: returns (bytes written, exception that escaped)."""
    r = io.BytesIO(req)
    w = io.BytesIO()
    t = PipeTransport(r, w)
    exc: BaseException | None = None
    try:
        server.serve_one(t)
    except BaseException as e:  # noqa: BLE001
        exc = e
    return w.getvalue(), exc


def error_of(batches: list[tuple[pa.RecordBatch, dict[bytes, bytes]]]) -> dict[str, Any] | None:
    """First EXCEPTION-level log batch of a response as {type, message, kind, extra}."""
    import json

    for b, md in batches:
        lvl = md.get(b"vgi_rpc.log_level")
        if lvl == b"EXCEPTION" and b.num_rows == 0:
            extra = {}
            raw = md.get(b"vgi_rpc.log_extra")
            if raw:
                try:
                    extra = json.loads(raw)
                except Exception:
                    extra = {"_raw": raw.decode("utf-8", "replace")}
            return {
                "message": md.get(b"vgi_rpc.log_message", b"").decode("utf-8", "replace"),
                "type": extra.get("exception_type"),
                "kind": (md.get(b"vgi_rpc.error_kind") or b"").decode() or extra.get("error_kind"),
                "extra": extra,
            }
    return None


_CLIENT_RE = re.compile(r"^  Client: (.*)$", re.M)
_SERVER_RE = re.compile(r"^  Server: (.*)$", re.M)
