"""Rig shared by the sticky-session checks (C25, C27): a farm of real sticky-enabled WSGI workers driven in-process,
deterministic stand-ins for the clock / `secrets.token_bytes` / `os.urandom` / the reaper thread (installed as module
attributes of `vgi_rpc.http.server._sticky` and `vgi_rpc.crypto`, restored afterwards), and the translation between
what the real code does and the JSON the Lean `Sticky` model speaks.

The service has one unary method `run(script)`: the script is a JSON list of API calls
(`["o", label, ttl]` open_session, `"c"` close_session, `"u"` read ctx.session, `"n"` nothing) plus a `swallow` flag
(does the method catch the exception of a failing call and go on).  The method's own log is kept on the
implementation object, so it is observable even when the call ends in an error.
"""

import base64
import json
import os
import types
from typing import Any, Protocol

import falcon.testing

import vgi_rpc.crypto as vcrypto
import vgi_rpc.http.server._sticky as st
from harness.common import rpcutil
from vgi_rpc.http._testing import _SyncTestClient
from vgi_rpc.http.server import make_wsgi_app
from vgi_rpc.http.server._state_token import _compute_aad
from vgi_rpc.rpc import AuthContext, CallContext, RpcServer

ARROW = "application/vnd.apache.arrow.stream"
ID_HEADER = "X-Verif-Id"


METHODS = ["run", "healthcheck", "health_report", "healthz"]  # names that merely START like the exempt `/health` endpoint


class StickyProto(Protocol):
    def run(self, script: str) -> str: ...
    def healthcheck(self, script: str) -> str: ...
    def health_report(self, script: str) -> str: ...
    def healthz(self, script: str) -> str: ...


class SessState:
    """A session state object: labelled, records its own close()."""

    def __init__(self, label: int, closed: list[int]) -> None:
        self.label = label
        self._closed = closed

    def close(self) -> None:
        self._closed.append(self.label)


def classify_exc(e: BaseException) -> str:
    n = type(e).__name__
    m = str(e)
    if n == "RuntimeError" and "did not opt in" in m:
        return "notOptedIn"
    if n == "RuntimeError" and "already active" in m:
        return "alreadyActive"
    if n == "RuntimeError" and "not available" in m:
        return "notAvailable"
    if n == "ServerDrainingError":
        return "draining"
    if n in ("error", "OverflowError", "ValueError"):  # struct.error / int(inf) / server_id too long
        return "sealFailed"
    return "other:" + n


class Impl:
    def __init__(self, closed: list[int]) -> None:
        self.closed = closed
        self.calls: list[dict[str, Any]] = []  # one record per dispatch of a method
        self.registry: Any = None               # set by Worker: the environment actions act on it
        self.pending: list[Any] = []            # environment threads still waiting for an entry lock

    def _environment(self, fn: Any, done: Any = None) -> None:
        """Something ends sessions WHILE the method runs, from another thread (reaper tick / DrainHandle.shutdown()).
        The sweep pops ALL its victims under the registry lock first and only then runs their close hooks; the hook of a
        session this request holds waits for the entry lock, i.e. until process_response.  The method goes on exactly when
        the sweep's pop phase is over: the thread has finished, or it has reached `_close_entry` (pops done, hooks running
        or blocked).  Waiting for less (e.g. "nothing left to evict") would let the sweep run after the method's next
        call and evict a session that call opens."""
        import sys
        import threading
        import time as _t

        th = threading.Thread(target=fn, daemon=True)
        th.start()
        self.pending.append(th)

        def pop_phase_over() -> bool:
            if not th.is_alive():
                return True
            f = sys._current_frames().get(th.ident)
            while f is not None:
                if f.f_code.co_name == "_close_entry":
                    return True
                f = f.f_back
            return False

        t0 = _t.monotonic()
        while not pop_phase_over() and _t.monotonic() - t0 < 5:
            _t.sleep(0.0002)

    def healthcheck(self, script: str, ctx: CallContext) -> str:
        return self.run(script, ctx, "healthcheck")

    def health_report(self, script: str, ctx: CallContext) -> str:
        return self.run(script, ctx, "health_report")

    def healthz(self, script: str, ctx: CallContext) -> str:
        return self.run(script, ctx, "healthz")

    def run(self, script: str, ctx: CallContext, name: str = "run") -> str:
        spec = json.loads(script)
        log: list[Any] = []
        self.calls.append({"log": log, "method": name})
        for a in spec["actions"]:
            try:
                if a == "S":
                    reg = self.registry
                    self._environment(reg.shutdown, lambda: len(reg._entries) == 0)
                    log.append("e")
                elif isinstance(a, list) and a[0] == "R":
                    reg, at = self.registry, float(a[1])
                    self._environment(lambda: reg.drain_expired(now=at), lambda: not any(e.expires_at < at for e in list(reg._entries.values())))
                    log.append("e")
                elif a == "c":
                    ctx.close_session()
                    log.append("c")
                elif a == "u":
                    s = ctx.session
                    log.append(["u", s.label if isinstance(s, SessState) else None])
                elif a == "n":
                    log.append("n")
                else:
                    _o, label, ttl = a
                    ctx.open_session(SessState(label, self.closed), ttl=ttl)
                    log.append(["o", ctx.session_id])
            except Exception as e:  # noqa: BLE001
                log.append(["x", classify_exc(e)])
                if not spec.get("swallow"):
                    raise
        return json.dumps(log)


def ident_header(ident: Any) -> dict[str, str]:
    """ident: None (no credentials) | (domain|None, principal|None, authenticated)."""
    if ident is None:
        return {}
    d, p, a = ident
    return {ID_HEADER: json.dumps([d, p, a]).encode().hex()}


def _authenticate(req: Any) -> AuthContext:
    h = req.get_header(ID_HEADER)
    if not h:
        return AuthContext.anonymous()
    d, p, a = json.loads(bytes.fromhex(h))
    return AuthContext(domain=d, authenticated=bool(a), principal=p)


def auth_of(ident: Any) -> AuthContext | None:
    if ident is None:
        return None
    d, p, a = ident
    return AuthContext(domain=d, authenticated=bool(a), principal=p)


def model_ident(ident: Any) -> Any:
    """The identity as the model sees it: null = anonymous, else UTF-8 of `domain or ""` / `principal or ""`."""
    if ident is None or not ident[2]:
        return None
    return {"d": (ident[0] or "").encode().hex(), "p": (ident[1] or "").encode().hex()}


class _Clock:
    def __init__(self) -> None:
        self.now = 1000

    def time(self) -> float:
        return float(self.now)


class _NoReaper:
    def __init__(self, *a: Any, **k: Any) -> None:
        pass

    def start(self) -> None:
        pass

    def stop(self) -> None:
        pass


class Rig:
    """Context manager: deterministic module attributes while a farm is driven."""

    def __init__(self) -> None:
        self.clock = _Clock()
        self.sid_ctr = 0
        self.nonce_ctr = 0
        self._saved: list[tuple[Any, str, Any]] = []

    def _set(self, mod: Any, name: str, val: Any) -> None:
        self._saved.append((mod, name, getattr(mod, name)))
        setattr(mod, name, val)

    def _token_bytes(self, n: int) -> bytes:
        v = self.sid_ctr
        self.sid_ctr += 1
        return v.to_bytes(n, "little")

    def _urandom(self, n: int) -> bytes:
        v = self.nonce_ctr
        self.nonce_ctr += 1
        return v.to_bytes(n, "big")

    def __enter__(self) -> "Rig":
        self._set(st, "time", types.SimpleNamespace(time=self.clock.time))
        self._set(st, "secrets", types.SimpleNamespace(token_bytes=self._token_bytes))
        self._set(st, "_ReaperThread", _NoReaper)
        self._set(vcrypto, "os", types.SimpleNamespace(urandom=self._urandom, environ=os.environ))
        return self

    def __exit__(self, *a: Any) -> None:
        for mod, name, val in reversed(self._saved):
            setattr(mod, name, val)
        self._saved.clear()

    def env(self) -> dict[str, int]:
        return {"now": self.clock.now, "sidCtr": self.sid_ctr, "nonceCtr": self.nonce_ctr}


class RecordingClient(_SyncTestClient):
    """`_SyncTestClient` that remembers the last raw exchange (what `with_session_token()` sends and receives)."""

    __slots__ = ("last",)

    def __init__(self, app: Any, default_headers: dict[str, str] | None = None) -> None:
        super().__init__(app, default_headers=default_headers)
        self.last: dict[str, Any] = {}

    def post(self, url: str, *, content: bytes, headers: dict[str, str]) -> Any:
        r = super().post(url, content=content, headers=headers)
        self.last = {"req_headers": {**self._default_headers, **headers}, "status": r.status_code, "headers": dict(r.headers), "content": r.content}
        return r


class Worker:
    def __init__(self, idx: int, server_id: str, key_id: int, key: bytes, default_ttl: int, closed: list[int], prefix: str = "") -> None:
        self.idx = idx
        self.prefix = prefix
        self.server_id = server_id
        self.key_id = key_id
        self.key = key
        self.default_ttl = default_ttl
        self.impl = Impl(closed)
        self.server = RpcServer(StickyProto, self.impl, server_id=server_id)
        self.app = make_wsgi_app(self.server, enable_sticky=True, token_key=key, authenticate=_authenticate,
                                 sticky_default_ttl=float(default_ttl), prefix=prefix)
        self.tc = falcon.testing.TestClient(self.app)
        self.mw = next(m.__self__ for g in self.app._middleware for m in g
                       if isinstance(getattr(m, "__self__", None), st._StickyMiddleware))
        self.registry: Any = self.mw._registry
        self.impl.registry = self.registry
        self.schema = self.server._methods["run"].params_schema

    def body(self, actions: list[Any], swallow: bool, method: str = "run") -> bytes:
        return rpcutil.request_bytes(method, self.server._methods[method].params_schema,
                                     {"script": json.dumps({"actions": actions, "swallow": swallow})})

    def settle(self) -> None:
        """Let the environment threads of the last request finish (their close hooks run once the entry lock is free)."""
        for th in self.impl.pending:
            th.join(5)
        self.impl.pending.clear()

    def snapshot(self) -> list[dict[str, Any]]:
        out = []
        for sid, e in self.registry._entries.items():
            out.append({"sid": sid.hex(), "expires": int(e.expires_at) if float(e.expires_at).is_integer() else repr(e.expires_at),
                        "pkey": e.principal_key.encode().hex(), "state": getattr(e.state, "label", -1)})
        return sorted(out, key=lambda x: x["sid"])


def parse_post(status: int, headers: dict[str, str], content: bytes) -> dict[str, Any]:
    """Canonical view of a POST response: outcome class, error kind, session headers."""
    h = {k.lower(): v for k, v in headers.items()}
    err = None
    result = None
    try:
        for _sch, bs in rpcutil.read_all_streams(content):
            err = rpcutil.error_of(bs)
            if err:
                break
            for b, _md in bs:
                if b.num_rows and "result" in b.schema.names:
                    result = b.column("result")[0].as_py()
    except Exception as e:  # noqa: BLE001
        err = {"type": "non-arrow-body", "kind": None, "message": repr(e)}
    if err is None:
        outcome: Any = "ok"
    elif err.get("kind") == "session_lost" and err.get("type") == "SessionLostError":
        outcome = "lost"
    else:
        if err.get("type") == "RuntimeError" and "did not opt in" in err.get("message", ""):
            cls = "notOptedIn"
        elif err.get("type") == "RuntimeError" and "already active" in err.get("message", ""):
            cls = "alreadyActive"
        elif err.get("type") == "RuntimeError" and "not available" in err.get("message", ""):
            cls = "notAvailable"
        elif err.get("type") == "ServerDrainingError":
            cls = "draining"
        elif err.get("type") in ("error", "OverflowError", "ValueError"):
            cls = "sealFailed"
        else:
            cls = "other:" + str(err.get("type"))
        outcome = {"failed": cls}
    return {"status": status, "outcome": outcome, "kind": (err or {}).get("kind"), "etype": (err or {}).get("type"),
            "session": h.get("vgi-session"), "close": (h.get("vgi-session-close") or "").strip().lower() == "true",
            "result": result}


class Farm:
    """Several real workers + the bookkeeping needed to talk to the model."""

    def __init__(self, rig: Rig, cfgs: list[dict[str, Any]], keys: list[bytes], idents: list[Any]) -> None:
        self.rig = rig
        self.closed: list[int] = []
        self.keys = keys
        self.idents = idents
        self.workers = [Worker(i, c["server_id"], c["key"], keys[c["key"]], c["default_ttl"], self.closed, c.get("prefix", ""))
                        for i, c in enumerate(cfgs)]
        self.owner: dict[str, int] = {}  # ghost: sid hex -> client that opened it
        self._sym: dict[str, Any] = {}
        self._aads = []
        seen = set()
        for i in idents:
            a = _compute_aad(auth_of(i))
            if a not in seen:
                seen.add(a)
                self._aads.append(a)

    # ---------------------------------------------------------------- model translation
    def model_cfg(self) -> list[dict[str, Any]]:
        return [{"serverId": w.server_id.encode().hex(), "key": w.key_id, "defaultTtl": w.default_ttl} for w in self.workers]

    def model_regs(self) -> list[dict[str, Any]]:
        """The real registries in the model's JSON (ghost owner from the harness's own bookkeeping)."""
        return [{"entries": [{**e, "owner": self.owner.get(e["sid"], 0)} for e in w.snapshot()], "draining": bool(w.registry.draining)}
                for w in self.workers]

    def sym(self, wire: str) -> dict[str, Any]:
        """A header value as the model's wire: (symbolic envelope, is-canonical-text).

        The envelope is `sealed` iff its bytes open under one of the farm's keys with the AAD of one of the farm's
        identities and the version byte it carries (the symbolic-AEAD reading of the real bytes); else `raw`."""
        if wire in self._sym:
            return self._sym[wire]
        try:
            raw = base64.urlsafe_b64decode((wire + "=" * (-len(wire) % 4)).encode("ascii"))
        except Exception:  # noqa: BLE001
            r = {"tok": {"raw": wire.encode("utf-8", "surrogatepass").hex()}, "canon": False}
            self._sym[wire] = r
            return r
        canon = base64.urlsafe_b64encode(raw).rstrip(b"=").decode("ascii") == wire
        tok: dict[str, Any] = {"raw": raw.hex()}
        if len(raw) >= 41:
            for kid, key in enumerate(self.keys):
                for a in self._aads:
                    try:
                        pt = vcrypto.open_bytes(raw, key, aad=a, version=raw[0])
                    except vcrypto.SealError:
                        continue
                    tok = {"key": kid, "aad": a.hex(), "ver": raw[0], "nonce": int.from_bytes(raw[1:25], "big"), "payload": pt.hex()}
                    break
                if "key" in tok:
                    break
        r = {"tok": tok, "canon": canon}
        self._sym[wire] = r
        return r

    def model_req(self, ident: Any, accept: str | None, wire: str | None, client: int, method: str = "run") -> dict[str, Any]:
        eff = wire.strip() if wire is not None else None
        return {"ident": model_ident(ident), "accept": [ord(c) for c in accept] if accept is not None else None,
                "session": self.sym(eff) if eff else None, "client": client, "path": [ord(c) for c in "/" + method]}

    # ---------------------------------------------------------------- real operations
    def post(self, wk: int, ident: Any, accept: str | None, wire: str | None, actions: list[Any], swallow: bool, client: int = 0,
             method: str = "run") -> dict[str, Any]:
        w = self.workers[wk]
        before = set(w.registry._entries)
        n_calls = len(w.impl.calls)
        n_closed = len(self.closed)
        headers = {"Content-Type": ARROW, **ident_header(ident)}
        if accept is not None:
            headers["VGI-Session-Accept"] = accept
        if wire is not None:
            headers["VGI-Session"] = wire
        r = w.tc.simulate_post(f"{w.prefix}/{method}", body=w.body(actions, swallow, method), headers=headers)
        w.settle()
        obs = parse_post(r.status_code, dict(r.headers), r.content)
        new_calls = w.impl.calls[n_calls:]
        obs["dispatched"] = len(new_calls)
        obs["log"] = new_calls[0]["log"] if new_calls else []
        obs["closed_states"] = self.closed[n_closed:]
        for sid in set(w.registry._entries) - before:
            self.owner[sid.hex()] = client
        return obs

    def delete(self, wk: int, ident: Any, wire: str | None) -> dict[str, Any]:
        w = self.workers[wk]
        n_closed = len(self.closed)
        headers = dict(ident_header(ident))
        if wire is not None:
            headers["VGI-Session"] = wire
        r = w.tc.simulate_delete(f"{w.prefix}/__session__", headers=headers)
        h = {k.lower(): v for k, v in dict(r.headers).items() if k.lower() != "x-request-id"}
        return {"status": r.status_code, "close": (h.get("vgi-session-close") or "").strip().lower() == "true",
                "headers": sorted(h.items()), "body": r.content.hex(), "closed_states": self.closed[n_closed:]}

    def tick(self, dt: int) -> None:
        self.rig.clock.now += dt

    def reap(self, wk: int) -> list[int]:
        n = len(self.closed)
        self.workers[wk].registry.drain_expired()
        return self.closed[n:]

    def shutdown(self, wk: int) -> list[int]:
        n = len(self.closed)
        self.workers[wk].registry.shutdown()
        return self.closed[n:]

    def drain(self, wk: int, b: bool) -> None:
        self.workers[wk].registry.set_draining(b)


def model_action(a: Any) -> Any:
    if isinstance(a, str):
        return a
    if a[0] == "R":
        return {"R": a[1]}
    return {"o": a[1], "ttl": a[2]}


def canon_model_log(log: list[Any]) -> list[Any]:
    """The model's `ActOut` list in the shape of the method's own log."""
    out: list[Any] = []
    for x in log:
        if x == "noop":
            out.append("n")
        elif x == "env":
            out.append("e")
        elif "opened" in x:
            out.append(["o", x["opened"]])
        elif "closed" in x:
            out.append("c")
        elif "used" in x:
            out.append(["u", x["used"]])
        elif "failed" in x:
            out.append(["x", x["failed"]])
    return out


def canon_model_regs(regs: list[dict[str, Any]]) -> list[dict[str, Any]]:
    return [{"entries": sorted(r["entries"], key=lambda e: e["sid"]), "draining": r["draining"]} for r in regs]


def fast_call(driver: Any, m: str, a: Any) -> Any:
    """One driver request without `LeanDriver.batch`'s writer thread (a single small line cannot fill the pipe)."""
    from harness.common.lean import DriverError

    driver.n += 1
    driver.p.stdin.write((json.dumps({"id": driver.n, "m": m, "a": a}, ensure_ascii=True) + "\n").encode())
    driver.p.stdin.flush()
    line = driver.p.stdout.readline()
    if not line:
        raise DriverError(f"driver died on {m}")
    r = json.loads(line)
    driver.calls += 1
    if "e" in r:
        raise DriverError(f"{m}: {r['e']} (args {json.dumps(a)[:300]})")
    return r["r"]
