"""C04 helper: run a *history* of calls on ONE socket-family connection with a fault plan per call.

Extends the generated-service harness (svcgen) without touching it:

* the CLIENT protocol may differ from the SERVER protocol (a method the server does not have -> unknown method; a
  different parameter name -> parameter rejection; a different ``protocol_version`` -> version rejection);
* the client's ``on_log`` callback can be made to raise (once at the k-th log of a call, or from the k-th log on);
* ``exit`` leaves a session through its context manager (``__exit__``), ``drop`` forgets it without closing;
* every byte either side writes is tee'd, so the number of IPC streams / batches per direction can be counted (K).

Script ops (one connection):
  ["call", m, v(, "badver")] | ["open", m, v(, "badver")] | ["iter", n|None] | ["tick"] | ["send", v] | ["close"] | ["cancel"] | ["exit"]
  | ["onlog", None | ["once", k] | ["from", k]]     (policy for the ops that follow; the log counter restarts at call/open)
Result: {"trace": [[events…] per op], "hung": bool, "c2s": [n_batches per IPC stream…], "s2c": […], "server_exit": str|None,
         "leftover": {"c2s": nbytes not parsed as whole streams, "s2c": …}}
"""

import contextlib
import io
import threading
from typing import Any, Protocol

import pyarrow as pa
from pyarrow import ipc

from harness.common import svcgen
from harness.common.svcgen import EVENTS, Hdr, ScriptState, _clone, _ev_data, _ev_err, _ev_log, make_input
from dataclasses import dataclass

from vgi_rpc.rpc import (
    AnnotatedBatch, CallContext, ExchangeState, OutputCollector, ProducerState, RpcConnection, RpcError, RpcServer, Stream, make_pipe_pair,
)


import enum


class ColorS(enum.Enum):
    """The SERVER's result enum …"""

    RED = "RED"
    GREEN = "GREEN"
    BLUE = "BLUE"


class ColorC(enum.Enum):
    """… and the CLIENT's, built against an older Protocol: it does not know BLUE."""

    RED = "RED"
    GREEN = "GREEN"


# unary methods whose result the client may be unable to validate / decode: name -> (server return annotation, value
# returned, client return annotation).  Parameter is always `a: int`.
XRET: dict[str, tuple[Any, Any, Any]] = {
    "none_for_int": (int | None, None, int),                 # client: _validate_result TypeError
    "enum_unknown": (ColorS, ColorS.BLUE, ColorC),           # client: ColorC["BLUE"] KeyError
    "enum_known": (ColorS, ColorS.RED, ColorC),              # control: decodes
    "int_for_dataclass": (int, 7, Hdr),                      # client: "Expected bytes for Hdr" TypeError
    "bytes_for_dataclass": (bytes, b"not an ipc stream", Hdr),   # client: ArrowInvalid while reading the value
    "str_for_enum": (str, "PURPLE", ColorC),                 # client: KeyError
    "plain_int": (int, 9, int),                              # control / carrier for parameter-type variants (`ptype`)
}


def _play(state: Any, is_exchange: bool, out: OutputCollector) -> None:
    """One step of the script (same rules as svcgen.ScriptState.process)."""
    import json as _json

    from vgi_rpc.log import Level

    steps = _json.loads(state.prog)
    k = state.i
    state.i = k + 1
    EVENTS.append(("process", state.tag, k))
    if k < len(steps):
        step = steps[k]
    elif is_exchange:
        step = {"logs": [], "act": {"emit": {"id": 1000 + k}}}
    else:
        step = {"logs": [], "act": "finish"}
    for lg in step.get("logs", []):
        out.client_log(Level(lg["level"]), lg["text"], **lg.get("extra", {}))
    act = step["act"]
    if act == "finish":
        for lg in step.get("post", []):
            out.client_log(Level(lg["level"]), lg["text"], **lg.get("extra", {}))
        out.finish()
    elif act == "nothing":
        return
    elif "emit" in act or "emit_finish" in act:
        b = act.get("emit") or act.get("emit_finish")
        out.emit_pydict({"x": [b["id"]] * b.get("rows", 1)}, metadata=b.get("meta") or None)
        for lg in step.get("post", []):
            out.client_log(Level(lg["level"]), lg["text"], **lg.get("extra", {}))
        if "emit_finish" in act:
            out.finish()
    elif "raise" in act:
        raise svcgen.make_exc(act["raise"])


@dataclass
class ProdScriptState(ProducerState):
    """The step script as a TYPED producer state (`is_exchange is False` in the method's introspection)."""

    prog: str
    i: int = 0
    tag: str = ""

    def produce(self, out: OutputCollector, ctx: CallContext) -> None:
        _play(self, False, out)

    def on_cancel(self, ctx: CallContext) -> None:
        EVENTS.append(("on_cancel", self.tag, self.i))


@dataclass
class ExchScriptState(ExchangeState):
    """The step script as a TYPED exchange state (`is_exchange is True`)."""

    prog: str
    i: int = 0
    tag: str = ""

    def exchange(self, input: AnnotatedBatch, out: OutputCollector, ctx: CallContext) -> None:
        _play(self, True, out)

    def on_cancel(self, ctx: CallContext) -> None:
        EVENTS.append(("on_cancel", self.tag, self.i))


def _stream_ret(kind: str, hdr: bool) -> Any:
    st = ProdScriptState if kind == "producer" else ExchScriptState
    return Stream[st, Hdr] if hdr else Stream[st]


def add_typed_streams(P: type, impl: Any, methods: list[dict[str, Any]]) -> None:
    """Stream methods whose state class is a typed ProducerState / ExchangeState (svcgen's are plain StreamState)."""
    import json as _json

    from vgi_rpc.log import Level

    for m in methods:
        hdr = bool(m.get("header"))
        ret = _stream_ret(m["kind"], hdr)

        def proto(self, a: int): ...
        proto.__annotations__ = {"a": int, "return": ret}
        proto.__name__ = proto.__qualname__ = m["name"]
        setattr(P, m["name"], proto)

        def fn(self, a: int, ctx: CallContext, _m=m, _hdr=hdr):
            EVENTS.append(("invoke", _m["name"], a))
            for lg in _m.get("init_logs", []):
                ctx.client_log(Level(lg["level"]), lg["text"], **lg.get("extra", {}))
            init = _m.get("init", "ok")
            if isinstance(init, dict) and "raise" in init:
                raise svcgen.make_exc(init["raise"])
            if init == "nonstream":
                return 42
            cls = ProdScriptState if _m["kind"] == "producer" else ExchScriptState
            st = cls(prog=_json.dumps(_m["steps"]), i=0, tag=_m["name"])
            kw: dict[str, Any] = {"output_schema": svcgen.OUT_SCHEMA, "state": st}
            if _m["kind"] == "exchange":
                kw["input_schema"] = svcgen.IN_SCHEMA
            if _hdr and init != "noheader":
                kw["header"] = Hdr(h=_m.get("hdr", 0))
            return Stream(**kw)
        fn.__annotations__ = {"a": int, "ctx": CallContext, "return": ret}
        fn.__name__ = m["name"]
        setattr(type(impl), m["name"], fn)


def add_xret_methods(P: type, impl: Any, methods: list[dict[str, Any]]) -> None:
    """Add the `xret` methods of a descriptor to an svcgen-built Protocol / implementation (rpc_methods uses dir())."""
    from vgi_rpc.log import Level
    from vgi_rpc.rpc import CallContext

    for m in methods:
        sret, value, _cret = XRET[m["xret"]]
        ptype = str if m.get("ptype") == "str" else int

        def proto(self, a: int): ...
        proto.__annotations__ = {"a": ptype, "return": sret}
        proto.__name__ = proto.__qualname__ = m["name"]
        setattr(P, m["name"], proto)

        def fn(self, a: int, ctx: CallContext, _m=m, _v=value):
            EVENTS.append(("invoke", _m["name"], a))
            for lg in _m.get("logs", []):
                ctx.client_log(Level(lg["level"]), lg["text"], **lg.get("extra", {}))
            return _v
        fn.__annotations__ = {"a": ptype, "ctx": CallContext, "return": sret}
        fn.__name__ = m["name"]
        setattr(type(impl), m["name"], fn)


def boom_class(name: str | None) -> type[BaseException]:
    """The exception class the on_log callback raises: a private class by default, or one that coincides with classes the
    client's own code handles (transport errors, end-of-stream signals, …)."""
    if name is None:
        return LogBoom
    if name == "ArrowInvalid":
        return pa.ArrowInvalid
    import builtins

    return getattr(builtins, name)  # type: ignore[no-any-return]


class LogBoom(Exception):
    """Raised by the client's on_log callback when the fault plan says so."""


def _c_unary_a(self, a: int) -> int: ...
def _c_unary_b(self, b: int) -> int: ...
def _c_stream_a(self, a: int) -> Stream[ScriptState]: ...
def _c_stream_b(self, b: int) -> Stream[ScriptState]: ...
def _c_stream_h_a(self, a: int) -> Stream[ScriptState, Hdr]: ...
def _c_stream_h_b(self, b: int) -> Stream[ScriptState, Hdr]: ...


def build_client_protocol(cdesc: dict[str, Any], version: str | None) -> type:
    """Client-side Protocol: {"methods": [{"name","kind","header","param": "a"|"b"}]} (only signatures matter)."""
    ns: dict[str, Any] = {"__module__": __name__}
    if version is not None:
        ns["protocol_version"] = version
    for m in cdesc["methods"]:
        p = m.get("param", "a")
        if m.get("xret"):
            def cproto(self, a: int): ...
            cproto.__annotations__ = {"a": str if m.get("ptype") == "str" else int, "return": XRET[m["xret"]][2]}
            cproto.__name__ = cproto.__qualname__ = m["name"]
            ns[m["name"]] = cproto
            continue
        if m.get("typed") and m["kind"] != "unary" and p == "a":
            def tproto(self, a: int): ...
            tproto.__annotations__ = {"a": int, "return": _stream_ret(m["kind"], bool(m.get("header")))}
            tproto.__name__ = tproto.__qualname__ = m["name"]
            ns[m["name"]] = tproto
            continue
        if m["kind"] == "unary":
            tmpl = _c_unary_a if p == "a" else _c_unary_b
        elif m.get("header"):
            tmpl = _c_stream_h_a if p == "a" else _c_stream_h_b
        else:
            tmpl = _c_stream_a if p == "a" else _c_stream_b
        ns[m["name"]] = _clone(tmpl, m["name"])
    return type("GenClientProto", (Protocol,), ns)


class _Tee:
    """File-like writer that forwards to the real writer and keeps a copy."""

    def __init__(self, inner: Any, log: bytearray) -> None:
        self._inner = inner
        self._log = log

    def write(self, b: Any) -> Any:
        n = self._inner.write(b)
        self._log += bytes(b) if n is None else bytes(b)[:n]   # only what reached the wire
        return n

    def flush(self) -> None:
        with contextlib.suppress(Exception):
            self._inner.flush()

    def close(self) -> None:
        self._inner.close()

    @property
    def closed(self) -> bool:
        return bool(self._inner.closed)

    def writable(self) -> bool:
        return True

    def readable(self) -> bool:
        return False

    def seekable(self) -> bool:
        return False

    def fileno(self) -> int:
        return int(self._inner.fileno())


def count_streams(data: bytes) -> tuple[list[int], int]:
    """Parse a byte log as consecutive IPC streams: ([batches per complete stream], bytes left over)."""
    src = io.BytesIO(data)
    out: list[int] = []
    while src.tell() < len(data):
        pos = src.tell()
        try:
            r = ipc.open_stream(src)
            n = 0
            while True:
                try:
                    r.read_next_batch()
                except StopIteration:
                    break
                n += 1
            out.append(n)
        except (pa.ArrowInvalid, OSError, EOFError):
            return out, len(data) - pos
    return out, 0


def run_history(sdesc: dict[str, Any], cdesc: dict[str, Any], script: list[list[Any]], kind: str = "pipe", *,
                server_version: str | None = None, client_version: str | None = None, bad_version: str | None = None,
                deadline: float = 10.0) -> dict[str, Any]:
    EVENTS.clear()
    xm = [m for m in sdesc["methods"] if m.get("xret")]
    tm = [m for m in sdesc["methods"] if m.get("typed") and m["kind"] != "unary"]
    P, impl = svcgen.build({"methods": [m for m in sdesc["methods"] if not m.get("xret") and m not in tm]}, server_version)
    add_xret_methods(P, impl, xm)
    add_typed_streams(P, impl, tm)
    CP = build_client_protocol(cdesc, client_version)
    CPbad = build_client_protocol(cdesc, bad_version) if bad_version is not None else None
    params = {m["name"]: m.get("param", "a") for m in cdesc["methods"]}
    cur: list[list[Any]] = []
    trace: list[list[Any]] = []
    pol: dict[str, Any] = {"mode": None, "k": 0, "n": 0}
    c2s_log, s2c_log = bytearray(), bytearray()
    result: dict[str, Any] = {"hung": False, "server_exit": None}

    def on_log(m: Any) -> None:
        n = pol["n"]
        pol["n"] = n + 1
        if (pol["mode"] == "once" and n == pol["k"]) or (pol["mode"] == "from" and n >= pol["k"]):
            cur.append(["logboom", n])
            raise boom_class(pol.get("cls"))(f"on_log raised at log {n}")
        cur.append(_ev_log(m))

    from vgi_rpc.rpc import make_tcp_pair, make_unix_pair

    ct, st = {"pipe": make_pipe_pair, "unix": make_unix_pair, "tcp": make_tcp_pair}[kind]()
    ct._writer = _Tee(ct._writer, c2s_log)
    st._writer = _Tee(st._writer, s2c_log)
    server = RpcServer(P, impl, enable_describe=True)
    served = threading.Event()

    def serve() -> None:
        try:
            server.serve(st)
            result["server_exit"] = "returned"
        except BaseException as e:  # noqa: BLE001
            result["server_exit"] = f"{type(e).__name__}: {str(e)[:120]}"
        finally:
            served.set()
            with contextlib.suppress(Exception):
                st.close()

    sth = threading.Thread(target=serve, daemon=True)
    sth.start()
    done = threading.Event()

    def body() -> None:
        sess: Any = None
        it: Any = None
        with RpcConnection(CP, ct, on_log=on_log) as good:
            # a second proxy over the SAME transport whose protocol declares another version (-> version rejection)
            bad = RpcConnection(CPbad, ct, on_log=on_log).__enter__() if CPbad is not None else None
            for op in script:
                proxy = bad if (len(op) > 3 and op[3] == "badver" and bad is not None) else good
                cur.clear()
                k = op[0]
                try:
                    if k == "onlog":
                        pol["mode"], pol["k"] = (None, 0) if op[1] is None else (op[1][0], op[1][1])
                        pol["cls"] = op[1][2] if op[1] is not None and len(op[1]) > 2 else None
                    elif k not in ("call", "open") and sess is None:
                        cur.append(["nosession"])
                    elif k == "call":
                        pol["n"] = 0
                        v = getattr(proxy, op[1])(**{params[op[1]]: op[2]})
                        cur.append(["value", v])
                    elif k == "open":
                        pol["n"] = 0
                        sess = None
                        it = None
                        sess = getattr(proxy, op[1])(**{params[op[1]]: op[2]})
                        if sess.header is not None:
                            cur.append(["header", sess.header.h])
                        cur.append(["opened"])
                    elif k == "iter":
                        n = op[1]
                        if it is None:
                            it = iter(sess)
                        got = 0
                        while n is None or got < n:
                            try:
                                ab = next(it)
                            except StopIteration:
                                cur.append(["end"])
                                break
                            cur.append(_ev_data(ab))
                            got += 1
                    elif k == "tick":
                        try:
                            cur.append(_ev_data(sess.tick()))
                        except StopIteration:
                            cur.append(["end"])
                    elif k == "send":
                        cur.append(_ev_data(sess.exchange(make_input(op[1], "ok"))))
                    elif k == "close":
                        sess.close()
                        cur.append(["closed"])
                    elif k == "exit":
                        sess.__exit__(None, None, None)
                        cur.append(["closed"])
                    elif k == "cancel":
                        sess.cancel()
                        cur.append(["cancelled"])
                    elif k == "drop":
                        sess = None
                        it = None
                    else:
                        raise ValueError(k)
                except RpcError as e:
                    cur.append(_ev_err(e))
                except StopIteration:
                    cur.append(["end"])
                except LogBoom:
                    cur.append(["raised", "LogBoom"])
                except Exception as e:  # noqa: BLE001
                    cur.append(["raised", type(e).__name__, str(e)[:200]])
                trace.append([list(x) for x in cur])
        done.set()

    th = threading.Thread(target=body, daemon=True)
    th.start()
    th.join(deadline)
    if th.is_alive():
        result["hung"] = True
        # unblock both sides so the threads do not leak — by ending the outgoing directions only: closing a reader another
        # thread is blocked in would wait for that read (and hang the harness)
        from harness.common.c05util import unblock

        unblock(ct)
        sth.join(3)
        unblock(st)
        th.join(3)
    sth.join(5)
    result["server_alive_after"] = sth.is_alive()
    result["trace"] = [list(t) for t in trace]
    result["events"] = list(EVENTS)
    c, lc = count_streams(bytes(c2s_log))
    s, ls = count_streams(bytes(s2c_log))
    result["c2s"], result["s2c"] = c, s
    result["leftover"] = {"c2s": lc, "s2c": ls}
    return result
