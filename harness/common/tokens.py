"""Shared machinery for the stream-token properties (C12, C13; meant to be reusable by C14 / C25).

* generated services with several stream methods (producer / exchange, shared and distinct state classes, union
  states, optional call state) whose hooks write an invocation log,
* real apps through ``falcon.testing`` — a *warm* worker (call-state cache on) and a *cold* one (cache size 0) sharing
  the token key, foreign-key workers, an ``authenticate`` callback driven by a request header,
* a recorder around ``vgi_rpc.crypto.seal_bytes`` so that every envelope ever minted is known with its
  (key, aad, version, payload): this is the abstraction function bytes → symbolic term of the Lean model,
* a fake clock installed as the ``time`` attribute of the token modules.

Do not add ``from __future__ import annotations`` here: the generated Protocol classes need real annotation objects.
"""

import base64
import io
import json
import time as _real_time
from dataclasses import dataclass
from typing import Any, Protocol

import pyarrow as pa
from pyarrow import ipc

from harness.common import rpcutil
from harness.common.lean import b2j, s2j

import vgi_rpc.crypto as _crypto
import vgi_rpc.http.server._app_stream as _app_stream
import vgi_rpc.http.server._state_token as _state_token
from vgi_rpc.metadata import CALL_STATE_KEY, CANCEL_KEY, STATE_KEY
from vgi_rpc.rpc import AnnotatedBatch, AuthContext, CallContext, OutputCollector, RpcServer, Stream, StreamState
from vgi_rpc.utils import ArrowSerializableDataclass

CT = {"Content-Type": "application/vnd.apache.arrow.stream"}
SCH = pa.schema([("x", pa.int64())])
EMPTY = pa.schema([])
ID_HEADER = "X-Verif-Id"

LOG: list[tuple[Any, ...]] = []  # invocation log of every hook / decode, cleared per request


# ------------------------------------------------------------------------------------------ state classes


@dataclass(frozen=True)
class CallSecret(ArrowSerializableDataclass):
    secret: str = ""


class _Hooks:
    """Mixin: every hook appends to LOG (class name, marker, method the framework says it is serving)."""

    def _tag(self) -> tuple[str, str]:
        return type(self).__name__, getattr(self, "marker", getattr(self, "tag", ""))

    def rehydrate(self, implementation: object) -> None:
        LOG.append(("rehydrate", None, *self._tag()))

    def bind_call_state(self, call_state: Any) -> None:
        LOG.append(("bind_call_state", None, *self._tag()))
        object.__setattr__(self, "_cs", call_state)

    def on_cancel(self, ctx: CallContext) -> None:
        LOG.append(("on_cancel", ctx._method_name, *self._tag()))


@dataclass
class SA(_Hooks, StreamState):
    n: int = 0
    marker: str = ""

    def process(self, input: AnnotatedBatch, out: OutputCollector, ctx: CallContext) -> None:
        LOG.append(("process", ctx._method_name, *self._tag()))
        v = input.batch.column("x").to_pylist() if input.batch.num_columns else []
        out.emit_pydict({"x": [self.n + sum(v)]})
        self.n += 1


@dataclass
class SB(_Hooks, StreamState):  # same fields as SA, different class
    n: int = 0
    marker: str = ""

    def process(self, input: AnnotatedBatch, out: OutputCollector, ctx: CallContext) -> None:
        LOG.append(("process", ctx._method_name, *self._tag()))
        v = input.batch.column("x").to_pylist() if input.batch.num_columns else []
        out.emit_pydict({"x": [100 + self.n + sum(v)]})
        self.n += 1


@dataclass
class SC(_Hooks, StreamState):  # different fields
    k: int = 0
    tag: str = ""
    ratio: float = 0.5

    def process(self, input: AnnotatedBatch, out: OutputCollector, ctx: CallContext) -> None:
        LOG.append(("process", ctx._method_name, *self._tag()))
        out.emit_pydict({"x": [1000 + self.k]})
        self.k += 1


@dataclass
class SD(_Hooks, StreamState):  # carries call state
    CALL_STATE_TYPE = CallSecret
    n: int = 0
    marker: str = ""

    def process(self, input: AnnotatedBatch, out: OutputCollector, ctx: CallContext) -> None:
        LOG.append(("process", ctx._method_name, *self._tag()))
        out.emit_pydict({"x": [2000 + self.n]})
        self.n += 1


@dataclass
class SU1(_Hooks, StreamState):  # union member
    n: int = 0
    marker: str = ""

    def process(self, input: AnnotatedBatch, out: OutputCollector, ctx: CallContext) -> None:
        LOG.append(("process", ctx._method_name, *self._tag()))
        out.emit_pydict({"x": [3000 + self.n]})
        self.n += 1


@dataclass
class SU2(_Hooks, StreamState):  # union member
    n: int = 0
    marker: str = ""

    def process(self, input: AnnotatedBatch, out: OutputCollector, ctx: CallContext) -> None:
        LOG.append(("process", ctx._method_name, *self._tag()))
        out.emit_pydict({"x": [4000 + self.n]})
        self.n += 1


STATE_CLASSES = {"SA": SA, "SB": SB, "SC": SC, "SD": SD, "SU1": SU1, "SU2": SU2}


def _new_state(cls_name: str, n: int, marker: str) -> StreamState:
    if cls_name == "SC":
        return SC(k=n, tag=marker, ratio=0.25)
    return STATE_CLASSES[cls_name](n=n, marker=marker)


# ------------------------------------------------------------------------------------------ generated services


def _ret_type(states: list[str]) -> Any:
    if len(states) == 1:
        return Stream[STATE_CLASSES[states[0]]]
    u = STATE_CLASSES[states[0]]
    for s in states[1:]:
        u = u | STATE_CLASSES[s]
    return Stream[u]


def make_service(methods: list[dict[str, Any]]) -> RpcServer:
    """methods: [{"name","kind": "producer"|"exchange","states":[cls…],"call_state":bool}]"""
    ns: dict[str, Any] = {"__module__": __name__}
    impl_ns: dict[str, Any] = {}
    for m in methods:
        name, kind, states = m["name"], m["kind"], m["states"]
        ret = _ret_type(states)

        def proto(self: Any, n: int) -> Any: ...

        proto.__name__ = proto.__qualname__ = name
        proto.__annotations__ = {"n": int, "return": ret}
        ns[name] = proto

        def impl(self: Any, n: int, _name: str = name, _kind: str = kind, _states: list[str] = states, _cs: bool = bool(m.get("call_state"))) -> Any:
            LOG.append(("init", _name))
            cls_name = _states[n % len(_states)]
            marker = f"PLAINTEXT-MARKER-{_name}-{n}"
            return Stream(
                output_schema=SCH,
                state=_new_state(cls_name, n, marker),
                input_schema=SCH if _kind == "exchange" else EMPTY,
                call_state=CallSecret(secret=f"CALLSTATE-SECRET-{_name}-{n}") if _cs else None,
            )

        impl.__name__ = impl.__qualname__ = name
        impl.__annotations__ = {"n": int, "return": ret}
        impl_ns[name] = impl
    P = type("TokProto", (Protocol,), ns)
    Impl = type("TokImpl", (), impl_ns)
    return RpcServer(P, Impl())


# ------------------------------------------------------------------------------------------ identities


def ident_header(ident: tuple[Any, ...] | None) -> dict[str, str]:
    """ident: None (no header → anonymous) | ("anon",) | ("user", domain|None, principal|None) | ("unauth", d, p)"""
    if ident is None:
        return {}
    return {ID_HEADER: json.dumps(list(ident)).encode().hex()}


def authenticate(req: Any) -> AuthContext:
    h = req.get_header(ID_HEADER)
    if not h:
        return AuthContext.anonymous()
    kind, *rest = json.loads(bytes.fromhex(h).decode())
    if kind == "anon":
        return AuthContext.anonymous()
    d, p = rest
    return AuthContext(domain=d, authenticated=(kind == "user"), principal=p)


def auth_of(ident: tuple[Any, ...] | None) -> AuthContext | None:
    if ident is None or ident[0] == "anon":
        return None
    return AuthContext(domain=ident[1], authenticated=(ident[0] == "user"), principal=ident[2])


def ident_model(ident: tuple[Any, ...] | None) -> dict[str, Any]:
    """The model's `Identity` of a harness identity (None / unauthenticated ↦ anonymous; `x or ""`)."""
    if ident is None or ident[0] != "user":
        return {"anon": True}
    return {"d": s2j(ident[1] or ""), "p": s2j(ident[2] or "")}


def ident_key(ident: tuple[Any, ...] | None) -> tuple[str, str] | None:
    """Canonical identity as the property means it: anonymous, or (domain, principal)."""
    if ident is None or ident[0] != "user":
        return None
    return (ident[1] or "", ident[2] or "")


# ------------------------------------------------------------------------------------------ recorder / clock


class FakeTime:
    """Stands in for the `time` module inside the token modules; only `time()` is controlled."""

    def __init__(self, now: float) -> None:
        self.now = now

    def time(self) -> float:
        return self.now

    def __getattr__(self, name: str) -> Any:
        return getattr(_real_time, name)


def spec_key(key: bytes) -> bytes:
    """Which AEAD key an operator key *is*, as documented — NOT read from the implementation: a 32-byte key is itself,
    any other length is SHA-256 of the whole key.  Two operator keys are "the same key" only if these are equal."""
    import hashlib

    return key if len(key) == 32 else hashlib.sha256(key).digest()


class Recorder:
    """Everything `crypto.seal_bytes` ever produced in this process: envelope → (key, aad, version, payload)."""

    def __init__(self) -> None:
        self.by_raw: dict[bytes, tuple[bytes, bytes, int, bytes, int]] = {}
        self.key_ids: dict[bytes, int] = {}
        self._orig = _crypto.seal_bytes

    def key_id(self, key: bytes) -> int:
        nk = spec_key(key)
        if nk not in self.key_ids:
            self.key_ids[nk] = len(self.key_ids) + 1
        return self.key_ids[nk]

    def seal(self, payload: bytes, key: bytes, *, aad: bytes, version: int = 1) -> bytes:
        env = self._orig(payload, key, aad=aad, version=version)
        self.by_raw[env] = (spec_key(key), aad, version, payload, len(self.by_raw) + 1)
        return env

    def obs(self, wire: bytes | None) -> dict[str, Any] | None:
        """Abstraction of a presented text for the model: decoded envelope term + canonical flag."""
        if wire is None:
            return None
        try:
            raw = base64.b64decode(wire, validate=True)
        except Exception:
            return {"dec": None, "canonical": False}
        canonical = base64.b64encode(raw) == bytes(wire)
        rec = self.by_raw.get(raw)
        if rec is None:
            return {"dec": {"raw": b2j(raw)}, "canonical": canonical}
        nk, aad, ver, payload, idx = rec
        return {"dec": {"key": self.key_id(nk), "aad": b2j(aad), "ver": ver, "nonce": idx, "payload": b2j(payload)},
                "canonical": canonical}

    def zstd_rows(self, wires: list[bytes | None]) -> list[list[Any]]:
        """zstd oracle for the payloads behind these texts: [[compressed body, decompressed | null]]."""
        import zstandard

        rows = []
        for w in wires:
            if w is None:
                continue
            try:
                raw = base64.b64decode(w, validate=True)
            except Exception:
                continue
            rec = self.by_raw.get(raw)
            if rec is None or rec[3][:1] != b"\x01":
                continue
            body = rec[3][1:]
            try:
                out = zstandard.ZstdDecompressor().decompress(body, max_output_size=64 << 20)
                rows.append([b2j(body), b2j(out)])
            except zstandard.ZstdError:
                rows.append([b2j(body), None])
        return rows


# the call-token opener `_app_stream` uses on the request path (name differs between trees)
_OPEN_CALL = "_open_call_token_dated" if hasattr(_app_stream, "_open_call_token_dated") else "_open_call_token"


class Patches:
    """Install recorder, fake clock and decode probes; always undo with `.close()`."""

    def __init__(self, now: float) -> None:
        self.rec = Recorder()
        self.clock = FakeTime(now)
        self._saved = [
            (_crypto, "seal_bytes", _crypto.seal_bytes),
            (_state_token, "time", _state_token.time),
            (_app_stream, "time", _app_stream.time),
            (_app_stream, "_deserialize_state_bytes", _app_stream._deserialize_state_bytes),
            (_app_stream, "_resolve_state_cls", _app_stream._resolve_state_cls),
            (_app_stream, _OPEN_CALL, getattr(_app_stream, _OPEN_CALL)),
        ]
        _crypto.seal_bytes = self.rec.seal  # type: ignore[assignment]
        _state_token.time = self.clock  # type: ignore[assignment]
        _app_stream.time = self.clock  # type: ignore[assignment]
        orig_deser = _app_stream._deserialize_state_bytes
        orig_resolve = _app_stream._resolve_state_cls
        orig_open_call = getattr(_app_stream, _OPEN_CALL)

        def deser(state_cls: Any, raw: bytes, ipc_validation: Any) -> Any:
            LOG.append(("state_deserialize", None, state_cls.__name__, ""))
            return orig_deser(state_cls, raw, ipc_validation)

        def resolve(data: bytes, state_info: Any) -> Any:
            LOG.append(("state_bytes", None, bytes(data).hex(), ""))
            return orig_resolve(data, state_info)

        def open_call(*a: Any, **k: Any) -> Any:
            LOG.append(("open_call_token", None, "", ""))
            return orig_open_call(*a, **k)

        _app_stream._deserialize_state_bytes = deser  # type: ignore[assignment]
        _app_stream._resolve_state_cls = resolve  # type: ignore[assignment]
        setattr(_app_stream, _OPEN_CALL, open_call)

    def close(self) -> None:
        for mod, name, val in self._saved:
            setattr(mod, name, val)


# ------------------------------------------------------------------------------------------ workers


class Worker:
    """One real app (a `falcon.testing.TestClient` over `make_wsgi_app`)."""

    def __init__(self, server: RpcServer, key: bytes | None, ttl: int, cache_entries: int = 4096) -> None:
        import falcon.testing
        import warnings

        from vgi_rpc.http import make_wsgi_app

        self.server = server
        self.key = key
        self.ttl = ttl
        with warnings.catch_warnings():
            warnings.simplefilter("ignore")
            self.wsgi = make_wsgi_app(server, token_key=key, authenticate=authenticate, token_ttl=ttl,
                                      call_state_cache_entries=cache_entries)
        self.client = falcon.testing.TestClient(self.wsgi)
        name = next(iter(server.methods))
        res = self.wsgi._router.find(f"/{name}/exchange")
        self.app = res[0]._app  # the _HttpRpcApp (key, ttl, cache)

    # -- requests
    def init(self, method: str, n: int, ident: tuple[Any, ...] | None) -> Any:
        info = self.server._methods[method]
        body = rpcutil.request_bytes(method, info.params_schema, {"n": n})
        LOG.clear()
        return self.client.simulate_post(f"/{method}/init", body=body, headers={**CT, **ident_header(ident)})

    def exchange(self, method: str, cursor: bytes | None, call: bytes | None, ident: tuple[Any, ...] | None,
                 kind: str = "producer", cancel: bool = False, value: int = 5) -> Any:
        md: dict[bytes, bytes] = {}
        if cursor is not None:
            md[STATE_KEY] = cursor
        if call is not None:
            md[CALL_STATE_KEY] = call
        if cancel:
            md[CANCEL_KEY] = b"1"
        buf = io.BytesIO()
        schema = SCH if kind == "exchange" and not cancel else EMPTY
        with ipc.new_stream(buf, schema) as w:
            data = {"x": [value]} if schema is SCH else {}
            w.write_batch(pa.RecordBatch.from_pydict(data, schema=schema), custom_metadata=pa.KeyValueMetadata(md))
        LOG.clear()
        return self.client.simulate_post(f"/{method}/exchange", body=buf.getvalue(), headers={**CT, **ident_header(ident)})

    def cache_rows(self, now: float, bodies: dict[bytes, list[str]]) -> list[dict[str, Any]]:
        """All entries of the real call-state cache with their deadlines, as the model's cache argument.

        The model decides liveness itself (`exp <= now` is a miss).  Deadlines travel as ceil(expires_at) and the clock
        as int(now): exact whenever either is a whole number of seconds (deadlines are, when token_ttl > 0).
        """
        import math

        rows = []
        for (cid, ident), (exp, resolved) in list(self.app._call_state_cache._entries.items()):
            rows.append({"cid": b2j(cid), "ident": s2j(ident), "method": s2j(getattr(resolved, "method", "")),
                         "body": bodies.get(cid, ["", "", "", "", ""]), "exp": math.ceil(exp)})
        return rows


def tokens_of(resp: Any) -> tuple[bytes | None, bytes | None]:
    """(cursor token, call token) carried by a response body."""
    cur = call = None
    try:
        for _sch, bs in rpcutil.read_all_streams(resp.content):
            for _b, md in bs:
                if STATE_KEY in md:
                    cur = md[STATE_KEY]
                if CALL_STATE_KEY in md:
                    call = md[CALL_STATE_KEY]
    except Exception:
        pass
    return cur, call


def canon_error(resp: Any) -> dict[str, Any]:
    """Canonical view of an error body: everything a client can see except request / server ids."""
    out: dict[str, Any] = {"status": resp.status_code, "content_type": resp.headers.get("content-type")}
    try:
        streams = rpcutil.read_all_streams(resp.content)
    except Exception as e:
        out["body"] = f"non-arrow:{type(e).__name__}"
        return out
    items = []
    for sch, bs in streams:
        for b, md in bs:
            d = {k.decode(): v.decode("utf-8", "replace") for k, v in md.items()
                 if k not in (b"vgi_rpc.request_id", b"vgi_rpc.server_id")}
            items.append({"schema": str(sch), "rows": b.num_rows, "md": d})
    out["body"] = items
    return out


def error_message(resp: Any) -> str | None:
    try:
        for _sch, bs in rpcutil.read_all_streams(resp.content):
            e = rpcutil.error_of(bs)
            if e:
                return e["message"]
    except Exception:
        return None
    return None


def data_rows(resp: Any) -> list[Any]:
    out = []
    try:
        for _sch, bs in rpcutil.read_all_streams(resp.content):
            for b, md in bs:
                if b.num_rows and b"vgi_rpc.log_level" not in md:
                    out.append(b.to_pydict())
    except Exception:
        pass
    return out


HOOKS = ("process", "rehydrate", "bind_call_state", "on_cancel", "state_deserialize")


def hook_calls() -> list[tuple[Any, ...]]:
    return [e for e in LOG if e[0] in HOOKS]
