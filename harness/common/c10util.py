"""C10 helpers on top of svcgen (which this module never edits): run a client script with extra instrumentation.

`instrumented(decl, cancel_raises)` temporarily
  * replaces svcgen.IN_SCHEMA / svcgen.make_input, so exchange streams declare a multi-field input schema and `send` ops
    carry arbitrary (schema, values) batches:  ["send", {"cols": [[name, arrow_type_string, nullable, [values…]], …]}];
  * wraps ScriptState.process to log the schema of the input the state received (EVENTS ("insch", fields));
  * optionally makes ScriptState.on_cancel raise after logging (the server must swallow it);
  * logs every HTTP request of the in-process client (EVENTS ("http", path)), every continuation/cursor token the
    server mints (EVENTS ("mint", state.i)) and every write of a socket-family StreamSession to its transport
    (EVENTS ("cwrite",)).
Everything is restored on exit.
"""

from __future__ import annotations

import contextlib
from typing import Any, Iterator

import pyarrow as pa

from harness.common import opsvc, svcgen

TYPES: dict[str, pa.DataType] = {
    "int64": pa.int64(), "int32": pa.int32(), "int16": pa.int16(), "int8": pa.int8(), "uint8": pa.uint8(),
    "double": pa.float64(), "float": pa.float32(), "string": pa.string(), "large_string": pa.large_string(), "bool": pa.bool_(),
    "binary": pa.binary(), "list<item: int64>": pa.list_(pa.int64()), "date32[day]": pa.date32(),
}


def field_of(name: str, ty: str, nullable: bool = True) -> pa.Field:
    return pa.field(name, TYPES[ty], nullable=nullable)


def ty_str(f: pa.Field) -> str:
    """Arrow's rendering of a field's type + nullability, as in str(schema) lines: 'name: <this>'"""
    return str(f.type) + ("" if f.nullable else " not null")


def schema_fields(s: pa.Schema) -> list[list[str]]:
    return [[f.name, ty_str(f)] for f in s]


def mk_schema(fields: list[list[Any]]) -> pa.Schema:
    return pa.schema([field_of(f[0], f[1], f[2] if len(f) > 2 else True) for f in fields])


def mk_batch(cols: list[list[Any]]) -> pa.RecordBatch:
    """cols = [[name, type, nullable, values], …]"""
    arrays = [pa.array(c[3], type=TYPES[c[1]]) for c in cols]
    return pa.RecordBatch.from_arrays(arrays, schema=pa.schema([field_of(c[0], c[1], c[2]) for c in cols]))


class _CountingWriter:
    """Proxy of a transport's writer stream: logs each write() of the client to the wire."""

    def __init__(self, inner: Any) -> None:
        object.__setattr__(self, "_inner", inner)

    def write(self, b: Any) -> Any:
        svcgen.EVENTS.append(("cwrite",))
        return self._inner.write(b)

    def __getattr__(self, name: str) -> Any:
        return getattr(self._inner, name)


@contextlib.contextmanager
def instrumented(decl: pa.Schema | None = None, cancel_raises: bool = False, net: dict[str, Any] | None = None) -> Iterator[None]:
    """`net` = {"retries": n | None, "lost": [k, …], "status": 502}: the HTTP client is given
    HttpRetryConfig(max_retries=n) (None = no retry config) and sits behind a gateway that forwards every POST to the
    server and then LOSES the response of the k-th POST of the run (0-based, counting every attempt, /init included),
    answering with the retryable status instead — the proxy failure after the origin has processed the request."""
    import vgi_rpc.http as http_pkg
    from vgi_rpc.http import _testing
    from vgi_rpc.http.server import _app_stream
    from vgi_rpc.rpc import _client as rpc_client

    saved_schema, saved_make = svcgen.IN_SCHEMA, svcgen.make_input
    saved_process, saved_cancel = svcgen.ScriptState.process, svcgen.ScriptState.on_cancel
    # op-level steps (an ordered list of collector calls per process()) are played by opsvc.OpState
    saved_oschema, saved_oprocess, saved_ocancel = opsvc.IN_SCHEMA, opsvc.OpState.process, opsvc.OpState.on_cancel
    saved_post, saved_mint = _testing._SyncTestClient.post, _app_stream._mint_cursor_token
    saved_init = rpc_client.StreamSession.__init__
    saved_connect = http_pkg.http_connect
    posts = [0]
    lost = set((net or {}).get("lost", []))
    status = (net or {}).get("status", 502)

    def connect(*a: Any, **kw: Any) -> Any:
        if net is not None and net.get("retries") is not None:
            from vgi_rpc.http._retry import HttpRetryConfig

            kw.setdefault("retry", HttpRetryConfig(max_retries=net["retries"], backoff_base=0.0, backoff_max=0.0))
        return saved_connect(*a, **kw)

    def make_input(v: Any, variant: Any = "ok") -> Any:
        if isinstance(variant, dict):
            return svcgen.AnnotatedBatch(batch=mk_batch(variant["cols"]))
        return saved_make(v, variant)

    def process(self: Any, input: Any, out: Any, ctx: Any) -> None:
        svcgen.EVENTS.append(("insch", schema_fields(input.batch.schema)))
        return saved_process(self, input, out, ctx)

    def on_cancel(self: Any, ctx: Any) -> None:
        saved_cancel(self, ctx)
        if cancel_raises:
            raise RuntimeError("on_cancel hook failure")

    def oprocess(self: Any, input: Any, out: Any, ctx: Any) -> None:
        svcgen.EVENTS.append(("insch", schema_fields(input.batch.schema)))
        return saved_oprocess(self, input, out, ctx)

    def ocancel(self: Any, ctx: Any) -> None:
        saved_ocancel(self, ctx)
        if cancel_raises:
            raise RuntimeError("on_cancel hook failure")

    def post(self: Any, url: str, **kw: Any) -> Any:
        svcgen.EVENTS.append(("http", url.rsplit("/", 1)[-1]))
        k = posts[0]
        posts[0] += 1
        resp = saved_post(self, url, **kw)          # the origin handles the request …
        if k in lost:
            svcgen.EVENTS.append(("lost", k))
            return _testing._SyncTestResponse(status, b"bad gateway", headers={})   # … and the gateway loses its answer
        return resp

    def mint(state: Any, *a: Any, **kw: Any) -> Any:
        svcgen.EVENTS.append(("mint", getattr(state, "i", None)))
        return saved_mint(state, *a, **kw)

    def ss_init(self: Any, writer_stream: Any, reader_stream: Any, *a: Any, **kw: Any) -> None:
        saved_init(self, _CountingWriter(writer_stream), reader_stream, *a, **kw)

    try:
        if decl is not None:
            svcgen.IN_SCHEMA = decl
        svcgen.make_input = make_input
        svcgen.ScriptState.process = process  # type: ignore[method-assign]
        svcgen.ScriptState.on_cancel = on_cancel  # type: ignore[method-assign]
        if decl is not None:
            opsvc.IN_SCHEMA = decl
        opsvc.OpState.process = oprocess  # type: ignore[method-assign]
        opsvc.OpState.on_cancel = ocancel  # type: ignore[method-assign]
        _testing._SyncTestClient.post = post  # type: ignore[method-assign]
        _app_stream._mint_cursor_token = mint
        rpc_client.StreamSession.__init__ = ss_init  # type: ignore[method-assign]
        http_pkg.http_connect = connect
        yield
    finally:
        svcgen.IN_SCHEMA, svcgen.make_input = saved_schema, saved_make
        svcgen.ScriptState.process, svcgen.ScriptState.on_cancel = saved_process, saved_cancel  # type: ignore[method-assign]
        opsvc.IN_SCHEMA = saved_oschema
        opsvc.OpState.process, opsvc.OpState.on_cancel = saved_oprocess, saved_ocancel  # type: ignore[method-assign]
        _testing._SyncTestClient.post = saved_post  # type: ignore[method-assign]
        _app_stream._mint_cursor_token = saved_mint
        rpc_client.StreamSession.__init__ = saved_init  # type: ignore[method-assign]
        http_pkg.http_connect = saved_connect


def run_ops(desc: dict[str, Any], method: str, ops: list[list[Any]], cfg: svcgen.Config, decl: pa.Schema | None = None,
            cancel_raises: bool = False, deadline: float = 30.0, net: dict[str, Any] | None = None) -> dict[str, Any]:
    """Open `method` of the generated service over `cfg` and run the client ops on that one session.

    ops: ["next"] | ["iter", n|None] | ["tick"] | ["send", {"cols": …}] | ["close"] | ["cancel"]
    Returns {"open": events, "session": bool, "trace": [events per op], "events": [instrumentation of the open,
    then per op], "hung": bool}.  Event forms are svcgen's.
    """
    import threading

    from vgi_rpc.rpc import RpcError

    svcgen.EVENTS.clear()
    out: dict[str, Any] = {"open": [], "session": False, "trace": [], "events": [], "hung": False}
    cur: list[list[Any]] = []

    def cut() -> list[Any]:
        ev = list(svcgen.EVENTS)
        svcgen.EVENTS.clear()
        return ev

    def body() -> None:
        op_level = any("ops" in st for mm in desc["methods"] for st in mm.get("steps", []))
        P, impl = (opsvc.build if op_level else svcgen.build)(desc)
        conn = svcgen.Conn(P, impl, cfg, lambda m: cur.append(svcgen._ev_log(m)))
        sess: Any = None
        it: Any = None
        try:
            try:
                sess = getattr(conn.proxy, method)(a=1)
                if sess.header is not None:
                    cur.append(["header", sess.header.h])
            except RpcError as e:
                cur.append(svcgen._ev_err(e))
            except Exception as e:  # noqa: BLE001
                cur.append(["raised", type(e).__name__, str(e)[:200]])
            out["open"] = [list(x) for x in cur]
            out["session"] = sess is not None
            out["events"].append(cut())
            if sess is None:
                return
            for op in ops:
                cur.clear()
                kind = op[0]
                try:
                    if kind in ("next", "iter"):
                        n = 1 if kind == "next" else op[1]
                        if it is None:
                            it = iter(sess)
                        got = 0
                        while n is None or got < n:
                            try:
                                ab = next(it)
                            except StopIteration:
                                cur.append(["end"])
                                break
                            cur.append(svcgen._ev_data(ab))
                            got += 1
                    elif kind == "tick":
                        try:
                            cur.append(svcgen._ev_data(sess.tick()))
                        except StopIteration:
                            cur.append(["end"])
                    elif kind == "send":
                        try:
                            cur.append(svcgen._ev_data(sess.exchange(svcgen.AnnotatedBatch(batch=mk_batch(op[1]["cols"])))))
                        except StopIteration:
                            cur.append(["end"])
                    elif kind == "close":
                        sess.close()
                    elif kind == "cancel":
                        sess.cancel()
                    else:
                        raise ValueError(kind)
                except RpcError as e:
                    cur.append(svcgen._ev_err(e))
                except Exception as e:  # noqa: BLE001
                    cur.append(["raised", type(e).__name__, str(e)[:200]])
                out["trace"].append([list(x) for x in cur])
                out["events"].append(cut())
        finally:
            conn.close()
            out["events"].append(cut())   # whatever happened while the connection was torn down

    with instrumented(decl, cancel_raises, net):
        th = threading.Thread(target=body, daemon=True)
        th.start()
        th.join(deadline)
        if th.is_alive():
            out["hung"] = True
    return out
