"""Scripted loopback HTTP origin + observation hooks for the external-fetch property (C31).

The origin is a `ThreadingHTTPServer` on 127.0.0.1 whose behaviour for every request is read from a *script*
(the same JSON the Lean driver interprets, see `lean/VgiVerif/Driver/C31.lean`):

    script = {"paths": [{"path": "/o", "object": hex, "head": [spec…], "get": [spec…], "range": [spec…],
                         "rangeAt": [[start, spec]…]}], "dead": […]}
    spec   = {"fault": "disconnected"|"other"|"timeout"}
           | {"status": n, "location": str|None, "cl": str|None (HEAD only), "ar": str|None, "ce": str|None,
              "cr": str | {"auto": total_text} | None, "body": {"k": "fixed","hex"} | {"k": "object"} |
              {"k": "slice","extra": n,"short": n}, "streamFault": "other"|None,
              # server-only realisation choices (invisible to the model):
              "framing": "cl"|"chunked"|"close", "delay": seconds}

The i-th request of a kind (HEAD / plain GET / range GET) to a path gets `spec[min(i, len-1)]`; `rangeAt` overrides by
range start.  Every response closes its connection, so no pooled connection survives a case.
"""

from __future__ import annotations

import socket
import threading
import time
from http.server import BaseHTTPRequestHandler, ThreadingHTTPServer
from typing import Any

FILLER = 0xEE


def spec_body(pspec: dict[str, Any], spec: dict[str, Any], rng: tuple[int, int] | None) -> bytes:
    """The *effective* body of a response (what a correct HTTP client hands to its caller)."""
    obj = bytes.fromhex(pspec.get("object", ""))
    b = spec.get("body") or {"k": "fixed", "hex": ""}
    if b["k"] == "fixed":
        return bytes.fromhex(b["hex"])
    if b["k"] == "object":
        return obj
    s, e = rng if rng is not None else (0, 0)
    sl = obj[s : e + 1]
    sl = sl[: max(0, len(sl) - b["short"])]
    return sl + bytes([FILLER]) * b["extra"]


def spec_content_range(spec: dict[str, Any], rng: tuple[int, int] | None) -> str | None:
    cr = spec.get("cr")
    if cr is None:
        return None
    if isinstance(cr, dict):
        s, e = rng if rng is not None else (0, 0)
        return f"bytes {s}-{e}/{cr['auto']}"
    return str(cr)


class _Handler(BaseHTTPRequestHandler):
    protocol_version = "HTTP/1.1"
    wbufsize = -1
    disable_nagle_algorithm = True

    def log_message(self, *a: Any) -> None:  # silence
        pass

    def do_HEAD(self) -> None:
        self._serve("HEAD")

    def do_GET(self) -> None:
        self._serve("GET")

    def _serve(self, method: str) -> None:
        origin: Origin = self.server.origin  # type: ignore[attr-defined]
        self.close_connection = True
        rh = self.headers.get("Range")
        rng: tuple[int, int] | None = None
        if rh is not None:
            try:
                a, b = rh.split("=", 1)[1].split("-", 1)
                rng = (int(a), int(b))
            except Exception:
                rng = (0, 0)
        path = self.path.split("?", 1)[0]
        spec, pspec, entry = origin.lookup(method, self.headers.get("Host", ""), self.path, path, rng)
        if spec is None:
            self._send(404, [], b"", False, "cl")
            return
        if "fault" in spec:
            f = spec["fault"]
            if f == "disconnected":
                try:
                    self.connection.shutdown(socket.SHUT_RDWR)
                except OSError:
                    pass
                return
            if f == "timeout":
                time.sleep(float(spec.get("hang", 1.0)))
                return
            self.wfile.write(b"THIS IS NOT HTTP\r\n\r\n")
            self.wfile.flush()
            return
        if spec.get("delay"):
            time.sleep(float(spec["delay"]))
        headers: list[tuple[str, str]] = []
        for key, name in (("location", "Location"), ("ar", "Accept-Ranges"), ("ce", "Content-Encoding")):
            if spec.get(key) is not None:
                headers.append((name, spec[key]))
        cr = spec_content_range(spec, rng)
        if cr is not None:
            headers.append(("Content-Range", cr))
        entry["cr"] = cr
        status = int(spec["status"])
        if method == "HEAD":
            if spec.get("cl") is not None:
                headers.append(("Content-Length", spec["cl"]))
            self._send(status, headers, b"", False, "none")
            return
        body = spec_body(pspec, spec, rng)
        if status in (204, 304) or status < 200:
            self._send(status, headers, b"", False, "none")
            return
        self._send(status, headers, body, spec.get("streamFault") is not None, spec.get("framing", "cl"),
                   )

    def _send(self, status: int, headers: list[tuple[str, str]], body: bytes, truncate: bool, framing: str) -> None:
        out = [f"HTTP/1.1 {status} S\r\n".encode("latin-1")]
        hs = list(headers) + [("Connection", "close")]
        payload = body
        if framing == "cl":
            n = len(body) + (7 if truncate else 0)
            hs.append(("Content-Length", str(n)))
        elif framing == "chunked":
            hs.append(("Transfer-Encoding", "chunked"))
            pieces = []
            step = max(1, len(body) // 3)
            for i in range(0, len(body), step):
                c = body[i : i + step]
                pieces.append(f"{len(c):x}\r\n".encode() + c + b"\r\n")
            if not truncate:
                pieces.append(b"0\r\n\r\n")
            payload = b"".join(pieces)
        elif framing == "close":
            # no framing header: the body ends when the connection closes (truncation is undetectable -> not generated)
            payload = body
        for k, v in hs:
            out.append(f"{k}: {v}\r\n".encode("latin-1"))
        out.append(b"\r\n")
        try:
            self.wfile.write(b"".join(out) + payload)
            self.wfile.flush()
        except OSError:
            pass


class Origin:
    """Loopback origin; `set_script` installs a script and clears the log/counters."""

    def __init__(self) -> None:
        self.lock = threading.Lock()
        self.script: dict[str, Any] = {"paths": []}
        self.prefix = "/"
        self.log: list[dict[str, Any]] = []
        self.counts: dict[tuple[str, str], int] = {}
        self.pending: dict[tuple[str, str, int], bool] = {}
        self.srv = ThreadingHTTPServer(("127.0.0.1", 0), _Handler)
        self.srv.daemon_threads = True
        self.srv.origin = self  # type: ignore[attr-defined]
        self.port = self.srv.server_address[1]
        self.thread = threading.Thread(target=self.srv.serve_forever, kwargs={"poll_interval": 0.05}, daemon=True)
        self.thread.start()
        # a port nothing listens on (connection refused)
        s = socket.socket()
        s.bind(("127.0.0.1", 0))
        self.dead_port = s.getsockname()[1]
        s.close()

    def set_script(self, script: dict[str, Any], prefix: str = "/") -> None:
        with self.lock:
            self.script = script
            self.prefix = prefix
            self.log = []
            self.counts = {}
            self.pending = {}

    def lookup(self, method: str, host: str, target: str, path: str, rng: tuple[int, int] | None) -> tuple[Any, Any, dict[str, Any]]:
        with self.lock:
            entry: dict[str, Any] = {"method": method, "host": host, "target": target, "range": list(rng) if rng else None,
                                     "redirect": False}
            if not path.startswith(self.prefix):
                return None, None, entry  # a straggler of an earlier case (cancelled hedge / chunk): not part of this case
            self.log.append(entry)
            pspec = next((p for p in self.script["paths"] if p["path"] == path), None)
            if pspec is None:
                return None, None, entry
            kind = "head" if method == "HEAD" else ("range" if rng is not None else "get")
            n = self.counts.get((path, kind), 0)
            spec = None
            listed = True
            if kind == "range":
                for st, sp in pspec.get("rangeAt", []):
                    if st == rng[0]:  # type: ignore[index]
                        spec = sp
                        listed = False
                        break
            if spec is None:
                lst = pspec.get(kind) or []
                spec = lst[min(n, len(lst) - 1)] if lst else None
            # aiohttp transparently re-sends an idempotent request once after a disconnect: one *client-level*
            # disconnect is two wire-level ones, and only the second advances the script.
            advance = True
            if spec is not None and spec.get("fault") == "disconnected":
                key = (path, kind, rng[0] if rng else -1)
                if self.pending.get(key):
                    self.pending[key] = False
                    entry["wire_retry"] = True
                else:
                    self.pending[key] = True
                    advance = False
            if advance:
                self.counts[(path, kind)] = n + 1
            if spec is not None and "fault" not in spec:
                entry["redirect"] = int(spec["status"]) in (301, 302, 303, 307, 308)
            entry["spec_status"] = None if spec is None or "fault" in spec else int(spec["status"])
            return spec, pspec, entry

    def snapshot(self) -> list[dict[str, Any]]:
        with self.lock:
            return [dict(e) for e in self.log]

    def close(self) -> None:
        self.srv.shutdown()
        self.srv.server_close()


class ReadMeter:
    """Counts the bytes the fetch code takes out of every aiohttp response stream (observation only)."""

    def __init__(self) -> None:
        import aiohttp
        from aiohttp import streams

        self.lock = threading.Lock()
        self.streams: dict[int, dict[str, Any]] = {}
        self._keep: list[Any] = []
        meter = self
        self._orig_chunk = streams.StreamReader._read_nowait_chunk
        self._orig_start = aiohttp.ClientResponse.start

        def _read_nowait_chunk(sr: Any, n: int) -> bytes:
            data = meter._orig_chunk(sr, n)
            with meter.lock:
                rec = meter.streams.get(id(sr))
                if rec is None:
                    rec = meter.streams[id(sr)] = {"bytes": 0, "method": None, "range": None, "status": None, "max_req": 0}
                    meter._keep.append(sr)
                rec["bytes"] += len(data)
                rec["max_req"] = max(rec["max_req"], n)
            return data

        async def start(resp: Any, connection: Any) -> Any:
            r = await meter._orig_start(resp, connection)
            with meter.lock:
                rec = meter.streams.setdefault(id(resp.content), {"bytes": 0, "max_req": 0})
                meter._keep.append(resp.content)
                rec["method"] = resp.method
                rec["range"] = resp.request_info.headers.get("Range")
                rec["status"] = resp.status
            return r

        streams.StreamReader._read_nowait_chunk = _read_nowait_chunk  # type: ignore[method-assign]
        aiohttp.ClientResponse.start = start  # type: ignore[method-assign]

    def reset(self) -> None:
        with self.lock:
            self.streams = {}
            self._keep = []

    def records(self) -> list[dict[str, Any]]:
        with self.lock:
            return [dict(v) for v in self.streams.values()]

    def uninstall(self) -> None:
        import aiohttp
        from aiohttp import streams

        streams.StreamReader._read_nowait_chunk = self._orig_chunk  # type: ignore[method-assign]
        aiohttp.ClientResponse.start = self._orig_start  # type: ignore[method-assign]


class InflateMeter:
    """Counts the decoded bytes the inflaters hand to `vgi_rpc._codec` during a fetch, at the library boundary
    (observation only): one record per decompressor object — bytes produced, number of calls, largest single answer.

    `_codec` uses the module-global `zlib` (``zlib.decompressobj``) and looks `zstandard.ZstdDecompressor` up on the
    `zstandard` module inside its functions; both are wrapped by thin forwarding proxies while installed."""

    def __init__(self) -> None:
        import zlib as real_zlib

        import zstandard

        import vgi_rpc._codec as codec

        self.records: list[dict[str, Any]] = []
        self._codec = codec
        self._zstandard = zstandard
        self._orig_zlib = codec.zlib
        self._orig_zd = zstandard.ZstdDecompressor
        meter = self

        def note(rec: dict[str, Any], out: Any) -> Any:
            n = len(out) if out is not None else 0
            rec["bytes"] += n
            rec["calls"] += 1
            rec["largest"] = max(rec["largest"], n)
            return out

        class _Obj:
            def __init__(self, inner: Any, rec: dict[str, Any]) -> None:
                self._i = inner
                self._r = rec

            def decompress(self, *a: Any, **k: Any) -> bytes:
                return note(self._r, self._i.decompress(*a, **k))

            def flush(self, *a: Any, **k: Any) -> bytes:
                return note(self._r, self._i.flush(*a, **k))

            def __getattr__(self, name: str) -> Any:
                return getattr(self._i, name)

        class _Zlib:
            def decompressobj(self, *a: Any, **k: Any) -> Any:
                rec = {"codec": "gzip", "bytes": 0, "calls": 0, "largest": 0}
                meter.records.append(rec)
                return _Obj(real_zlib.decompressobj(*a, **k), rec)

            def __getattr__(self, name: str) -> Any:
                return getattr(real_zlib, name)

        class _Reader:
            def __init__(self, inner: Any, rec: dict[str, Any]) -> None:
                self._i = inner
                self._r = rec

            def __enter__(self) -> "_Reader":
                self._i.__enter__()
                return self

            def __exit__(self, *a: Any) -> Any:
                return self._i.__exit__(*a)

            def read(self, *a: Any, **k: Any) -> bytes:
                return note(self._r, self._i.read(*a, **k))

            def __getattr__(self, name: str) -> Any:
                return getattr(self._i, name)

        orig_zd = self._orig_zd

        class _ZD:
            def __init__(self, *a: Any, **k: Any) -> None:
                self._i = orig_zd(*a, **k)
                self._r = {"codec": "zstd", "bytes": 0, "calls": 0, "largest": 0}
                meter.records.append(self._r)

            def decompress(self, *a: Any, **k: Any) -> bytes:
                return note(self._r, self._i.decompress(*a, **k))

            def stream_reader(self, *a: Any, **k: Any) -> Any:
                return _Reader(self._i.stream_reader(*a, **k), self._r)

            def __getattr__(self, name: str) -> Any:
                return getattr(self._i, name)

        codec.zlib = _Zlib()  # type: ignore[assignment]
        zstandard.ZstdDecompressor = _ZD  # type: ignore[misc,assignment]

    def reset(self) -> None:
        self.records.clear()

    def snapshot(self) -> list[dict[str, Any]]:
        return [dict(r) for r in self.records]

    def uninstall(self) -> None:
        self._codec.zlib = self._orig_zlib  # type: ignore[assignment]
        self._zstandard.ZstdDecompressor = self._orig_zd  # type: ignore[misc]
