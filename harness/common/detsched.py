"""Deterministic scheduler for REAL Python code, without source hooks (DESIGN §2.4).  Usage: DETSCHED.md.

The modules under test reach ``threading`` / ``time`` through module globals; :meth:`DetSched.patch` substitutes
``ds.threading`` / ``ds.time`` (fakes bound to this scheduler) in the module object while ``with ds:`` is active.
Threads are real OS threads run ONE AT A TIME (baton passing): every operation on a fake primitive is a
*scheduling point* — the thread announces its pending operation (and whether it is enabled: a blocked acquire is
not), the scheduler picks who runs next, and the chosen thread performs its operation atomically and continues to
its next point.  Finer preemption inside chosen functions comes from ``sys.monitoring`` LINE events restricted to
the given code objects.  A *schedule* is the list of thread ids chosen at the points where more than one thread
was enabled; it is the replay artefact.  Every run terminates: ``ok`` | ``deadlock`` (all live threads blocked) |
``step-limit`` | ``hang`` (wall clock; a thread blocked in something that is not faked) | and ``diverged`` is
flagged when a replayed schedule names a thread that is not enabled.

Exploration (:meth:`DetSched.explore`): iterative context bounding (all schedules with 0, 1, … ``bound``
preemptions, each exactly once, capped by count), then seeded PCT-style / random-walk schedules.
"""

from __future__ import annotations

import heapq
import os
import random as _random
import sys
import threading as _rt
import time as _rtime
import types
from dataclasses import dataclass, field
from typing import Any, Callable, Iterable, Iterator

__all__ = ["DetSched", "Run", "MAIN", "CLOCK", "SchedulerError"]

MAIN = -1  # "thread id" of code that runs outside managed threads (setup / teardown in the harness thread)
CLOCK = -2  # pseudo thread in schedules: let logical time pass to the earliest pending deadline (time_races=True)

_NEW, _LIVE, _DONE = 0, 1, 2


class _Abort(BaseException):
    """Unwinds a managed thread when its run is over (deadlock / step limit / end of run with daemons left)."""


class SchedulerError(RuntimeError):
    """Misuse: e.g. an unmanaged thread would have to block on a fake primitive."""


@dataclass
class Run:
    status: str  # ok | deadlock | step-limit | hang
    trace: list[list[Any]]  # events [kind, tid, *args] in execution order
    schedule: list[int]  # thread ids chosen at the decision points with >= 2 enabled threads (replay artefact)
    steps: int = 0
    preemptions: int = 0
    clock: float = 0.0
    errors: dict[int, BaseException] = field(default_factory=dict)  # exceptions that escaped a thread's function
    threads: dict[int, str] = field(default_factory=dict)  # tid -> name
    blocked: dict[int, str] = field(default_factory=dict)  # at the end: tid -> pending operation (deadlock report)
    diverged: bool = False  # replay: the given schedule named a thread that was not enabled
    leaked: list[int] = field(default_factory=list)  # threads that could not be stopped (status = hang)
    value: Any = None  # whatever setup(ds) returned (e.g. the object under test, for a final inspection)
    kind: str = ""  # dfs | pct | walk | replay

    @property
    def ok(self) -> bool:
        return self.status == "ok" and not self.errors and not self.diverged


class _T:
    __slots__ = ("tid", "name", "fn", "args", "kwargs", "daemon", "go", "os", "state", "ready", "deadline", "what",
                 "exited", "abort", "fake", "exc")

    def __init__(self, tid: int, name: str, fn: Callable[..., Any], args: tuple, kwargs: dict, daemon: bool) -> None:
        self.tid, self.name, self.fn, self.args, self.kwargs, self.daemon = tid, name, fn, args, kwargs, daemon
        self.go = _rt.Lock()
        self.go.acquire()
        self.os: _rt.Thread | None = None
        self.state = _NEW
        self.ready: Callable[[], bool] | None = None
        self.deadline: float | None = None
        self.what = "start"
        self.exited = _rt.Event()
        self.abort = False
        self.fake: Any = None
        self.exc: BaseException | None = None


# ------------------------------------------------------------------------------------------------ choosers


class _PrefixChooser:
    """Follow a prefix of choices, then the non-preemptive default (continue the current thread, else lowest id)."""

    def __init__(self, prefix: list[int]) -> None:
        self.prefix = prefix
        self.log: list[tuple[tuple[int, ...], int | None, int]] = []
        self.diverged = False

    def choose(self, enabled: list[int], cur: int | None) -> int:
        i = len(self.log)
        default = cur if cur is not None else enabled[0]
        if i < len(self.prefix):
            c = self.prefix[i]
            if c not in enabled:
                self.diverged = True
                c = default
        else:
            c = default
        self.log.append((tuple(enabled), cur, c))
        return c


class _PCTChooser:
    """PCT (Burckhardt et al.): random thread priorities, `depth-1` priority-lowering points at random steps."""

    def __init__(self, rng: _random.Random, depth: int, est_len: int) -> None:
        self.rng = rng
        self.prio: dict[int, float] = {}
        n = max(est_len, 1)
        self.change = {rng.randrange(n): k for k in range(max(depth - 1, 0))}
        self.depth = depth
        self.log: list[tuple[tuple[int, ...], int | None, int]] = []
        self.diverged = False

    def choose(self, enabled: list[int], cur: int | None) -> int:
        for t in enabled:
            if t not in self.prio:
                self.prio[t] = self.depth + self.rng.random()
        k = len(self.log)
        if k in self.change and cur is not None:
            self.prio[cur] = self.change[k] / (self.depth + 1.0)
        c = max(enabled, key=lambda t: self.prio[t])
        self.log.append((tuple(enabled), cur, c))
        return c


class _WalkChooser:
    """Random walk: keep the current thread with probability `stay`, else a uniformly random enabled thread."""

    def __init__(self, rng: _random.Random, stay: float) -> None:
        self.rng, self.stay = rng, stay
        self.log: list[tuple[tuple[int, ...], int | None, int]] = []
        self.diverged = False

    def choose(self, enabled: list[int], cur: int | None) -> int:
        if cur is not None and self.rng.random() < self.stay:
            c = cur
        else:
            c = self.rng.choice(enabled)
        self.log.append((tuple(enabled), cur, c))
        return c


# ------------------------------------------------------------------------------------------------ one execution


class _Exec:
    def __init__(self, ds: "DetSched", chooser: Any) -> None:
        self.ds = ds
        self.chooser = chooser
        self.threads: list[_T] = []
        self.by_ident: dict[int, _T] = {}
        self.trace: list[list[Any]] = []
        self.clock = float(ds.clock0)
        self.steps = 0
        self.status: str | None = None
        self.aborting = False
        self.done = _rt.Event()
        self.finisher: _T | None = None
        self.errors: dict[int, BaseException] = {}
        self.names: dict[str, int] = {}
        self.started = False
        self.blocked: dict[int, str] = {}
        self.leaked: list[int] = []

    # -- registration
    def add_thread(self, fn: Callable[..., Any], args: tuple, kwargs: dict, name: str | None, daemon: bool) -> _T:
        tid = len(self.threads)
        t = _T(tid, name or f"T{tid}", fn, args, kwargs, daemon)
        self.threads.append(t)
        t.os = _rt.Thread(target=self._bootstrap, args=(t,), name=f"detsched-{t.name}", daemon=True)
        t.os.start()
        return t

    def me(self) -> _T | None:
        return self.by_ident.get(_rt.get_ident())

    def fresh_name(self, kind: str) -> str:
        n = self.names.get(kind, 0)
        self.names[kind] = n + 1
        return f"{kind}{n}"

    # -- thread body
    def _bootstrap(self, t: _T) -> None:
        self.by_ident[_rt.get_ident()] = t
        t.go.acquire()  # parked until first scheduled (or aborted)
        try:
            if not (t.abort or self.aborting):
                t.state = _LIVE
                try:
                    t.fn(*t.args, **t.kwargs)
                except _Abort:
                    pass
                except BaseException as e:  # noqa: BLE001 - recorded, the run goes on like a real thread's death
                    t.exc = e
                    self.errors[t.tid] = e
                    self.trace.append(["exc", t.tid, type(e).__name__])
        finally:
            t.state = _DONE
            t.ready, t.deadline = None, None
            if not (self.aborting or t.abort):
                try:
                    self._dispatch(t)
                except _Abort:
                    pass
            t.exited.set()

    # -- scheduling
    def _is_enabled(self, t: _T) -> bool:
        if t.state == _DONE:
            return False
        if t.ready is None:
            return True
        if t.deadline is not None and self.clock >= t.deadline:
            return True
        return bool(t.ready())

    def _finish(self, status: str, me: _T | None) -> None:
        if self.status is None:
            self.status = status
            self.blocked = {t.tid: t.what for t in self.threads if t.state != _DONE and not t.daemon}
        self.aborting = True
        self.finisher = me
        self.done.set()
        if me is not None and me.state != _DONE:
            raise _Abort

    def _dispatch(self, me: _T | None) -> None:
        """Called by the thread holding the baton (or by the harness thread at the start): choose who runs next."""
        while True:
            if self.aborting:
                raise _Abort
            live = [t for t in self.threads if t.state != _DONE]
            if not any(not t.daemon for t in live):
                self._finish("ok", me)
                return
            self.steps += 1
            if self.steps > self.ds.step_limit:
                self._finish("step-limit", me)
                return
            enabled = [t.tid for t in live if self._is_enabled(t)]
            future = [t.deadline for t in live if t.deadline is not None and t.ready is not None and t.deadline > self.clock
                      and not self._is_enabled(t)]
            if not enabled:
                if future:  # nothing can run: logical time passes to the earliest deadline
                    self.clock = min(future)
                    self.trace.append(["tick-auto", CLOCK, self.clock])
                    continue
                self._finish("deadlock", me)
                return
            options = list(enabled)
            if future and self.ds.time_races:
                options.append(CLOCK)
            cur = me.tid if (me is not None and me.tid in enabled) else None
            choice = options[0] if len(options) == 1 else self.chooser.choose(options, cur)
            if choice == CLOCK:
                self.clock = min(future)
                self.trace.append(["tick-auto", CLOCK, self.clock])
                continue
            nxt = self.threads[choice]
            if nxt is me:
                return
            nxt.go.release()
            if me is not None and me.state != _DONE:
                me.go.acquire()  # parked
                if self.aborting or me.abort:
                    raise _Abort
            return

    def point(self, t: _T, ready: Callable[[], bool] | None, deadline: float | None, what: str) -> bool:
        if self.aborting or t.abort:
            raise _Abort
        t.ready, t.deadline, t.what = ready, deadline, what
        self._dispatch(t)
        ok = True if ready is None else bool(ready())
        t.ready, t.deadline = None, None
        return ok

    # -- driving a run from the harness thread
    def go(self) -> None:
        self.started = True
        try:
            self._dispatch(None)
        except _Abort:
            pass
        hung = not self.done.wait(self.ds.wall_limit)
        if hung:
            self.status = self.status or "hang"
            self.blocked = {t.tid: t.what for t in self.threads if t.state != _DONE}
            self.aborting = True
        self.teardown()

    def teardown(self) -> list[int]:
        self.aborting = True
        order = ([self.finisher] if self.finisher is not None else []) + [t for t in self.threads if t is not self.finisher]
        leaked = []
        for t in order:
            if t.exited.is_set():
                continue
            if t is not self.finisher:
                t.abort = True
                try:
                    t.go.release()
                except RuntimeError:
                    pass  # it was not parked (running into a real blocking call): it will see `abort` at its next point
            if not t.exited.wait(2.0 if self.status != "hang" else 0.2):
                leaked.append(t.tid)
        for t in self.threads:
            if t.os is not None and t.tid not in leaked:
                t.os.join(1.0)
        self.leaked = leaked
        if leaked and self.status in (None, "ok"):
            self.status = "hang"
        return leaked


# ------------------------------------------------------------------------------------------------ the scheduler


class DetSched:
    """See the module docstring and DETSCHED.md."""

    def __init__(self, *, step_limit: int = 20000, wall_limit: float = 20.0, time_races: bool = False,
                 clock0: float = 0.0, trace_lines: bool = False, trace_time: bool = True, pin_cpu: bool = True,
                 creation_points: bool = False) -> None:
        # opt-in: CONSTRUCTING a fake primitive in a managed thread is a scheduling point placed after the object is
        # built and before the caller can store it (exposes lazily created locks: `if x is None: x = Lock()`);
        # event ["new", tid, name]
        self.creation_points = creation_points
        self.pin_cpu = pin_cpu  # one thread runs at a time: keeping all of them on ONE cpu makes hand-offs ~10x cheaper
        self._affinity: Any = None
        self.step_limit = step_limit
        self.wall_limit = wall_limit
        self.time_races = time_races
        self.clock0 = clock0
        self.trace_lines = trace_lines
        self.trace_time = trace_time
        self._exec: _Exec | None = None
        self._patches: list[tuple[Any, str, Any]] = []
        self._saved: list[tuple[Any, str, Any, bool]] = []
        self._codes: list[types.CodeType] = []
        self._tool: int | None = None
        self._active = False
        self.threading = FakeThreading(self)
        self.time = FakeTime(self)
        self.stats: dict[str, Any] = {}

    # -- configuration ---------------------------------------------------------------------------------------
    def patch(self, module: Any, *names: str, **objs: Any) -> "DetSched":
        """While `with ds:` is active, `module.<name>` is replaced: "threading" -> ds.threading, "time" -> ds.time,
        keyword arguments name -> any object (e.g. Lock=ds.threading.Lock for `from threading import Lock`)."""
        for n in names:
            if n not in ("threading", "time"):
                raise ValueError(f"no default fake for {n!r}; pass it as a keyword argument")
            self._patches.append((module, n, self.threading if n == "threading" else self.time))
        for n, o in objs.items():
            self._patches.append((module, n, o))
        return self

    def preempt_lines(self, *targets: Any) -> "DetSched":
        """Make every source line of the given functions / methods / classes / code objects a scheduling point."""
        for x in targets:
            self._codes.extend(_code_objects(x))
        return self

    def __enter__(self) -> "DetSched":
        if self._active:
            raise SchedulerError("already active")
        for mod, name, obj in self._patches:
            had = hasattr(mod, name)
            self._saved.append((mod, name, getattr(mod, name, None), had))
            setattr(mod, name, obj)
        if self._codes:
            mon = sys.monitoring
            for tool in (4, 3, 2, 1):
                try:
                    mon.use_tool_id(tool, "detsched")
                    self._tool = tool
                    break
                except ValueError:
                    continue
            if self._tool is None:
                raise SchedulerError("no free sys.monitoring tool id")
            mon.register_callback(self._tool, mon.events.LINE, self._on_line)
            for c in self._codes:
                mon.set_local_events(self._tool, c, mon.events.LINE)
        if self.pin_cpu and hasattr(os, "sched_setaffinity"):
            try:
                aff = os.sched_getaffinity(0)  # of the calling thread; threads started from here inherit it
                if len(aff) > 1:
                    os.sched_setaffinity(0, {_idlest_cpu(aff)})
                    self._affinity = aff
            except OSError:
                self._affinity = None
        self._active = True
        return self

    def __exit__(self, *a: Any) -> None:
        self._active = False
        if self._affinity is not None:
            try:
                os.sched_setaffinity(0, self._affinity)
            except OSError:
                pass
            self._affinity = None
        if self._tool is not None:
            mon = sys.monitoring
            for c in self._codes:
                mon.set_local_events(self._tool, c, 0)
            mon.register_callback(self._tool, mon.events.LINE, None)
            mon.free_tool_id(self._tool)
            self._tool = None
        for mod, name, old, had in reversed(self._saved):
            if had:
                setattr(mod, name, old)
            else:
                delattr(mod, name)
        self._saved.clear()

    def _on_line(self, code: types.CodeType, line: int) -> Any:
        ex = self._exec
        if ex is None:
            return None
        t = ex.by_ident.get(_rt.get_ident())
        if t is None or t.state != _LIVE:
            return None
        if self.trace_lines:
            ex.trace.append(["line", t.tid, code.co_name, line])
        ex.point(t, None, None, f"line {code.co_name}:{line}")
        return None

    # -- API for harness threads and fakes -------------------------------------------------------------------
    def spawn(self, fn: Callable[..., Any], *args: Any, name: str | None = None, daemon: bool = False, **kwargs: Any) -> int:
        """Register a managed thread (inside `setup`, or from a managed thread).  Returns its thread id."""
        ex = self._need_exec()
        t = ex.add_thread(fn, args, kwargs, name, daemon)
        t.fake = self.threading._wrap(t)
        return t.tid

    def tid(self) -> int:
        ex = self._exec
        t = ex.me() if ex is not None else None
        return t.tid if t is not None else MAIN

    def now(self) -> float:
        """The logical clock (no scheduling point, no trace event)."""
        ex = self._exec
        return ex.clock if ex is not None else float(self.clock0)

    def emit(self, kind: str, *args: Any) -> None:
        """Append the event [kind, tid, *args] to the current run's trace (no scheduling point)."""
        ex = self._exec
        if ex is not None:
            ex.trace.append([kind, self.tid(), *args])

    def point(self, ready: Callable[[], bool] | None = None, deadline: float | None = None, what: str = "yield") -> bool:
        """Scheduling point of the calling thread.  `ready` (optional) says when the pending operation is enabled;
        `deadline` (logical time) lets a blocked operation time out.  Returns True when `ready` held on resumption
        (always for an unconditional point), False on timeout.  Building block for new fakes (file locks, sockets…)."""
        ex = self._exec
        t = ex.me() if ex is not None else None
        if ex is None or t is None or not ex.started:
            if ready is not None and not ready():
                raise SchedulerError(f"unmanaged thread would block on: {what}")
            return True
        return ex.point(t, ready, deadline, what)

    def checkpoint(self, kind: str, *args: Any) -> None:
        """Scheduling point followed by an event."""
        self.point(what=kind)
        self.emit(kind, *args)

    def advance(self, d: float) -> None:
        """Move the logical clock by d (a scheduling point; event ["tick", tid, d])."""
        self.point(what="tick")
        ex = self._exec
        if ex is not None:
            ex.clock += d
            ex.trace.append(["tick", self.tid(), d])

    def _need_exec(self) -> _Exec:
        if self._exec is None:
            raise SchedulerError("no run in progress (spawn is only valid inside setup or a managed thread)")
        return self._exec

    def _name(self, kind: str) -> str:
        ex = self._exec
        return ex.fresh_name(kind) if ex is not None else f"{kind}?"

    # -- running ---------------------------------------------------------------------------------------------
    def _run(self, setup: Callable[["DetSched"], Any], chooser: Any, kind: str) -> Run:
        if not self._active:
            raise SchedulerError("use `with ds:` around runs")
        ex = _Exec(self, chooser)
        self._exec = ex
        value = None
        try:
            try:
                value = setup(self)
            except BaseException:
                ex.teardown()
                raise
            ex.go()
        finally:
            self._exec = None
        log = chooser.log
        pre = sum(1 for (_en, cur, ch) in log if cur is not None and ch != cur)
        return Run(status=ex.status or "ok", trace=ex.trace, schedule=[c for (_e, _c, c) in log], steps=ex.steps,
                   preemptions=pre, clock=ex.clock, errors=dict(ex.errors), threads={t.tid: t.name for t in ex.threads},
                   blocked=ex.blocked if ex.status != "ok" else {},
                   diverged=chooser.diverged, leaked=ex.leaked, value=value, kind=kind)

    def replay(self, setup: Callable[["DetSched"], Any], schedule: Iterable[int]) -> Run:
        """Re-run one schedule exactly (then the non-preemptive default if the run is longer than the schedule)."""
        return self._run(setup, _PrefixChooser(list(schedule)), "replay")

    def explore(self, setup: Callable[["DetSched"], Any], *, dfs: int = 1000, bound: int = 2, random: int = 0,
                pct_depth: int = 3, seed: Any = 0) -> Iterator[Run]:
        """Yield one Run per explored schedule.

        Phase 1 (`dfs` runs at most): iterative context bounding — every schedule with at most `bound`
        preemptions, fewest preemptions first, each exactly once.  `ds.stats["exhaustive"]` tells whether the
        bounded space was exhausted.  Phase 2 (`random` runs): alternating PCT(depth=`pct_depth`) and random walks,
        seeded by (`seed`, index)."""
        heap: list[tuple[int, int, list[int]]] = [(0, 0, [])]
        seq = 1
        count = 0
        truncated = False
        lens: list[int] = []
        cap = max(20000, 8 * dfs)
        while heap and count < dfs:
            _cost, _s, prefix = heapq.heappop(heap)
            ch = _PrefixChooser(prefix)
            run = self._run(setup, ch, "dfs")
            count += 1
            log = ch.log
            lens.append(len(log))
            cost = 0
            costs = []
            for (_en, cur, c) in log:
                costs.append(cost)
                if cur is not None and c != cur:
                    cost += 1
            for i in range(len(prefix), len(log)):
                en, cur, c = log[i]
                for alt in en:
                    if alt == c:
                        continue
                    k = costs[i] + (1 if (cur is not None and alt != cur) else 0)
                    if k > bound:
                        continue
                    if len(heap) >= cap:
                        truncated = True
                        continue
                    heapq.heappush(heap, (k, seq, [x[2] for x in log[:i]] + [alt]))
                    seq += 1
            yield run
        self.stats = {"dfs_runs": count, "exhaustive": (not heap) and not truncated, "frontier_left": len(heap),
                      "bound": bound, "max_decisions": max(lens, default=0)}
        est = max(lens, default=16)
        for k in range(random):
            rng = _random.Random(f"{seed}:{k}")
            if k % 2 == 0:
                chooser: Any = _PCTChooser(rng, pct_depth, est)
                kind = "pct"
            else:
                chooser = _WalkChooser(rng, stay=rng.choice([0.5, 0.7, 0.9]))
                kind = "walk"
            run = self._run(setup, chooser, kind)
            est = max(est, len(chooser.log))
            yield run
        self.stats["random_runs"] = random


def _idlest_cpu(aff: Any) -> int:
    """The allowed cpu that was most idle over the last ~30 ms (falls back to a pid-based choice)."""
    def snap() -> dict[int, int]:
        out = {}
        with open("/proc/stat") as f:
            for line in f:
                if line.startswith("cpu") and line[3].isdigit():
                    p = line.split()
                    out[int(p[0][3:])] = int(p[4]) + int(p[5])  # idle + iowait
        return out

    cpus = sorted(aff)
    try:
        a = snap()
        _rtime.sleep(0.03)
        b = snap()
        return max(cpus, key=lambda c: (b.get(c, 0) - a.get(c, 0), -c))
    except (OSError, ValueError, IndexError):
        return cpus[os.getpid() % len(cpus)]


def _code_objects(x: Any) -> list[types.CodeType]:
    if isinstance(x, types.CodeType):
        return [x]
    if isinstance(x, (staticmethod, classmethod)):
        return _code_objects(x.__func__)
    if isinstance(x, property):
        return [c for f in (x.fget, x.fset, x.fdel) if f is not None for c in _code_objects(f)]
    if isinstance(x, types.MethodType):
        return _code_objects(x.__func__)
    if isinstance(x, types.FunctionType):
        return [x.__code__]
    if isinstance(x, type):
        out: list[types.CodeType] = []
        for v in vars(x).values():
            if isinstance(v, (types.FunctionType, staticmethod, classmethod, property)):
                out.extend(_code_objects(v))
        return out
    if isinstance(x, types.ModuleType):
        out = []
        for v in vars(x).values():
            if getattr(v, "__module__", None) == x.__name__ and isinstance(v, (types.FunctionType, type)):
                out.extend(_code_objects(v))
        return out
    w = getattr(x, "__wrapped__", None)
    if w is not None:
        return _code_objects(w)
    raise TypeError(f"cannot find code objects of {x!r}")


# ------------------------------------------------------------------------------------------------ fake threading


class FakeLock:
    """threading.Lock: `acquire` is enabled only while the lock is free; events ["acq"|"rel", tid, name]."""

    def __init__(self, ds: DetSched, name: str | None = None) -> None:
        self._ds = ds
        self.name = name or ds._name("Lock")
        self.owner: int | None = None

    def acquire(self, blocking: bool = True, timeout: float = -1) -> bool:
        ds = self._ds
        if not blocking:
            ds.point(what=f"try-acquire {self.name}")
            if self.owner is not None:
                ds.emit("tryfail", self.name)
                return False
        else:
            deadline = None if (timeout is None or timeout < 0) else ds.now() + timeout
            if not ds.point(lambda: self.owner is None, deadline, f"acquire {self.name}"):
                ds.emit("timeout", self.name)
                return False
        self.owner = ds.tid()
        ds.emit("acq", self.name)
        return True

    def release(self) -> None:
        if self.owner is None:
            raise RuntimeError("release unlocked lock")
        self._ds.point(what=f"release {self.name}")
        self.owner = None
        self._ds.emit("rel", self.name)

    def locked(self) -> bool:
        return self.owner is not None

    def __enter__(self) -> bool:
        return self.acquire()

    def __exit__(self, *a: Any) -> None:
        self.release()

    # Condition support
    def _is_owned(self) -> bool:
        return self.owner is not None

    def _release_save(self) -> Any:
        self.release()
        return None

    def _acquire_restore(self, _s: Any) -> None:
        self.acquire()


class FakeRLock:
    """threading.RLock: owner + recursion count; events ["acq"|"rel", tid, name, count-after]."""

    def __init__(self, ds: DetSched, name: str | None = None) -> None:
        self._ds = ds
        self.name = name or ds._name("RLock")
        self.owner: int | None = None
        self.count = 0

    def acquire(self, blocking: bool = True, timeout: float = -1) -> bool:
        ds = self._ds
        me = ds.tid()
        free = lambda: self.owner is None or self.owner == me  # noqa: E731
        if not blocking:
            ds.point(what=f"try-acquire {self.name}")
            if not free():
                ds.emit("tryfail", self.name)
                return False
        else:
            deadline = None if (timeout is None or timeout < 0) else ds.now() + timeout
            if not ds.point(free, deadline, f"acquire {self.name}"):
                ds.emit("timeout", self.name)
                return False
        self.owner = me
        self.count += 1
        ds.emit("acq", self.name, self.count)
        return True

    def release(self) -> None:
        if self.owner != self._ds.tid() or self.count == 0:
            raise RuntimeError("cannot release un-acquired lock")
        self._ds.point(what=f"release {self.name}")
        self.count -= 1
        if self.count == 0:
            self.owner = None
        self._ds.emit("rel", self.name, self.count)

    def __enter__(self) -> bool:
        return self.acquire()

    def __exit__(self, *a: Any) -> None:
        self.release()

    def _is_owned(self) -> bool:
        return self.owner == self._ds.tid()

    def _release_save(self) -> Any:
        self._ds.point(what=f"release {self.name}")
        saved = self.count
        self.count = 0
        self.owner = None
        self._ds.emit("rel", self.name, 0)
        return saved

    def _acquire_restore(self, saved: Any) -> None:
        me = self._ds.tid()
        self._ds.point(lambda: self.owner is None, None, f"re-acquire {self.name}")
        self.owner = me
        self.count = saved
        self._ds.emit("acq", self.name, self.count)


class FakeSemaphore:
    """threading.Semaphore / BoundedSemaphore; events ["sem-acq"|"sem-rel", tid, name, value-after]."""

    def __init__(self, ds: DetSched, value: int = 1, bounded: bool = False, name: str | None = None) -> None:
        if value < 0:
            raise ValueError("semaphore initial value must be >= 0")
        self._ds = ds
        self.name = name or ds._name("Sem")
        self.value = value
        self._initial = value
        self._bounded = bounded

    def acquire(self, blocking: bool = True, timeout: float | None = None) -> bool:
        ds = self._ds
        if not blocking:
            ds.point(what=f"try-acquire {self.name}")
            if self.value <= 0:
                ds.emit("tryfail", self.name)
                return False
        else:
            deadline = None if timeout is None else ds.now() + timeout
            if not ds.point(lambda: self.value > 0, deadline, f"acquire {self.name}"):
                ds.emit("timeout", self.name)
                return False
        self.value -= 1
        ds.emit("sem-acq", self.name, self.value)
        return True

    def release(self, n: int = 1) -> None:
        self._ds.point(what=f"release {self.name}")
        if self._bounded and self.value + n > self._initial:
            raise ValueError("Semaphore released too many times")
        self.value += n
        self._ds.emit("sem-rel", self.name, self.value)

    def __enter__(self) -> bool:
        return self.acquire()

    def __exit__(self, *a: Any) -> None:
        self.release()


class FakeEvent:
    """threading.Event; events ["set"|"clear", tid, name]."""

    def __init__(self, ds: DetSched, name: str | None = None) -> None:
        self._ds = ds
        self.name = name or ds._name("Event")
        self._flag = False

    def is_set(self) -> bool:
        return self._flag

    isSet = is_set

    def set(self) -> None:
        self._ds.point(what=f"set {self.name}")
        self._flag = True
        self._ds.emit("set", self.name)

    def clear(self) -> None:
        self._ds.point(what=f"clear {self.name}")
        self._flag = False
        self._ds.emit("clear", self.name)

    def wait(self, timeout: float | None = None) -> bool:
        deadline = None if timeout is None else self._ds.now() + timeout
        self._ds.point(lambda: self._flag, deadline, f"wait {self.name}")
        return self._flag


class FakeCondition:
    """threading.Condition over a fake Lock / RLock."""

    def __init__(self, ds: DetSched, lock: Any = None, name: str | None = None) -> None:
        self._ds = ds
        self.name = name or ds._name("Cond")
        self._lock = lock if lock is not None else FakeRLock(ds)
        self._waiters: list[list[bool]] = []
        self.acquire = self._lock.acquire
        self.release = self._lock.release

    def __enter__(self) -> Any:
        return self._lock.__enter__()

    def __exit__(self, *a: Any) -> None:
        self._lock.__exit__(*a)

    def wait(self, timeout: float | None = None) -> bool:
        if not self._lock._is_owned():
            raise RuntimeError("cannot wait on un-acquired lock")
        w = [False]
        self._waiters.append(w)
        saved = self._lock._release_save()
        deadline = None if timeout is None else self._ds.now() + timeout
        try:
            ok = self._ds.point(lambda: w[0], deadline, f"wait {self.name}")
        finally:
            if w in self._waiters:
                self._waiters.remove(w)
        self._lock._acquire_restore(saved)
        return ok

    def wait_for(self, predicate: Callable[[], Any], timeout: float | None = None) -> Any:
        end = None if timeout is None else self._ds.now() + timeout
        result = predicate()
        while not result:
            if end is not None:
                left = end - self._ds.now()
                if left <= 0:
                    break
                self.wait(left)
            else:
                self.wait(None)
            result = predicate()
        return result

    def notify(self, n: int = 1) -> None:
        if not self._lock._is_owned():
            raise RuntimeError("cannot notify on un-acquired lock")
        self._ds.point(what=f"notify {self.name}")
        for w in self._waiters[:n]:
            w[0] = True
        del self._waiters[:n]
        self._ds.emit("notify", self.name, n)

    def notify_all(self) -> None:
        self.notify(len(self._waiters))

    notifyAll = notify_all


class FakeThread:
    """threading.Thread run under the scheduler (subclassable; `run` is called in the managed thread).
    Events: ["spawn", parent tid, child tid, name]."""

    _ds: DetSched  # bound subclass attribute (see FakeThreading)

    def __init__(self, group: Any = None, target: Callable[..., Any] | None = None, name: str | None = None,
                 args: Iterable[Any] = (), kwargs: dict[str, Any] | None = None, *, daemon: bool | None = None) -> None:
        self._target = target
        self._args = tuple(args)
        self._kwargs = dict(kwargs or {})
        self._name = name
        self.daemon = bool(daemon) if daemon is not None else False
        self._t: _T | None = None

    def run(self) -> None:
        if self._target is not None:
            self._target(*self._args, **self._kwargs)

    def start(self) -> None:
        if self._t is not None:
            raise RuntimeError("threads can only be started once")
        ds = self._ds
        ds.point(what="thread start")
        ex = ds._need_exec()
        self._t = ex.add_thread(self.run, (), {}, self._name, self.daemon)
        self._t.fake = self
        ds.emit("spawn", self._t.tid, self._t.name)

    def join(self, timeout: float | None = None) -> None:
        if self._t is None:
            raise RuntimeError("cannot join thread before it is started")
        t = self._t
        deadline = None if timeout is None else self._ds.now() + timeout
        self._ds.point(lambda: t.state == _DONE, deadline, f"join {t.name}")

    def is_alive(self) -> bool:
        return self._t is not None and self._t.state != _DONE

    @property
    def name(self) -> str:
        return self._t.name if self._t is not None else (self._name or "Thread-?")

    @name.setter
    def name(self, v: str) -> None:
        self._name = v
        if self._t is not None:
            self._t.name = v

    @property
    def ident(self) -> int | None:
        return None if self._t is None else self._t.tid + 1

    native_id = ident


class _MainThreadStub:
    name = "MainThread"
    daemon = False
    ident = 0

    def is_alive(self) -> bool:
        return True


class FakeThreading:
    """Stands in for the `threading` module inside a module under test.  Unknown attributes fall through to the
    real module (`local`, `excepthook`, `TIMEOUT_MAX`, …)."""

    def __init__(self, ds: DetSched) -> None:
        self._ds = ds
        self.Thread = type("Thread", (FakeThread,), {"_ds": ds})
        outer = self

        class Timer(self.Thread):  # type: ignore[name-defined,misc]
            def __init__(self, interval: float, function: Callable[..., Any], args: Any = None, kwargs: Any = None) -> None:
                super().__init__()
                self.interval = interval
                self.function = function
                self.args = args if args is not None else []
                self.kwargs = kwargs if kwargs is not None else {}
                self.finished = outer.Event()

            def cancel(self) -> None:
                self.finished.set()

            def run(self) -> None:
                self.finished.wait(self.interval)
                if not self.finished.is_set():
                    outer._ds.emit("timer-fire", self.name)
                    self.function(*self.args, **self.kwargs)
                self.finished.set()

        self.Timer = Timer
        self._main = _MainThreadStub()

    def _created(self, obj: Any) -> Any:
        ds = self._ds
        if ds.creation_points and ds.tid() != MAIN:
            ds.emit("new", obj.name)
            ds.point(what=f"created {obj.name}")
        return obj

    def Lock(self) -> FakeLock:  # noqa: N802
        return self._created(FakeLock(self._ds))

    def RLock(self) -> FakeRLock:  # noqa: N802
        return self._created(FakeRLock(self._ds))

    def Semaphore(self, value: int = 1) -> FakeSemaphore:  # noqa: N802
        return self._created(FakeSemaphore(self._ds, value))

    def BoundedSemaphore(self, value: int = 1) -> FakeSemaphore:  # noqa: N802
        return self._created(FakeSemaphore(self._ds, value, bounded=True))

    def Event(self) -> FakeEvent:  # noqa: N802
        return self._created(FakeEvent(self._ds))

    def Condition(self, lock: Any = None) -> FakeCondition:  # noqa: N802
        return self._created(FakeCondition(self._ds, lock))

    def _wrap(self, t: _T) -> FakeThread:
        ft = self.Thread(target=t.fn, name=t.name, daemon=t.daemon)
        ft._t = t
        return ft

    def current_thread(self) -> Any:
        ex = self._ds._exec
        t = ex.me() if ex is not None else None
        return t.fake if (t is not None and t.fake is not None) else self._main

    currentThread = current_thread

    def main_thread(self) -> Any:
        return self._main

    def get_ident(self) -> int:
        ex = self._ds._exec
        t = ex.me() if ex is not None else None
        return t.tid + 1 if t is not None else 0

    get_native_id = get_ident

    def active_count(self) -> int:
        ex = self._ds._exec
        return 1 + (sum(1 for t in ex.threads if t.state != _DONE) if ex is not None else 0)

    def enumerate(self) -> list[Any]:
        ex = self._ds._exec
        return [self._main] + ([t.fake for t in ex.threads if t.state != _DONE and t.fake is not None] if ex is not None else [])

    def __getattr__(self, name: str) -> Any:
        return getattr(_rt, name)


class FakeTime:
    """Stands in for the `time` module: `time`, `monotonic`, `perf_counter` (+ `_ns`) read the logical clock
    (scheduling point; event ["clock", tid, value]); `sleep` blocks until the logical clock has advanced."""

    EPOCH = 1_700_000_000.0

    def __init__(self, ds: DetSched) -> None:
        self._ds = ds

    def _read(self, base: float) -> float:
        ds = self._ds
        ds.point(what="read clock")
        v = base + ds.now()
        if ds.trace_time:
            ds.emit("clock", v)
        return v

    def monotonic(self) -> float:
        return self._read(0.0)

    perf_counter = monotonic

    def time(self) -> float:
        return self._read(self.EPOCH)

    def monotonic_ns(self) -> int:
        return int(self._read(0.0) * 1_000_000_000)

    perf_counter_ns = monotonic_ns

    def time_ns(self) -> int:
        return int(self._read(self.EPOCH) * 1_000_000_000)

    def sleep(self, secs: float) -> None:
        ds = self._ds
        if secs <= 0:
            ds.point(what="sleep 0")
            return
        ds.point(lambda: False, ds.now() + secs, f"sleep {secs}")

    def __getattr__(self, name: str) -> Any:
        return getattr(_rtime, name)
