"""Generated services for the shared-memory side channel (C29): like `svcgen`, plus batch *kinds* (plain / dictionary-encoded /
zero-column / mixed), sized unary results and requests, exchange inputs of several kinds, client-side `release()` of held
batches, a C++-style client that routes the request batch through the segment, and sampling of the allocation table after
every client operation.

Descriptor
----------
{"methods": [
   {"name": "u0", "kind": "unary", "rk": "int"|"bytes", "logs": [LOG…], "out": {"ok": id, "n": payload bytes} | {"raise": EXC}},
   {"name": "p1", "kind": "producer"|"exchange", "okind": KIND, "ikind": "int"|"dict", "early": bool, "header": bool, "hdr": 7,
    "init_logs": [LOG…], "init": "ok" | {"raise": EXC}, "steps": [STEP…]}]}
STEP as in svcgen; B = {"id": 3, "rows": 2, "meta": {...}};  KIND = "int" | "dict" | "dictA" | "dictB" | "dictC" | "zero" | "mix" | "ndl" | "nds" | "ndm"

Script
------
["call", m, a, padlen, "std"|"shmreq"] | ["open", m, a] | ["tick"] | ["send", id, rows, variant] | ["close"] | ["cancel"] | ["release", k]
"""

import contextlib
import gc
import hashlib
import json
import threading
import time
from dataclasses import dataclass
from typing import Any, Protocol

import pyarrow as pa
from pyarrow import ipc

from harness.common import svcgen
from vgi_rpc import shm as shm_mod
from vgi_rpc.log import Level
from vgi_rpc.rpc import AnnotatedBatch, CallContext, OutputCollector, RpcError, Stream, StreamState

EVENTS: list[tuple[Any, ...]] = []
NEVER_FITS = 1 << 62

DICT_T = pa.dictionary(pa.int32(), pa.utf8())
OUT_SCHEMAS = {
    "int": pa.schema([("x", pa.int64())]),
    "dict": pa.schema([("x", DICT_T)]),
    "zero": pa.schema([]),
    "mix": pa.schema([("x", pa.int64()), ("d", DICT_T), ("s", pa.utf8())]),
}
# schema shapes that select / stress the two decode paths of `_deserialize_from_shm`:
#  * dictA / dictB / dictC: top-level dictionary column; the schemas are EQUAL for pyarrow (`==`; A and B also hash alike)
#    and differ only in field-level (B) or schema-level (C) metadata — used in one process, each must be delivered as declared
#  * ndl / nds / ndm: the dictionary type is nested (list item / struct child / map value): `_has_dictionary_columns` says
#    "no dictionary", so the region holds a full IPC stream WITH dictionary messages before the record batch
OUT_SCHEMAS.update({
    "dictA": pa.schema([pa.field("x", DICT_T, metadata={"unit": "metres"})]),
    "dictB": pa.schema([pa.field("x", DICT_T, metadata={"unit": "seconds", "k": "2"})]),          # == dictA, same hash
    "dictC": pa.schema([pa.field("x", DICT_T, metadata={"unit": "metres"})], metadata={"origin": "C"}),   # == dictA
    "ndl": pa.schema([("x", pa.int64()), pa.field("t", pa.list_(DICT_T), metadata={"shape": "list"})]),
    "nds": pa.schema([("x", pa.int64()), ("t", pa.struct([("d", DICT_T), ("n", pa.int32())]))], metadata={"origin": "nds"}),
    "ndm": pa.schema([("x", pa.int64()), ("t", pa.map_(pa.utf8(), DICT_T))]),
})
IN_SCHEMAS = {"int": pa.schema([("v", pa.int64())]), "dict": pa.schema([("v", DICT_T)])}


def _dict_arr(ident: int, rows: int) -> pa.Array:
    """`rows` values cycling over (at most) three dictionary entries `v<id>-0..2`."""
    k = min(3, rows)
    idx = pa.array(([0, 1, 2] * (rows // 3 + 1))[:rows], type=pa.int32())
    return pa.DictionaryArray.from_arrays(idx, pa.array([f"v{ident}-{i}" for i in range(k)], type=pa.utf8()))


def mk_out(kind: str, ident: int, rows: int) -> pa.RecordBatch:
    """The data batch a step emits: content is a function of (kind, id, rows) only."""
    if kind == "int":
        return pa.RecordBatch.from_arrays([pa.repeat(pa.scalar(ident, pa.int64()), rows)], schema=OUT_SCHEMAS["int"])
    if kind == "dict":
        return pa.RecordBatch.from_arrays([_dict_arr(ident, rows)], schema=OUT_SCHEMAS["dict"])
    if kind in ("dictA", "dictB", "dictC"):
        return pa.RecordBatch.from_arrays([_dict_arr(ident, rows)], schema=OUT_SCHEMAS[kind])
    if kind in ("ndl", "nds", "ndm"):
        xs = pa.repeat(pa.scalar(ident, pa.int64()), rows)
        d = _dict_arr(ident, rows)
        if kind == "ndl":
            t = pa.ListArray.from_arrays(pa.array(list(range(rows + 1)), type=pa.int32()), d)
        elif kind == "nds":
            t = pa.StructArray.from_arrays([d, pa.array(([7, 8] * (rows // 2 + 1))[:rows], type=pa.int32())], names=["d", "n"])
        else:
            t = pa.MapArray.from_arrays(pa.array(list(range(rows + 1)), type=pa.int32()),
                                        pa.array([f"k{i % 5}" for i in range(rows)], type=pa.utf8()), d)
        return pa.RecordBatch.from_arrays([xs, t], schema=OUT_SCHEMAS[kind])
    if kind == "zero":
        return pa.RecordBatch.from_struct_array(pa.array([{}] * rows, type=pa.struct([])))
    if kind == "mix":
        return pa.RecordBatch.from_arrays(
            [pa.repeat(pa.scalar(ident, pa.int64()), rows), _dict_arr(ident, rows), pa.array([f"s{ident}" * 2] * rows, type=pa.utf8())],
            schema=OUT_SCHEMAS["mix"])
    raise ValueError(kind)


def out_meta(kind: str, b: dict[str, Any]) -> dict[str, str] | None:
    """Application metadata of an emitted batch; batches whose content cannot carry the id (no column / no row) carry it here."""
    md = dict(b.get("meta") or {})
    if kind == "zero" or b.get("rows", 1) == 0:
        md["bid"] = str(b["id"])
    return md or None


def mk_in(variant: str, ident: int, rows: int) -> pa.RecordBatch:
    """Exchange inputs: conforming ("int"/"dict"), castable ("int32"), or a field set the server refuses ("renamed"/"extra")."""
    if variant == "int":
        return pa.RecordBatch.from_arrays([pa.repeat(pa.scalar(ident, pa.int64()), rows)], schema=IN_SCHEMAS["int"])
    if variant == "dict":
        return pa.RecordBatch.from_arrays([_dict_arr(ident, rows)], schema=IN_SCHEMAS["dict"])
    if variant == "int32":
        return pa.RecordBatch.from_pydict({"v": [ident] * rows}, schema=pa.schema([("v", pa.int32())]))
    if variant == "renamed":
        return pa.RecordBatch.from_pydict({"z": [ident] * rows}, schema=pa.schema([("z", pa.int64())]))
    if variant == "extra":
        return pa.RecordBatch.from_pydict({"v": [ident] * rows, "w": [ident] * rows}, schema=pa.schema([("v", pa.int64()), ("w", pa.int64())]))
    raise ValueError(variant)


def payload(ident: int, n: int) -> bytes:
    """Sized unary result / request padding: content is a function of (id, n)."""
    return (f"{ident}:".encode() * (n // 2 + 2))[:n]


def ident_of(batch: pa.RecordBatch, md: dict[str, str]) -> int | None:
    """Recover the id a batch was built from — from its *content* where it has any."""
    names = batch.schema.names
    try:
        if batch.num_rows > 0 and "x" in names:
            v = batch.column("x")[0].as_py()
            return int(v) if isinstance(v, int) else int(str(v)[1:].split("-")[0])
        if batch.num_rows > 0 and "v" in names:
            v = batch.column("v")[0].as_py()
            return int(v) if isinstance(v, int) else int(str(v)[1:].split("-")[0])
        if "bid" in md:
            return int(md["bid"])
    except Exception:  # noqa: BLE001
        return None
    return None


def app_md(cm: Any) -> dict[str, str]:
    md: dict[str, str] = {}
    if cm is not None:
        for k, v in dict(cm).items():
            ks = k.decode() if isinstance(k, bytes) else k
            if not ks.startswith("vgi_rpc."):
                md[ks] = v.decode() if isinstance(v, bytes) else v
    return md


def schema_desc(schema: pa.Schema) -> str:
    """The delivered schema as the caller sees it: names, types (nested children included), nullability, field-level and
    schema-level metadata.  (`Schema.__eq__` / `str()` ignore or truncate metadata, hence spelled out.)"""
    def fld(f: pa.Field) -> Any:
        kids = [fld(f.type.field(i)) for i in range(f.type.num_fields)] if f.type.num_fields else []
        md = sorted((k.decode(), v.decode()) for k, v in (f.metadata or {}).items())
        return [f.name, str(f.type), f.nullable, md, kids]
    smd = sorted((k.decode(), v.decode()) for k, v in (schema.metadata or {}).items())
    return json.dumps([[fld(f) for f in schema], smd])


def content(batch: pa.RecordBatch) -> str:
    """Logical content (independent of physical layout): compared between shm and inline delivery."""
    d = json.dumps([batch.num_rows, batch.to_pydict()], sort_keys=True, default=str)
    d = d if len(d) < 2000 else hashlib.blake2b(d.encode(), digest_size=16).hexdigest()
    return json.dumps({"schema": schema_desc(batch.schema), "values": d})


def digest(batch: pa.RecordBatch) -> str:
    """Cheap fingerprint of what a (possibly zero-copy) batch reads as *now*: canary for overwritten regions."""
    sink = pa.BufferOutputStream()
    with ipc.new_stream(sink, batch.schema) as w:
        w.write_batch(batch)
    return hashlib.blake2b(sink.getvalue(), digest_size=16).hexdigest()


# ----------------------------------------------------------------------------------------- sizes (what the code computes)


def sizes_of(batch: pa.RecordBatch) -> tuple[int, int]:
    """(batch.nbytes, bytes `allocate_and_write` requests from the allocator)."""
    if shm_mod._has_dictionary_columns(batch.schema):
        need = shm_mod._serialize_for_shm(batch).size
    else:
        need = ipc.get_record_batch_size(batch) + shm_mod._STREAM_OVERHEAD
        # the sink refuses a stream that outgrows the estimate (C28): the region is given back and the batch goes inline —
        # to the model that is an allocation that can never succeed
        sink = pa.BufferOutputStream()
        with ipc.new_stream(sink, batch.schema) as w:
            w.write_batch(batch)
        if sink.getvalue().size > need:
            need = NEVER_FITS
    return batch.nbytes, need


# ----------------------------------------------------------------------------------------- service


@dataclass
class ShmState(StreamState):
    prog: str
    okind: str = "int"
    i: int = 0
    exchange: bool = False
    early: bool = False
    tag: str = ""

    def process(self, input: AnnotatedBatch, out: OutputCollector, ctx: CallContext) -> None:
        steps = json.loads(self.prog)
        k = self.i
        self.i = k + 1
        if self.exchange:
            EVENTS.append(("process", self.tag, k, ident_of(input.batch, app_md(input.custom_metadata)), input.batch.num_rows,
                           content(input.batch)))
        else:
            EVENTS.append(("process", self.tag, k, None, 0, ""))
        if self.early:
            input.release()          # user code that is done with its input before it emits
        step = steps[k] if k < len(steps) else {"logs": [], "act": "finish"}
        for lg in step.get("logs", []):
            out.client_log(Level(lg["level"]), lg["text"], **lg.get("extra", {}))
        act = step["act"]
        if act == "finish":
            for lg in step.get("post", []):
                out.client_log(Level(lg["level"]), lg["text"], **lg.get("extra", {}))
            out.finish()
        elif act == "nothing":
            return
        elif "emit" in act or "emit_finish" in act:
            b = act.get("emit") or act.get("emit_finish")
            out.emit(mk_out(self.okind, b["id"], b.get("rows", 1)), metadata=out_meta(self.okind, b))
            for lg in step.get("post", []):
                out.client_log(Level(lg["level"]), lg["text"], **lg.get("extra", {}))
            if "emit_finish" in act:
                out.finish()
        elif "raise" in act:
            raise svcgen.make_exc(act["raise"])


def _p_int(self, a: int, pad: bytes) -> int: ...
def _p_bytes(self, a: int, pad: bytes) -> bytes: ...
def _p_stream(self, a: int) -> Stream[ShmState]: ...
def _p_stream_h(self, a: int) -> Stream[ShmState, svcgen.Hdr]: ...


def build(desc: dict[str, Any]) -> tuple[type, Any]:
    pns: dict[str, Any] = {"__module__": __name__}
    ins: dict[str, Any] = {"__module__": __name__}
    for m in desc["methods"]:
        name = m["name"]
        if m["kind"] == "unary":
            rk = m.get("rk", "int")
            pns[name] = svcgen._clone(_p_int if rk == "int" else _p_bytes, name)

            def impl_u(self, a: int, pad: bytes, ctx: CallContext, _m=m, _rk=rk):
                EVENTS.append(("invoke", _m["name"], a, len(pad), pad == payload(a, len(pad))))
                for lg in _m.get("logs", []):
                    ctx.client_log(Level(lg["level"]), lg["text"], **lg.get("extra", {}))
                out = _m["out"]
                if "raise" in out:
                    raise svcgen.make_exc(out["raise"])
                return out["ok"] if _rk == "int" else payload(out["ok"], out.get("n", 0))

            impl_u.__name__ = name
            impl_u.__annotations__ = {"a": int, "pad": bytes, "ctx": CallContext, "return": int if rk == "int" else bytes}
            ins[name] = impl_u
        else:
            hdr = bool(m.get("header"))
            pns[name] = svcgen._clone(_p_stream_h if hdr else _p_stream, name)

            def impl_s(self, a: int, ctx: CallContext, _m=m, _hdr=hdr):
                EVENTS.append(("invoke", _m["name"], a, 0, True))
                for lg in _m.get("init_logs", []):
                    ctx.client_log(Level(lg["level"]), lg["text"], **lg.get("extra", {}))
                init = _m.get("init", "ok")
                if isinstance(init, dict) and "raise" in init:
                    raise svcgen.make_exc(init["raise"])
                ex = _m["kind"] == "exchange"
                st = ShmState(prog=json.dumps(_m["steps"]), okind=_m.get("okind", "int"), i=0, exchange=ex,
                              early=bool(_m.get("early")), tag=_m["name"])
                kw: dict[str, Any] = {"output_schema": OUT_SCHEMAS[_m.get("okind", "int")], "state": st}
                if ex:
                    kw["input_schema"] = IN_SCHEMAS[_m.get("ikind", "int")]
                if _hdr:
                    kw["header"] = svcgen.Hdr(h=_m.get("hdr", 0))
                return Stream(**kw)

            impl_s.__name__ = name
            impl_s.__annotations__ = {"a": int, "ctx": CallContext,
                                      "return": Stream[ShmState, svcgen.Hdr] if hdr else Stream[ShmState]}
            ins[name] = impl_s
    P = type("ShmProto", (Protocol,), pns)
    Impl = type("ShmImpl", (), ins)
    return P, Impl()


# ----------------------------------------------------------------------------------------- a client that routes its request


def call_via_shm_request(proxy: Any, name: str, kwargs: dict[str, Any]) -> Any:
    """What a C++-style client does: the single-row request batch itself is offered to the segment (pointer request).
    Mirrors `_write_request` + `_RpcProxy` unary caller, with `maybe_write_to_shm` applied to the request batch."""
    from vgi_rpc.metadata import REQUEST_VERSION, REQUEST_VERSION_KEY, RPC_METHOD_KEY, SHM_SEGMENT_NAME_KEY, SHM_SEGMENT_SIZE_KEY
    from vgi_rpc.rpc import _wire
    from vgi_rpc.utils import ValidatedReader, new_ipc_stream

    info = proxy._methods[name]
    tr = proxy._transport
    seg = proxy._shm
    merged = {**info.param_defaults, **kwargs}
    arrays = [pa.array([_wire._convert_for_arrow(merged.get(f.name))], type=f.type) for f in info.params_schema]
    batch = pa.RecordBatch.from_arrays(arrays, schema=info.params_schema)
    md: dict[bytes, bytes] = {RPC_METHOD_KEY: name.encode(), REQUEST_VERSION_KEY: REQUEST_VERSION}
    if seg is not None:
        md[SHM_SEGMENT_NAME_KEY] = seg.name.encode()
        md[SHM_SEGMENT_SIZE_KEY] = str(seg.size).encode()
    b2, cm2 = shm_mod.maybe_write_to_shm(batch, pa.KeyValueMetadata(md), seg)
    with new_ipc_stream(tr.writer, info.params_schema) as w:
        w.write_batch(b2, custom_metadata=cm2)
    reader = ValidatedReader(ipc.open_stream(tr.reader), proxy._ipc_validation)
    return _wire._read_unary_response(reader, info, proxy._on_log, None, shm=seg)


def request_batch(P: type, name: str, a: int, pad: bytes) -> pa.RecordBatch:
    from vgi_rpc.rpc import _wire, rpc_methods

    info = rpc_methods(P)[name]
    merged = {**info.param_defaults, "a": a, "pad": pad}
    arrays = [pa.array([_wire._convert_for_arrow(merged.get(f.name))], type=f.type) for f in info.params_schema]
    return pa.RecordBatch.from_arrays(arrays, schema=info.params_schema)


def result_batch(P: type, name: str, value: Any) -> pa.RecordBatch:
    from vgi_rpc.rpc import _wire, rpc_methods

    info = rpc_methods(P)[name]
    return _wire._build_result_batch(info.result_schema, value)


# ----------------------------------------------------------------------------------------- runner


def release_offset(ab: AnnotatedBatch) -> int | None:
    """Offset of the region a delivered batch references (read from the release closure), or None if it came inline."""
    fn = ab._release_fn
    if fn is None:
        return None
    for nm, cell in zip(fn.__code__.co_freevars, fn.__closure__ or ()):
        if nm == "offset":
            return int(cell.cell_contents)
    return None


@dataclass
class RunCfg:
    kind: str = "shm"                 # shm | pipe
    shm_size: int = 1 << 20
    thr: int = 0                      # vgi_rpc.shm.SHM_MIN_BATCH_BYTES for this run


def _ev_data(ab: AnnotatedBatch) -> list[Any]:
    md = app_md(ab.custom_metadata)
    ident = ident_of(ab.batch, md)
    md.pop("bid", None)
    return ["data", ident, ab.batch.num_rows, dict(sorted(md.items()))]


def run_script(desc: dict[str, Any], script: list[list[Any]], cfg: RunCfg, *, expect_tables: list[Any] | None = None,
               deadline: float = 30.0) -> dict[str, Any]:
    """Run the client script.  Per op: events, allocation table after the op, held batches (id, offset, released),
    whether every unreleased held batch still reads as delivered.  `expect_tables[i]` (if given) is polled for briefly:
    the only asynchrony is a server thread still finishing a free the client does not wait for."""
    EVENTS.clear()
    svcgen.EVENTS.clear()
    old_thr = shm_mod.SHM_MIN_BATCH_BYTES
    shm_mod.SHM_MIN_BATCH_BYTES = cfg.thr
    P, impl = build(desc)
    cur: list[list[Any]] = []
    on_log = lambda m: cur.append(svcgen._ev_log(m))  # noqa: E731
    out: dict[str, Any] = {"hung": False, "trace": [], "tables": [], "held": [], "canary": [], "contents": [], "total": None,
                           "final_table": None, "after_release_all": None}

    def table(conn: Any) -> list[list[int]] | None:
        if conn.shm is None:
            return None
        return [list(x) for x in conn.shm.allocator._read_allocs()]

    def sample(conn: Any, want: Any) -> list[list[int]] | None:
        t = table(conn)
        if want is None or t is None:
            return t
        t_end = time.time() + 1.0
        while t != want and time.time() < t_end:
            time.sleep(0.002)
            t = table(conn)
        return t

    def body() -> None:
        conn = svcgen.Conn(P, impl, svcgen.Config(cfg.kind, shm_size=cfg.shm_size), on_log)
        out["total"] = conn.shm.size if conn.shm is not None else None
        sess: Any = None
        held: list[dict[str, Any]] = []
        try:
            for idx, op in enumerate(script):
                cur.clear()
                kind = op[0]
                try:
                    if kind == "release":
                        k = op[1]
                        if 0 <= k < len(held):
                            held[k]["ab"].release()
                            held[k]["released"] = True
                    elif kind not in ("call", "open") and sess is None:
                        cur.append(["nosession"])
                    elif kind == "call":
                        name, a, padlen, via = op[1], op[2], op[3], op[4]
                        m = next(x for x in desc["methods"] if x["name"] == name)
                        kw = {"a": a, "pad": payload(a, padlen)}
                        v = call_via_shm_request(conn.proxy, name, kw) if via == "shmreq" else getattr(conn.proxy, name)(**kw)
                        if m.get("rk", "int") == "bytes":
                            okv = m["out"].get("ok")
                            v = okv if v == payload(okv, m["out"].get("n", 0)) else ["corrupt", len(v)]
                        cur.append(["value", v])
                    elif kind == "open":
                        sess = None
                        sess = getattr(conn.proxy, op[1])(a=op[2])
                        if sess.header is not None:
                            cur.append(["header", sess.header.h])
                        cur.append(["opened"])
                    elif kind in ("tick", "send"):
                        try:
                            if kind == "tick":
                                ab = sess.tick()
                            else:
                                ab = sess.exchange(AnnotatedBatch(batch=mk_in(op[3], op[1], op[2])))
                            cur.append(_ev_data(ab))
                            held.append({"ab": ab, "released": False, "digest": digest(ab.batch), "id": cur[-1][1]})
                            out["contents"].append(content(ab.batch))
                        except StopIteration:
                            cur.append(["end"])
                    elif kind == "close":
                        sess.close()
                        cur.append(["closed"])
                    elif kind == "cancel":
                        sess.cancel()
                        cur.append(["cancelled"])
                    else:
                        raise ValueError(kind)
                except RpcError as e:
                    cur.append(svcgen._ev_err(e))
                except Exception as e:  # noqa: BLE001
                    cur.append(["raised", type(e).__name__, str(e)[:200]])
                out["trace"].append([list(x) for x in cur])
                out["tables"].append(sample(conn, expect_tables[idx] if expect_tables is not None and idx < len(expect_tables) else None))
                out["held"].append([[h["id"], release_offset(h["ab"]), h["released"]] for h in held])
                out["canary"].append([digest(h["ab"].batch) == h["digest"] for h in held if not h["released"]])
            # end of session: close any open stream, then the caller releases everything it still holds
            if sess is not None:
                with contextlib.suppress(Exception):
                    sess.close()
            want_final = sorted([o for o in (release_offset(h["ab"]) for h in held if not h["released"]) if o is not None])
            t = table(conn)
            t_end = time.time() + 1.0
            while t is not None and sorted(x[0] for x in t) != want_final and time.time() < t_end:
                time.sleep(0.002)
                t = table(conn)
            out["final_table"] = t
            out["final_refs"] = want_final
            for h in held:
                if not h["released"]:
                    h["ab"].release()
            out["after_release_all"] = table(conn)
        finally:
            for h in held:
                h.clear()
            held.clear()
            sess = None
            gc.collect()
            conn.close()

    th = threading.Thread(target=body, daemon=True)
    th.start()
    th.join(deadline)
    if th.is_alive():
        out["hung"] = True
    shm_mod.SHM_MIN_BATCH_BYTES = old_thr
    out["events"] = list(EVENTS)
    return out
