"""C16 — HTTP response size caps are enforced.

Sizes are *measured*, never assumed: every scenario (a unary result, an exchange turn, a producer script — each with or
without client-log batches) is first run against an app with no caps, the response is decoded with pyarrow and every
batch is weighed (buffer size, bytes it adds to an IPC stream, size of the IPC stream the upload helper would
serialise, pointer-batch size from a second reference run with externalisation forced).  Cap configurations are then
derived from those numbers — cap-1 / cap / cap+1 around the buffer size, the framed size, the inline body, the
pointer body, every cumulative producer prefix — and run against the real Falcon app with a storage backend that
counts what it receives.

K (correspondence): outcome (ok | external-cap error | wire-cap error | method error), the list of upload sizes, the
    body length of successful responses, and for producers the number of `process()` calls and whether a continuation
    sentinel was appended, are compared with `C16.unary / exchange / producer` of the Lean model fed with the measured sizes.
O (direct oracle): the property on the real code: a successful unary/exchange body ≤ max_response_bytes; bytes received
    by the storage for a successful response ≤ max_externalized_response_bytes; a response refused for the external cap
    uploaded nothing; a producer turn's body ≤ max(cap, bytes before production) + its last iteration's batches +
    sentinel + EOS, and its uploads ≤ the external cap whatever the outcome.
A subset of the configurations is repeated against the repository's loopback fake storage
(`vgi_rpc.conformance.fake_storage`), counting the bytes the HTTP storage service actually received.
"""

import io
import json
import threading
import zlib
from dataclasses import dataclass, field
from typing import Any, Protocol

import pyarrow as pa

from harness.common import rpcutil

PROPERTY = "C16"
LEAN_MODULES = ["VgiVerif.Proofs.C16"]
OBLIGATIONS = [
    "VgiVerif.C16.shape_sound",
    "VgiVerif.C16.C16_unary",
    "VgiVerif.C16.C16_exchange",
    "VgiVerif.C16.C16_external",
    "VgiVerif.C16.C16_producer",
    "VgiVerif.C16.C16_replacement",
    "VgiVerif.C16.C16_replacement_any",
    "VgiVerif.C16.C16_unary_any",
    "VgiVerif.C16.C16_exchange_any",
    "VgiVerif.C16.C16_producer_any",
    "VgiVerif.C16.preflight_never_refuses_a_fitting_payload",
]
TRUSTED = [
    "the clock seen by vgi_rpc.http.server._state_token is frozen by the harness (module-global substitution) so that "
    "stream tokens, which embed the time and are compressed, have a reproducible length",
    "pyarrow: IPC serialisation is additive per batch (schema message + batch messages + 8-byte EOS) and "
    "get_total_buffer_size() of a decoded batch equals that of the batch the server built (checked on every run: the "
    "model's body length and upload sizes must equal the observed ones)",
    "the storage backend: the in-process counting backend and the repository's loopback fake storage report what they received",
    "with upload compression configured the cap is read as applying to the payload before compression (what the upload "
    "helpers report and document); received bytes are decompressed before they are weighed",
    "response compression of a producer continuation turn (codec negotiated through Accept-Encoding) is not modelled; "
    "requests send no Accept-Encoding",
]
RULE = (
    "scenarios = {unary, exchange, producer init turn, producer continuation turn} x payload sizes (1..6000 bytes, several "
    "batches for producers) x client-log batches (0..3) x finishing/continuing/raising producers; per scenario the caps "
    "are drawn from the boundary set {None, 0, s-1, s, s+1, huge} for every measured size s (buffer size, framed size, "
    "inline body, pointer body, each cumulative prefix of body and uploads) x threshold {0, buf-1, buf, buf+1, huge} x "
    "storage {no external config, config without storage, storage, storage+zstd, storage+gzip}.  A case is distinct by "
    "(scenario, configuration); non-trivial when at least one cap is set.  thorough adds exhaustive sweeps: every external "
    "cap from buf-2 to framed+2 and every wire cap from pointer-body-2 to inline-body+2 for a canonical unary and exchange "
    "payload, every external cap up to the total framed size and every wire cap up to the total body of a 3-batch producer."
)
PARTIAL = [
    "Arrow sizes themselves (how large a batch serialises) are measured, not derived",
    "HTTP response compression of producer turns is not exercised (the break decision measures write_sink.tell(), the IPC bytes written, which equals resp_buf.tell() without a codec)",
]
MANIFEST = {
    "level": "proof",
    "text": "Lean theorems, for all sizes / caps / thresholds / log volumes and producer scripts of any length (induction), "
            "about a transliteration of the cap arithmetic of the unary, exchange and producer paths, parametric in the "
            "extracted shape of the checks: successful unary/exchange bodies fit max_response_bytes, uploads of successful "
            "responses fit max_externalized_response_bytes, an external refusal happens before any upload, a producer turn "
            "overshoots the wire cap by at most its last iteration + sentinel + EOS and never the external cap.  Tied to "
            "the code by extraction of every comparison / budget hand-down and by boundary-value runs with measured sizes.",
    "note": "sizes are naturals supplied by measurement; the only Arrow law used (buffer size <= serialized size) appears "
            "in one auxiliary theorem",
    "technique": "Lean 4 proof: loop invariant by induction on the producer script + shape-parametric model + extraction "
                 "+ differential correspondence at cap-1/cap/cap+1 with a byte-counting storage backend",
}

CT = "application/vnd.apache.arrow.stream"
TOKEN_KEY = b"c" * 32


_FAIL_COUNT: dict[str, int] = {}


def _fail(ctx: Any, case: Any, key: str, what: str) -> None:
    """Report a property failure; at most 3 cases per key reach the (bounded) failure list, the rest are counted."""
    n = _FAIL_COUNT.get(key, 0) + 1
    _FAIL_COUNT[key] = n
    if n <= 3:
        ctx.fail(case, key, what)
    else:
        ctx.notes.setdefault("further_failures_per_key", {})[key] = n - 3
HUGE = 10**9
EOS = 8

from vgi_rpc.external import Compression, ExternalLocationConfig  # noqa: E402
from vgi_rpc.log import Level  # noqa: E402
from vgi_rpc.metadata import CALL_STATE_KEY, STATE_KEY  # noqa: E402
from vgi_rpc.rpc import AnnotatedBatch, CallContext, OutputCollector, RpcServer, Stream, StreamState  # noqa: E402

CALLS: list[str] = []
LOCATION_KEY = b"vgi_rpc.location"


def _msg(i: int, size: int) -> str:
    return ("log%02d-" % i) + "m" * max(0, size - 6)


@dataclass
class GenState(StreamState):
    sizes: list[int] = field(default_factory=list)
    logs: int = 0
    logsize: int = 0
    fail_at: int = -1
    i: int = 0

    def process(self, input: AnnotatedBatch, out: OutputCollector, ctx: CallContext) -> None:
        CALLS.append("gen.process")
        if self.i == self.fail_at:
            raise ValueError("producer failed")
        if self.i >= len(self.sizes):
            out.finish()
            return
        for j in range(self.logs):
            out.client_log(Level.INFO, _msg(j, self.logsize))
        out.emit_pydict({"x": [b"z" * self.sizes[self.i]]})
        self.i += 1


@dataclass
class ExState(StreamState):
    logs: int = 0
    logsize: int = 0

    def process(self, input: AnnotatedBatch, out: OutputCollector, ctx: CallContext) -> None:
        CALLS.append("exch.process")
        v = int(input.batch.column(0)[0].as_py())
        for j in range(self.logs):
            out.client_log(Level.INFO, _msg(j, self.logsize))
        out.emit_pydict({"y": [b"z" * v]})


class CapProto(Protocol):
    def blob(self, n: int, logs: int, logsize: int) -> bytes: ...
    def gen(self, sizes: list[int], logs: int, logsize: int, fail_at: int) -> Stream[GenState]: ...
    def exch(self, logs: int, logsize: int) -> Stream[ExState]: ...


class Impl:
    def blob(self, n: int, logs: int, logsize: int, ctx: CallContext) -> bytes:
        CALLS.append("blob")
        for j in range(logs):
            ctx.client_log(Level.INFO, _msg(j, logsize))
        return b"y" * n

    def gen(self, sizes: list[int], logs: int, logsize: int, fail_at: int) -> Stream[GenState]:
        return Stream(output_schema=pa.schema([("x", pa.binary())]), state=GenState(list(sizes), logs, logsize, fail_at))

    def exch(self, logs: int, logsize: int) -> Stream[ExState]:
        return Stream(output_schema=pa.schema([("y", pa.binary())]), state=ExState(logs, logsize),
                      input_schema=pa.schema([("v", pa.int64())]))


class CountingStorage:
    """In-process `ExternalStorage`: remembers what it was handed."""

    def __init__(self) -> None:
        self.received: list[tuple[bytes, str | None]] = []

    def upload(self, data: bytes, schema: pa.Schema, *, content_encoding: str | None = None) -> str:
        self.received.append((bytes(data), content_encoding))
        return "https://storage.invalid/blob/%08d" % len(self.received)


class LoopbackStorage:
    """The repository's fake storage service over loopback HTTP; the service's own blob store is inspected."""

    def __init__(self) -> None:
        from wsgiref.simple_server import make_server

        from vgi_rpc.conformance import fake_storage as fs

        self.store = fs._BlobStore()
        placeholder = lambda environ, start_response: [b""]  # noqa: E731
        self.server = make_server("127.0.0.1", 0, placeholder, handler_class=fs._SilentHandler)
        self.base = f"http://127.0.0.1:{self.server.server_address[1]}"
        self.server.set_app(fs.make_app(self.base, self.store))
        self.thread = threading.Thread(target=self.server.serve_forever, daemon=True)
        self.thread.start()
        self.backend = fs.FakeStorageBackend(self.base)
        self.seen: set[str] = set()

    def upload(self, data: bytes, schema: pa.Schema, *, content_encoding: str | None = None) -> str:
        url = self.backend.upload(data, schema, content_encoding=content_encoding)
        # normalise the URL length so pointer batches weigh the same as with the in-process backend
        return "https://storage.invalid/blob/%08d" % (len(self.store._blobs))

    def take(self) -> list[tuple[bytes, str | None]]:
        out = []
        with self.store._lock:
            for k, v in self.store._blobs.items():
                if k not in self.seen:
                    self.seen.add(k)
                    out.append(v)
        return out

    def close(self) -> None:
        self.server.shutdown()
        self.server.server_close()
        self.thread.join(timeout=5)


def _raw_len(data: bytes, enc: str | None) -> int:
    if enc is None:
        return len(data)
    if enc == "gzip":
        return len(zlib.decompress(data, 31))
    import zstandard

    return len(zstandard.ZstdDecompressor().decompress(data, max_output_size=1 << 30))


# ------------------------------------------------------------------------------------------ apps


class Apps:
    def __init__(self) -> None:
        self.cache: dict[Any, Any] = {}
        self.loop: LoopbackStorage | None = None

    def get(self, cfg: dict[str, Any]) -> tuple[Any, Any, Any]:
        import falcon.testing

        from vgi_rpc.http import make_wsgi_app

        key = (cfg["wireCap"], cfg["extCap"], cfg["storage"], cfg["threshold"], cfg.get("loopback", False))
        if key in self.cache:
            return self.cache[key]
        st: Any = None
        ext = None
        mode = cfg["storage"]
        if mode != "none":
            if mode == "nostorage":
                ext = ExternalLocationConfig(storage=None, externalize_threshold_bytes=cfg["threshold"])
            else:
                if cfg.get("loopback"):
                    if self.loop is None:
                        self.loop = LoopbackStorage()
                    st = self.loop
                else:
                    st = CountingStorage()
                comp = {"on": None, "zstd": Compression("zstd", 3), "gzip": Compression("gzip", 6)}[mode]
                ext = ExternalLocationConfig(storage=st, externalize_threshold_bytes=cfg["threshold"], compression=comp)
        server = RpcServer(CapProto, Impl(), external_location=ext, server_id="c16srv", enable_describe=False)
        app = make_wsgi_app(server, token_key=TOKEN_KEY, max_response_bytes=cfg["wireCap"],
                            max_externalized_response_bytes=cfg["extCap"], enable_landing_page=False,
                            enable_describe_page=False, enable_not_found_page=False)
        val = (server, falcon.testing.TestClient(app), st)
        if len(self.cache) > 4000:
            self.cache.clear()
        self.cache[key] = val
        return val

    def close(self) -> None:
        if self.loop is not None:
            self.loop.close()


NOCAP = {"wireCap": None, "extCap": None, "storage": "none", "threshold": 0}


def _ipc(schema: pa.Schema, batches: list[tuple[pa.RecordBatch, dict[bytes, bytes] | None]]) -> bytes:
    from vgi_rpc.utils import new_ipc_stream

    buf = io.BytesIO()
    with new_ipc_stream(buf, schema) as w:
        for b, md in batches:
            if md:
                w.write_batch(b, custom_metadata=pa.KeyValueMetadata(md))
            else:
                w.write_batch(b)
    return buf.getvalue()


def _wire(schema: pa.Schema, b: pa.RecordBatch, md: dict[bytes, bytes] | None) -> int:
    return len(_ipc(schema, [(b, md)])) - len(_ipc(schema, []))


def _post(client: Any, path: str, body: bytes) -> Any:
    return client.simulate_post(path, body=body, headers={"Content-Type": CT})


def _request(server: Any, method: str, kwargs: dict[str, Any]) -> bytes:
    return rpcutil.request_bytes(method, server._methods[method].params_schema, kwargs)


def _decode(content: bytes) -> tuple[pa.Schema, list[tuple[pa.RecordBatch, dict[bytes, bytes]]]]:
    streams = rpcutil.read_all_streams(content)
    assert len(streams) == 1, f"expected one IPC stream, got {len(streams)}"
    return streams[0]


def _is_log(b: pa.RecordBatch, md: dict[bytes, bytes]) -> bool:
    return b.num_rows == 0 and b"vgi_rpc.log_level" in md


def _kind_of(batches: list[tuple[pa.RecordBatch, dict[bytes, bytes]]]) -> tuple[str, str]:
    err = rpcutil.error_of(batches)
    if err is None:
        return "ok", ""
    m = err["message"]
    if "max_externalized_response_bytes" in m:
        return "errExt", m
    if "max_response_bytes" in m:
        return "errWire", m
    return "errMethod", m


# ------------------------------------------------------------------------------------------ measuring (reference runs)


def _groups(schema: pa.Schema, batches: list[tuple[pa.RecordBatch, dict[bytes, bytes]]]) -> list[dict[str, Any]]:
    """Split a decoded response into iterations: [log batches…, one data batch]."""
    out = []
    cur: list[tuple[pa.RecordBatch, dict[bytes, bytes]]] = []
    for b, md in batches:
        cur.append((b, md))
        if not _is_log(b, md):
            logs = cur[:-1]
            out.append({
                "logs": sum(_wire(schema, lb, lmd) for lb, lmd in logs),
                "data": {"buf": b.get_total_buffer_size(), "rows": b.num_rows, "wire": _wire(schema, b, md)},
                "framed": len(_ipc(schema, [(x, m) for x, m in cur])),
                "md": md,
            })
            cur = []
    assert not cur, "trailing log batches without a data batch"
    return out


def measure_unary(apps: Apps, sc: dict[str, Any]) -> dict[str, Any]:
    server, client, _ = apps.get(NOCAP)
    kw = {"n": sc["n"], "logs": sc["logs"], "logsize": sc["logsize"]}
    r = _post(client, "/blob", _request(server, "blob", kw))
    assert r.status_code == 200 and r.headers.get("X-VGI-RPC-Error") is None, r.content[:300]
    schema, batches = _decode(r.content)
    g = _groups(schema, batches)
    assert len(g) == 1
    empty = len(_ipc(schema, []))
    res_b, _res_md = batches[-1]
    m = {"schema": empty - EOS, "pre": empty - EOS + g[0]["logs"], "r": g[0]["data"], "framed": len(_ipc(res_b.schema, [(res_b, None)])),
         "inline_body": len(r.content)}
    assert m["pre"] + m["r"]["wire"] + EOS == len(r.content), "IPC sizes are not additive"
    # pointer size + cross-check of `framed`: force externalisation, no caps
    s2, c2, st2 = apps.get({"wireCap": None, "extCap": None, "storage": "on", "threshold": 0})
    n0 = len(st2.received)
    r2 = _post(c2, "/blob", _request(s2, "blob", kw))
    sch2, b2 = _decode(r2.content)
    ptr_b, ptr_md = b2[-1]
    assert LOCATION_KEY in ptr_md, "forced externalisation produced no pointer batch"
    m["ptr"] = _wire(sch2, ptr_b, ptr_md)
    m["ptr_body"] = len(r2.content)
    m["framed_observed"] = len(st2.received[n0][0])
    return m


def measure_exchange(apps: Apps, sc: dict[str, Any]) -> dict[str, Any]:
    server, client, _ = apps.get(NOCAP)
    r0 = _post(client, "/exch/init", _request(server, "exch", {"logs": sc["logs"], "logsize": sc["logsize"]}))
    assert r0.status_code == 200, r0.content[:300]
    tok = None
    for _sch, bs in rpcutil.read_all_streams(r0.content):
        for _b, md in bs:
            if STATE_KEY in md:
                tok = {STATE_KEY: md[STATE_KEY], CALL_STATE_KEY: md[CALL_STATE_KEY]}
    assert tok is not None
    in_schema = pa.schema([("v", pa.int64())])
    body = _ipc(in_schema, [(pa.RecordBatch.from_pydict({"v": [sc["n"]]}, schema=in_schema), tok)])
    r = _post(client, "/exch/exchange", body)
    assert r.status_code == 200 and r.headers.get("X-VGI-RPC-Error") is None, r.content[:300]
    schema, batches = _decode(r.content)
    g = _groups(schema, batches)
    assert len(g) == 1
    empty = len(_ipc(schema, []))
    m = {"schema": empty - EOS, "pre": empty - EOS, "p": {"logs": g[0]["logs"], "data": g[0]["data"], "framed": g[0]["framed"]},
         "inline_body": len(r.content), "request": body}
    assert m["pre"] + g[0]["logs"] + g[0]["data"]["wire"] + EOS == len(r.content), "IPC sizes are not additive"
    s2, c2, st2 = apps.get({"wireCap": None, "extCap": None, "storage": "on", "threshold": 0})
    n0 = len(st2.received)
    r2 = _post(c2, "/exch/exchange", body)
    sch2, b2 = _decode(r2.content)
    ptr_b, ptr_md = b2[-1]
    assert LOCATION_KEY in ptr_md and len(b2) == 1
    m["p"]["ptr"] = _wire(sch2, ptr_b, ptr_md)
    m["ptr_body"] = len(r2.content)
    m["framed_observed"] = len(st2.received[n0][0])
    return m


def measure_producer(apps: Apps, sc: dict[str, Any]) -> dict[str, Any]:
    """All iterations of the script, from one uncapped-in-effect turn (huge wire cap, nothing raising)."""
    server, client, _ = apps.get({"wireCap": HUGE, "extCap": None, "storage": "none", "threshold": 0})
    kw = {"sizes": sc["sizes"], "logs": sc["logs"], "logsize": sc["logsize"], "fail_at": -1}
    r = _post(client, "/gen/init", _request(server, "gen", kw))
    assert r.status_code == 200 and r.headers.get("X-VGI-RPC-Error") is None, r.content[:300]
    schema, batches = _decode(r.content)
    g = _groups(schema, batches)
    assert len(g) == len(sc["sizes"])
    empty = len(_ipc(schema, []))
    s2, c2, st2 = apps.get({"wireCap": HUGE, "extCap": None, "storage": "on", "threshold": 0})
    n0 = len(st2.received)
    r2 = _post(c2, "/gen/init", _request(s2, "gen", kw))
    sch2, b2 = _decode(r2.content)
    ptrs = [(_b, _md) for _b, _md in b2 if LOCATION_KEY in _md]
    assert len(ptrs) == len(g)
    iters = []
    for i, gi in enumerate(g):
        iters.append({"out": {"logs": gi["logs"], "data": gi["data"], "framed": gi["framed"], "ptr": _wire(sch2, ptrs[i][0], ptrs[i][1])},
                      "finished": False, "raises": False, "errWire": 0})
    iters.append({"out": {"logs": 0, "data": None, "framed": 0, "ptr": 0}, "finished": True, "raises": False, "errWire": 0})
    fa = sc.get("fail_at", -1)
    if 0 <= fa < len(iters):
        iters = iters[:fa] + [{"out": {"logs": 0, "data": None, "framed": 0, "ptr": 0}, "finished": False, "raises": True, "errWire": 0}]
    return {"pre": empty - EOS, "iters": iters, "framed_observed": [len(x[0]) for x in st2.received[n0:]],
            "kw": {**kw, "fail_at": fa}}


# ------------------------------------------------------------------------------------------ running one configuration


def _model_cfg(cfg: dict[str, Any]) -> dict[str, Any]:
    return {"wireCap": cfg["wireCap"], "extCap": cfg["extCap"], "storage": cfg["storage"] in ("on", "zstd", "gzip"),
            "threshold": cfg["threshold"]}


def _uploads_since(st: Any, n0: int) -> list[tuple[int, int]]:
    if st is None:
        return []
    if isinstance(st, LoopbackStorage):
        return [(len(d), _raw_len(d, e)) for d, e in st.take()]
    return [(len(d), _raw_len(d, e)) for d, e in st.received[n0:]]


def _n0(st: Any) -> int:
    if st is None:
        return 0
    if isinstance(st, LoopbackStorage):
        st.take()
        return 0
    return len(st.received)


def run_unary_like(ctx: Any, apps: Apps, kind: str, sc: dict[str, Any], m: dict[str, Any], cfg: dict[str, Any]) -> None:
    server, client, st = apps.get(cfg)
    n0 = _n0(st)
    CALLS.clear()
    if kind == "unary":
        r = _post(client, "/blob", _request(server, "blob", {"n": sc["n"], "logs": sc["logs"], "logsize": sc["logsize"]}))
    else:
        r = _post(client, "/exch/exchange", m["request"])
    ups = _uploads_since(st, n0)
    case = {"kind": kind, "scenario": sc, "cfg": cfg}
    nontrivial = cfg["wireCap"] is not None or cfg["extCap"] is not None
    if r.status_code != 200:
        _fail(ctx, case, f"C16:{kind}:http-status:{r.status_code}", f"unexpected HTTP status {r.status_code}: {r.content[:200]!r}")
        ctx.case(case, nontrivial=nontrivial, tags=(f"path:{kind}",))
        return
    schema, batches = _decode(r.content)
    k, msg = _kind_of(batches)
    body = len(r.content)
    raw = [u[1] for u in ups]
    ctx.case(case, nontrivial=nontrivial, tags=(f"path:{kind}", f"outcome:{kind}:{k}", f"storage:{cfg['storage']}",
                                                f"uploads:{min(len(ups), 2)}", "caps:" + ("w" if cfg["wireCap"] is not None else "-")
                                                + ("e" if cfg["extCap"] is not None else "-")))
    # ---- O: the property
    wc, ec = cfg["wireCap"], cfg["extCap"]
    if k == "ok" and wc is not None and body > wc:
        _fail(ctx, case, f"C16:{kind}:body-exceeds-wire-cap", f"successful {kind} body of {body} bytes > max_response_bytes={wc}")
    if k == "ok" and ec is not None and sum(raw) > ec:
        _fail(ctx, case, f"C16:{kind}:uploaded-exceeds-external-cap",
                 f"successful {kind} response uploaded {raw} bytes > max_externalized_response_bytes={ec}")
    if k == "ok" and ec is not None and cfg["storage"] == "on" and sum(u[0] for u in ups) > ec:
        _fail(ctx, case, f"C16:{kind}:received-exceeds-external-cap", f"storage received {[u[0] for u in ups]} bytes > cap {ec}")
    if k == "errExt" and ups:
        _fail(ctx, case, f"C16:{kind}:refused-after-upload",
                 f"response refused for the external cap ({msg[:90]}) after the storage received {raw} bytes")
    if k == "errMethod":
        _fail(ctx, case, f"C16:{kind}:unexpected-error", f"method error in a scenario that does not raise: {msg[:200]}")
    # an error response: weigh the EXCEPTION batch (its text varies) and see what rides with it
    err_wire = 0
    if k != "ok":
        err_b, err_md = next((b, md) for b, md in batches if md.get(b"vgi_rpc.log_level") == b"EXCEPTION")
        err_wire = _wire(schema, err_b, err_md)
    if k == "errWire":
        # "an oversize result becomes an RPC error instead": the replacement holds the error batch and nothing of the
        # discarded body — neither the result nor the log batches that helped to overshoot
        if len(batches) != 1 or body != m["schema"] + err_wire + EOS:
            _fail(ctx, case, f"C16:{kind}:replacement-carries-discarded-body",
                  f"the response replacing an oversize {kind} body holds {len(batches)} batches, {body} bytes "
                  f"(error batch alone: {m['schema'] + err_wire + EOS}; max_response_bytes={wc})")
    # ---- K (model calls are batched; see `flush`)
    a: dict[str, Any] = {"cfg": _model_cfg(cfg), "pre": m["pre"], "eos": EOS, "errWire": err_wire}
    if kind == "unary":
        a.update(r=m["r"], framed=m["framed"], ptr=m["ptr"], schema=m["schema"])
    else:
        a.update(p=m["p"])
    got = {"kind": k, "uploads": raw, "body": body}
    PENDING.append((f"C16.{kind}", a, case, got, f"{kind}: model vs implementation"))


def run_producer(ctx: Any, apps: Apps, sc: dict[str, Any], m: dict[str, Any], cfg: dict[str, Any], turns: int = 2) -> None:
    server, client, st = apps.get(cfg)
    script = m["iters"]
    req = _request(server, "gen", m["kw"])
    path = "/gen/init"
    done = 0
    for turn in range(turns):
        n0 = _n0(st)
        CALLS.clear()
        r = _post(client, path, req)
        ups = _uploads_since(st, n0)
        case = {"kind": "producer", "scenario": sc, "cfg": cfg, "turn": turn}
        nontrivial = cfg["wireCap"] is not None or cfg["extCap"] is not None
        if r.status_code != 200:
            _fail(ctx, case, f"C16:producer:http-status:{r.status_code}", f"unexpected HTTP status {r.status_code}: {r.content[:200]!r}")
            ctx.case(case, nontrivial=nontrivial, tags=("path:producer",))
            return
        schema, batches = _decode(r.content)
        k, msg = _kind_of(batches)
        body = len(r.content)
        raw = [u[1] for u in ups]
        calls = len(CALLS)
        sentinel = 0
        tok = None
        if batches and STATE_KEY in batches[-1][1] and batches[-1][0].num_rows == 0 and LOCATION_KEY not in batches[-1][1]:
            sentinel = _wire(schema, batches[-1][0], batches[-1][1])
            tok = batches[-1][1]
        content = batches[:-1] if sentinel else batches
        # last iteration's batches: everything after the previous data / pointer batch
        last = 0
        for b, md in reversed(content):
            if last and (not _is_log(b, md) or LOCATION_KEY in md):
                break
            last += _wire(schema, b, md)
        ctx.case(case, nontrivial=nontrivial, tags=("path:producer", f"outcome:producer:{k}", f"storage:{cfg['storage']}",
                                                    f"turn:{turn}", f"sentinel:{int(bool(sentinel))}", f"calls:{min(calls, 4)}",
                                                    f"uploads:{min(len(ups), 3)}"))
        wc, ec = cfg["wireCap"], cfg["extCap"]
        # ---- O
        if ec is not None and sum(raw) > ec:
            _fail(ctx, case, f"C16:producer:uploaded-exceeds-external-cap:{k}",
                     f"producer turn ({k}) uploaded {raw} bytes > max_externalized_response_bytes={ec}")
        if wc is not None and body > max(wc, m["pre"]) + last + sentinel + EOS:
            _fail(ctx, case, "C16:producer:body-exceeds-wire-cap-by-more-than-last-batch",
                     f"producer body {body} > max(cap {wc}, pre {m['pre']}) + last {last} + sentinel {sentinel} + EOS")
        if k == "errWire":
            _fail(ctx, case, "C16:producer:wire-cap-error", "a producer's wire cap is soft; it must not surface as an error")
        # ---- K (model calls are batched; see `flush`)
        got = {"kind": k, "uploads": raw, "iterations": calls, "sentinel": bool(sentinel)}
        if k == "ok":
            got["body"] = body
        PENDING.append(("C16.producer", {"cfg": _model_cfg(cfg), "pre": m["pre"], "sentinel": sentinel, "eos": EOS,
                                         "script": script[done:]}, dict(case), got, "producer: model vs implementation"))
        if not sentinel or tok is None or k != "ok":
            return
        # continuation turn: a tick carrying the tokens (the call token only came with the init turn's sentinel)
        done += calls
        if CALL_STATE_KEY in tok:
            call_tok = tok[CALL_STATE_KEY]
            sc["_call"] = call_tok
        md = {STATE_KEY: tok[STATE_KEY], CALL_STATE_KEY: sc["_call"]}
        req = _ipc(pa.schema([]), [(pa.RecordBatch.from_pylist([], schema=pa.schema([])), md)])
        path = "/gen/exchange"


PENDING: list[tuple[str, dict[str, Any], dict[str, Any], dict[str, Any], str]] = []


def flush(ctx: Any) -> None:
    """Compare the pending observations with the model (one driver round trip)."""
    if ctx.driver is not None and PENDING:
        res = ctx.driver.batch([(fn, a) for fn, a, _c, _g, _w in PENDING])
        for (_fn, _a, case, got, what), mod in zip(PENDING, res):
            want = {k: mod[k] for k in got}
            if got != want:
                ctx.mismatch(case, want, got, what)
    PENDING.clear()


# ------------------------------------------------------------------------------------------ generation


def boundary(vals: list[int], rng: Any, extra: list[Any]) -> Any:
    pool: list[Any] = list(extra)
    for v in vals:
        pool += [max(v - 1, 0), v, v + 1]
    return rng.choice(pool)


def gen_cfg(rng: Any, wire_sizes: list[int], ext_sizes: list[int], bufs: list[int], p_storage: float = 0.75) -> dict[str, Any]:
    storage = rng.choice(["on", "on", "on", "zstd", "gzip"]) if rng.random() < p_storage else rng.choice(["none", "nostorage"])
    wc = boundary(wire_sizes, rng, [None, None, None, HUGE, 0, 1])
    ec = boundary(ext_sizes + bufs, rng, [None, None, HUGE, 0])
    thr = boundary(bufs, rng, [0, 0, 1, HUGE])
    return {"wireCap": wc, "extCap": ec, "storage": storage, "threshold": thr}


SIZES = [0, 1, 7, 8, 63, 64, 100, 255, 256, 1000, 1001, 1500, 4096, 6000]


def gen_scenario(rng: Any, kind: str) -> dict[str, Any]:
    # log volume is a dimension of its own: from none to many / long messages that alone outweigh the payload and the caps
    logs = rng.choice([0, 0, 1, 2, 3, 3, 8, 20])
    logsize = rng.choice([6, 20, 200, 1200, 5000])
    if kind in ("unary", "exchange"):
        return {"n": rng.choice(SIZES), "logs": logs, "logsize": logsize}
    k = rng.choice([1, 2, 3, 4, 6])
    sizes = [rng.choice(SIZES[3:]) for _ in range(k)]
    return {"sizes": sizes, "logs": rng.choice([0, 0, 1, 2]), "logsize": logsize,
            "fail_at": rng.choice([-1, -1, -1, 0, 1, k - 1, k])}


def scenario_configs(rng: Any, kind: str, m: dict[str, Any], n: int) -> list[dict[str, Any]]:
    if kind == "unary":
        # … including caps around the log volume alone (schema + logs) and well below it
        wire = [m["inline_body"], m["ptr_body"], m["pre"], m["pre"] + EOS, max(m["pre"] // 2, 1), 2000]
        ext = [m["framed"]]
        bufs = [m["r"]["buf"]]
    elif kind == "exchange":
        wire = [m["inline_body"], m["ptr_body"], m["pre"] + m["p"]["logs"], m["pre"] + m["p"]["logs"] + EOS,
                max(m["p"]["logs"] // 2, 1), 2000]
        ext = [m["p"]["framed"]]
        bufs = [m["p"]["data"]["buf"]]
    else:
        wire, ext, bufs = [], [], []
        t_in = t_ptr = m["pre"]
        cum = 0
        for it in m["iters"]:
            if it["out"]["data"] is None:
                continue
            t_in += it["out"]["logs"] + it["out"]["data"]["wire"]
            t_ptr += it["out"]["ptr"]
            cum += it["out"]["framed"]
            wire += [t_in, t_ptr, t_in + EOS]
            ext += [cum, it["out"]["framed"]]
            bufs.append(it["out"]["data"]["buf"])
        wire.append(m["pre"])
    return [gen_cfg(rng, wire, ext, bufs) for _ in range(n)]


CORPUS = [
    # log batches alone outweigh the wire cap: the replacement error response must not bring them back
    ("exchange", {"n": 10, "logs": 20, "logsize": 5000}, [
        {"wireCap": 16384, "extCap": None, "storage": "none", "threshold": 0},
        {"wireCap": 16384, "extCap": 50, "storage": "on", "threshold": 0},
        {"wireCap": 3000, "extCap": None, "storage": "on", "threshold": 0},
    ]),
    ("unary", {"n": 10, "logs": 20, "logsize": 5000}, [
        {"wireCap": 16384, "extCap": None, "storage": "none", "threshold": 0},
        {"wireCap": 3000, "extCap": None, "storage": "on", "threshold": 0},
    ]),
    # the DESIGN §7.1 witness: 1 000-byte unary result (buffer 1 008, framed 1 296), external cap 1 013, threshold 100
    ("unary", {"n": 1000, "logs": 0, "logsize": 6}, [
        {"wireCap": None, "extCap": 1013, "storage": "on", "threshold": 100},
        {"wireCap": None, "extCap": 1007, "storage": "on", "threshold": 100},
        {"wireCap": None, "extCap": 1008, "storage": "on", "threshold": 100},
        {"wireCap": None, "extCap": 1295, "storage": "on", "threshold": 100},
        {"wireCap": None, "extCap": 1296, "storage": "on", "threshold": 100},
        {"wireCap": None, "extCap": 1297, "storage": "on", "threshold": 100},
        {"wireCap": 1295, "extCap": None, "storage": "none", "threshold": 0},
        {"wireCap": 1296, "extCap": None, "storage": "none", "threshold": 0},
    ]),
    ("exchange", {"n": 1000, "logs": 2, "logsize": 200}, [
        {"wireCap": None, "extCap": 1013, "storage": "on", "threshold": 100},
        {"wireCap": None, "extCap": 1008, "storage": "on", "threshold": 1008},
        {"wireCap": None, "extCap": 1008, "storage": "on", "threshold": 1009},
    ]),
    ("producer", {"sizes": [1000], "logs": 0, "logsize": 6, "fail_at": -1}, [
        {"wireCap": None, "extCap": 1013, "storage": "on", "threshold": 100},
        {"wireCap": None, "extCap": 1296, "storage": "on", "threshold": 100},
    ]),
    ("producer", {"sizes": [1000, 1000, 1000], "logs": 1, "logsize": 20, "fail_at": -1}, [
        {"wireCap": HUGE, "extCap": 2592, "storage": "on", "threshold": 100},
        {"wireCap": HUGE, "extCap": 3000, "storage": "on", "threshold": 100},
        {"wireCap": 1500, "extCap": 1296, "storage": "on", "threshold": 100},
        {"wireCap": 1, "extCap": None, "storage": "none", "threshold": 0},
    ]),
]


def _measure(apps: Apps, kind: str, sc: dict[str, Any]) -> dict[str, Any]:
    return {"unary": measure_unary, "exchange": measure_exchange, "producer": measure_producer}[kind](apps, sc)


def _check_measure(ctx: Any, kind: str, sc: dict[str, Any], m: dict[str, Any]) -> None:
    """The harness's own serialisation of the payload must weigh what the storage received in the reference run."""
    if kind == "unary":
        pairs = [(m["framed"], m["framed_observed"])]
    elif kind == "exchange":
        pairs = [(m["p"]["framed"], m["framed_observed"])]
    else:
        pairs = list(zip([it["out"]["framed"] for it in m["iters"] if it["out"]["data"] is not None], m["framed_observed"]))
    for mine, seen in pairs:
        if mine != seen:
            ctx.mismatch({"kind": kind, "scenario": sc}, {"framed": mine}, {"framed": seen},
                         "measured payload size vs bytes the storage received in the reference run")


def _run_one(ctx: Any, apps: Apps, kind: str, sc: dict[str, Any], m: dict[str, Any], cfg: dict[str, Any]) -> None:
    if kind == "producer":
        run_producer(ctx, apps, dict(sc), m, cfg)
    else:
        run_unary_like(ctx, apps, kind, sc, m, cfg)


class _FrozenClock:
    """`time` as `_state_token` sees it.  Stream tokens bake in `int(time.time())` and are compressed before sealing, so
    their length — and with it the size of the batch that carries them — would otherwise drift by a few bytes between
    the reference run and the capped run of the same scenario."""

    now = 0.0   # set when the run starts: the real time, then held still

    @classmethod
    def time(cls) -> float:
        return cls.now


def _quiet_and_freeze() -> Any:
    import logging

    from vgi_rpc.http.server import _state_token

    for n in ("falcon", "vgi_rpc", "vgi_rpc.http", "vgi_rpc.external"):
        logging.getLogger(n).setLevel(logging.CRITICAL)
    real = _state_token.time
    _FrozenClock.now = float(int(real.time()))
    _state_token.time = _FrozenClock  # type: ignore[assignment]
    return real


def _thaw(real: Any) -> None:
    from vgi_rpc.http.server import _state_token

    _state_token.time = real


def sweep(ctx: Any, apps: Apps) -> int:
    """Exhaustive small spaces (thorough tier): *every* cap value across the interesting range of canonical payloads."""
    n = 0
    for kind, sc in (("unary", {"n": 1000, "logs": 0, "logsize": 6}), ("exchange", {"n": 1000, "logs": 1, "logsize": 20})):
        m = _measure(apps, kind, sc)
        buf = m["r"]["buf"] if kind == "unary" else m["p"]["data"]["buf"]
        framed = m["framed"] if kind == "unary" else m["p"]["framed"]
        for ec in range(buf - 2, framed + 3):
            _run_one(ctx, apps, kind, sc, m, {"wireCap": None, "extCap": ec, "storage": "on", "threshold": 100})
            n += 1
        for wc in range(m["ptr_body"] - 2, m["inline_body"] + 3):
            for storage in ("none", "on"):
                _run_one(ctx, apps, kind, sc, m, {"wireCap": wc, "extCap": None, "storage": storage, "threshold": 100})
                n += 1
        flush(ctx)
    sc = {"sizes": [1000, 1000, 1000], "logs": 0, "logsize": 6, "fail_at": -1}
    m = _measure(apps, "producer", sc)
    its = [it for it in m["iters"] if it["out"]["data"] is not None]
    total_framed = sum(it["out"]["framed"] for it in its)
    total_inline = m["pre"] + sum(it["out"]["data"]["wire"] for it in its)
    for ec in range(its[0]["out"]["data"]["buf"] - 2, total_framed + 3):
        _run_one(ctx, apps, "producer", sc, m, {"wireCap": HUGE, "extCap": ec, "storage": "on", "threshold": 100})
        n += 1
    flush(ctx)
    for wc in range(max(m["pre"] - 2, 0), total_inline + EOS + 3):
        _run_one(ctx, apps, "producer", sc, m, {"wireCap": wc, "extCap": None, "storage": "none", "threshold": 100})
        n += 1
    flush(ctx)
    return n


def run(ctx: Any) -> None:
    _FAIL_COUNT.clear()
    real_time = _quiet_and_freeze()
    rng = ctx.rng
    apps = Apps()
    try:
        for kind, sc, cfgs in CORPUS:
            m = _measure(apps, kind, sc)
            _check_measure(ctx, kind, sc, m)
            for cfg in cfgs:
                _run_one(ctx, apps, kind, sc, m, cfg)
                if cfg["storage"] == "on":
                    _run_one(ctx, apps, kind, sc, m, {**cfg, "loopback": True})
        n_sc = ctx.budget(100, 1200)
        per = ctx.budget(12, 14)
        for i in range(n_sc):
            kind = ["unary", "exchange", "producer", "producer"][i % 4]
            sc = gen_scenario(rng, kind)
            m = _measure(apps, kind, sc)
            _check_measure(ctx, kind, sc, m)
            for j, cfg in enumerate(scenario_configs(rng, kind, m, per)):
                _run_one(ctx, apps, kind, sc, m, cfg)
                if j == 0 and cfg["storage"] == "on" and i % 3 == 0:
                    _run_one(ctx, apps, kind, sc, m, {**cfg, "loopback": True})
        ctx.note("scenarios", n_sc + len(CORPUS))
        flush(ctx)
        if ctx.tier == "thorough":
            ctx.note("exhaustive_cap_sweep_configs", sweep(ctx, apps))
            ctx.exhaustive = True
    finally:
        PENDING.clear()
        apps.close()
        _thaw(real_time)


def replay(ctx: Any, case: dict[str, Any]) -> None:
    real_time = _quiet_and_freeze()
    apps = Apps()
    try:
        kind, sc, cfg = case["kind"], case["scenario"], case["cfg"]
        sc = {k: v for k, v in sc.items() if not k.startswith("_")}
        m = _measure(apps, kind, sc)
        _check_measure(ctx, kind, sc, m)
        _run_one(ctx, apps, kind, sc, m, cfg)
        flush(ctx)
    finally:
        PENDING.clear()
        apps.close()
        _thaw(real_time)
