"""C03 — serializable dataclasses round-trip for every supported shape.

Dataclass *types* are generated from the documented field-annotation grammar (one JSON descriptor feeds the Lean driver,
``dataclasses.make_dataclass`` and the type-directed instance generator; harness/common/dcgen.py).

K (correspondence, model vs implementation):
    ARROW_SCHEMA vs `inferF`; `_to_row_dict()` vs `toRow`; `deserialize_from_bytes(serialize_to_bytes())` vs `roundtripBytes`
    (value or error class, also on ill-fitting instances); `deserialize_from_batch` on perturbed rows (legacy enum values,
    unknown names, duplicates in set/map columns, dropped columns) vs `fromBytes`; `_compact_plan` / `serialize_compact` /
    `deserialize_compact` vs the model with the msgpack shim and with the codec disabled; `_serialize_state_bytes` /
    `_resolve_state_cls` + `_deserialize_state_bytes` (single and union state_info) vs `serializeState` / `deserializeState`;
    float32 rounding of the Arrow environment vs `Py.round32`.
O (the property on the implementation, expected values computed in Python from the property text):
    a round trip returns the instance with transient fields at their defaults; what the compact codec accepts decodes to the
    same object as the Arrow encoding; a class with a non-flat field has no compact plan; state bytes round-trip; without
    msgpack `serialize_compact` answers None (also in a subprocess that never saw the shim).
"""

from __future__ import annotations

import json
import os
import subprocess
import sys
from typing import Any

from harness.common import dcgen, msgpack_shim
from harness.common.dcgen import s2j

PROPERTY = "C03"
LEAN_MODULES = ["VgiVerif.Proofs.C03"]
OBLIGATIONS = [
    "VgiVerif.C03.C03_roundtrip",
    "VgiVerif.C03.C03_roundtrip_exact",
    "VgiVerif.C03.C03_roundtrip_bytes",
    "VgiVerif.C03.C03_compact_agrees",
    "VgiVerif.C03.C03_compact_refuses_nonflat",
    "VgiVerif.C03.C03_compact_plan_iff_flat",
    "VgiVerif.C03.C03_no_msgpack",
    "VgiVerif.C03.C03_state_bytes",
    "VgiVerif.C03.C03_shapes",
]
EXTRACTORS = ["gen_c03"]
TRUSTED = [
    "pyarrow: typed-array conversion of a Python value and as_py() (struct / map / dictionary / list / binary / numeric widths), "
    "IPC stream framing, Schema / RecordBatch (de)serialisation — modelled as Py.arrowRT, exercised by every K case",
    "IEEE binary64->binary32 rounding of the Arrow float32 column (Py.round32; compared with CPython struct and pyarrow on every run)",
    "msgpack: harness/common/msgpack_shim.py stands in for the real library (packb/unpackb of nil/bool/int/float/str/bin/map/array); "
    "modelled as `unpack (pack m) = m` on flat rows",
    "CPython dataclasses / enum / frozenset / dict semantics (duplicate elimination by ==)",
    "serialization dispatches on runtime types; the model dispatches on the annotation (coincide on well-typed instances; "
    "branch order is extracted and pinned by C03_shapes)",
]
PARTIAL = [
    "Arrow's byte-level encoding and real msgpack are exercised / shimmed, not modelled",
    "instances whose runtime class differs from the annotated class (subclass instances), lone surrogates in str, "
    "_to_row_dict overrides, NewType and _ARROW_FIELD_OVERRIDES are outside the model",
    "ints in [2**63, 2**64) in an `int` field: the compact codec accepts them, Arrow refuses them (not an instance of the declared "
    "int64 column; reported as a note, not demanded)",
]
RULE = (
    "dataclass types generated from the annotation grammar (scalars, explicit int widths / float32, enums incl. value!=name, "
    "value==other member's name, str/int mixins, optional, list, frozenset, dict, nested dataclass as struct and as "
    "ArrowType(binary), pa.Schema, pa.RecordBatch, transient, defaults) up to nesting depth 3 (quick) / 4 (thorough), "
    "5 (10) type-directed boundary-biased instances each + ill-fitting instances + perturbed rows; hand-written corpus first; "
    "every instance through the Arrow bytes path, the compact codec (shim on / off) and the state-bytes path (single / union); "
    "a case is non-trivial when the class has at least one non-transient field; distinct by (descriptor, instance, path)"
)
MANIFEST = {
    "level": "proof",
    "text": "Lean theorems, by induction on the field annotation (unbounded depth): deser(arrow(ser v)) = v with transient fields "
            "at their defaults for every well-typed instance of every supported annotation; compact-decoded = Arrow-decoded; "
            "compact plan exists iff the class is flat; state bytes round-trip for single and union state_info. The model is "
            "tied to vgi_rpc/utils.py and _state_token.py by extraction of tables / shapes and by differential runs on generated "
            "dataclass types.",
    "note": "pyarrow conversion and msgpack are environment (modelled as laws, exercised by the runs); three defects found and "
            "repaired (set/dict element conversion; compact codec vs explicit ArrowType; None nested dataclass with an Enum field "
            "produced bytes that full IPC validation rejects).",
    "technique": "Lean 4 proof: mutual structural induction over the annotation grammar + correspondence on generated dataclasses",
}


# ------------------------------------------------------------------------------------------------ helpers


def _err_class(e: BaseException) -> str:
    import pyarrow as pa
    from vgi_rpc.utils import IPCError

    if isinstance(e, IPCError):
        return "ipc"
    if isinstance(e, OverflowError):
        return "overflow"
    if isinstance(e, KeyError):
        return "key"
    if isinstance(e, pa.ArrowTypeError) or (isinstance(e, TypeError) and not isinstance(e, pa.ArrowException)):
        return "type"
    if isinstance(e, (pa.ArrowInvalid, ValueError)):
        return "value"
    if isinstance(e, (OSError, pa.ArrowException)):
        return "ipc"
    if isinstance(e, RuntimeError):
        return "runtime"
    return type(e).__name__


def _err_detail(e: BaseException) -> str:
    return ":dictionary-child-of-null-struct" if "Dictionary indices invalid" in str(e) else ""


def _cls_arg(desc: dict[str, Any]) -> dict[str, Any]:
    return {"name": desc["name"], "fields": desc["fields"]}


def _render_type(t: Any) -> str:
    import pyarrow as pa

    if pa.types.is_dictionary(t):
        return f"dictionary<{t.index_type},{t.value_type}>"
    if pa.types.is_map(t):
        return f"map<{_render_type(t.key_type)},{_render_type(t.item_type)}>"
    if pa.types.is_list(t):
        return f"list<{_render_type(t.value_type)}>"
    if pa.types.is_struct(t):
        return "struct<" + ",".join(f"{t.field(i).name}:{_render_type(t.field(i).type)}" for i in range(t.num_fields)) + ">"
    return str(t)


def _render_schema(schema: Any) -> str:
    return "struct<" + ",".join(f"{f.name}:{_render_type(f.type)}" for f in schema) + ">"


def _flat(desc: dict[str, Any]) -> bool:
    """Flat class: every non-transient field is a scalar (possibly Optional). Scalars with an explicit Arrow width count as
    scalars here: whether the codec claims them is its own business (K compares the plan), what the property demands of
    them is that whatever is accepted decodes like Arrow."""
    for f in desc["fields"]:
        if f["transient"]:
            continue
        a = f["a"]
        if a["k"] == "opt":
            a = a["a"]
        if a["k"] not in dcgen.SCALARS + ["intw", "f32"]:
            return False
    return True


def _plain_flat(desc: dict[str, Any]) -> bool:
    return all(f["transient"] or (f["a"]["a"] if f["a"]["k"] == "opt" else f["a"])["k"] in dcgen.SCALARS for f in desc["fields"])


def _first_diff(node: dcgen.Node, a: Any, b: Any, path: str = "") -> str:
    """Annotation path of the first difference between two canonical JSON values (for a specific failure key)."""
    k = node.kind
    if a == b:
        return ""
    if k == "opt":
        return _first_diff(node.children[0], a, b, path)
    if isinstance(a, dict) and isinstance(b, dict):
        if k in ("dc", "dcbin") and "o" in a and "o" in b and len(a["o"][1]) == len(b["o"][1]):
            for (n1, x), (_n2, y), ch in zip(a["o"][1], b["o"][1], node.children):
                if x != y:
                    return _first_diff(ch, x, y, f"{path}{k}.")
        if k in ("list", "set"):
            key = "l" if k == "list" else "fs"
            if key in a and key in b and len(a[key]) == len(b[key]):
                for x, y in zip(a[key], b[key]):
                    if x != y:
                        return _first_diff(node.children[0], x, y, f"{path}{k}[")
        if k == "map" and "d" in a and "d" in b and len(a["d"]) == len(b["d"]):
            for (k1, v1), (k2, v2) in zip(a["d"], b["d"]):
                if k1 != k2:
                    return _first_diff(node.children[0], k1, k2, f"{path}map-key[")
                if v1 != v2:
                    return _first_diff(node.children[1], v1, v2, f"{path}map-val[")
    return f"{path}{k}"


class Q:
    """Deferred driver calls: one pipe round trip per class instead of one per call."""

    def __init__(self, ctx: Any) -> None:
        self.ctx = ctx
        self.items: list[tuple[str, Any, Any]] = []

    def add(self, method: str, args: Any, fn: Any) -> None:
        if self.ctx.driver is not None:
            self.items.append((method, args, fn))

    def flush(self) -> None:
        if not self.items or self.ctx.driver is None:
            self.items = []
            return
        items, self.items = self.items, []
        res = self.ctx.driver.batch([(m, a) for m, a, _ in items])
        for (_m, _a, fn), r in zip(items, res):
            fn(r)


class Built:
    """One generated class: the descriptor, the real type (plain and as a StreamState), lazily."""

    def __init__(self, desc: dict[str, Any]) -> None:
        self.desc = desc
        self.node = dcgen.build(desc)
        self._state: dcgen.Node | None = None
        self._other: dcgen.Node | None = None

    @property
    def cls(self) -> Any:
        return self.node.cls

    def state_node(self) -> dcgen.Node:
        from vgi_rpc.rpc import StreamState

        if self._state is None:
            ns = {"process": lambda self, input, out, ctx: None}
            self._state = dcgen.build(self.desc, base=StreamState, namespace=ns)
        return self._state

    def other_state_cls(self) -> tuple[Any, dict[str, Any]]:
        from vgi_rpc.rpc import StreamState

        if self._other is None:
            d = {"k": "dc", "name": s2j("OtherState"), "fields": [{"name": s2j("n"), "transient": False, "a": {"k": "int"}}]}
            self._other = dcgen.build(d, base=StreamState, namespace={"process": lambda self, input, out, ctx: None})
        return self._other.cls, self._other.desc


def _reset_compact_cache(cls: Any) -> None:
    if "_cached_compact_plan" in cls.__dict__:
        delattr(cls, "_cached_compact_plan")


# ------------------------------------------------------------------------------------------------ one instance


def check_instance(ctx: Any, q: Q, b: Built, jobj: Any, well_typed: bool, tags: tuple[str, ...] = ()) -> None:
    """All byte paths for one instance (given as JSON; rebuilt exactly the same way by replay)."""
    import vgi_rpc.utils as u
    from vgi_rpc.utils import deserialize_compact, serialize_compact

    node = b.node
    obj = dcgen.to_py(node, jobj)
    sent = dcgen.to_j_ordered(obj)  # what the model gets: the object as Python really holds it (sets in iteration order)
    case = {"path": "arrow", "cls": b.desc, "obj": jobj, "well_typed": well_typed}
    nontrivial = any(not f["transient"] for f in b.desc["fields"])
    ctx.case(case, nontrivial=nontrivial, tags=("path:arrow", "typed:" + ("yes" if well_typed else "ill-fitting")) + tags)
    clsarg = _cls_arg(b.desc)

    # ---- Arrow bytes path ------------------------------------------------------------------------
    ser_err = rt_err = None
    data = back = None
    try:
        data = obj.serialize_to_bytes()
    except Exception as e:  # noqa: BLE001
        ser_err = e
    if ser_err is None:
        try:
            back = b.cls.deserialize_from_bytes(data)
        except Exception as e:  # noqa: BLE001
            rt_err = e
    impl_rt = {"err": "reject"} if ser_err is not None else ({"err": _err_class(rt_err)} if rt_err is not None else {"ok": dcgen.to_j(back)})
    exp = dcgen.to_j(dcgen.expected(node, obj), strict=False) if well_typed else None
    if well_typed:
        if ser_err is not None or rt_err is not None:
            e = ser_err or rt_err
            ctx.fail(case, f"C03:roundtrip-error:{'serialize' if ser_err else 'deserialize'}:{type(e).__name__}{_err_detail(e)}",
                     f"a well-typed instance does not round-trip: {type(e).__name__}: {str(e)[:200]}")
        else:
            got = dcgen.to_j(back, strict=False)
            if got != exp:
                where = _first_diff(node, exp, got)
                ctx.fail(case, f"C03:roundtrip-differs:{where}", f"deserialize(serialize(x)) != x at {where}: sent {exp}, got {got}")
    try:
        impl_row: Any = {"ok": dcgen.canon_j(dcgen._struct_j(node, obj._to_row_dict()))}
    except Exception:  # noqa: BLE001
        impl_row = {"err": "reject"}
    impl_ser = None
    if data is not None:
        impl_ser = dcgen.canon_j(dcgen.wire_j(dcgen.Node(b.desc, "dcbin", None, node.children, node.cls, node.fields), data))

    def on_rt(m: Any) -> None:
        if not m["supported"] or (well_typed and not m["inhabits"]):
            ctx.mismatch(case, {"supported": m["supported"], "inhabits": m["inhabits"]}, {"well_typed": well_typed},
                         "generator produced a class / instance the model does not regard as supported / well-typed")
        model_rt = m["rt"]
        if "err" in m["ser"]:
            model_rt = {"err": "reject"}
        if dcgen.canon_j(model_rt) != impl_rt:
            ctx.mismatch(case, dcgen.canon_j(model_rt), impl_rt, "Arrow bytes round trip: model vs implementation")
        if impl_ser is not None and "ok" in m["ser"] and dcgen.canon_j(m["ser"]["ok"]) != impl_ser:
            ctx.mismatch(case, dcgen.canon_j(m["ser"]["ok"]), impl_ser, "serialize_to_bytes payload: model vs implementation")
        if well_typed and "ok" in m["rt"] and dcgen.canon_j(m["rt"]["ok"]) != dcgen.canon_j(m["norm"]):
            ctx.mismatch(case, m["rt"], m["norm"], "model round trip differs from the model's own norm (theorem C03_roundtrip_bytes)")

    def on_row(mrow: Any) -> None:
        mrow = {"err": "reject"} if "err" in mrow else dcgen.canon_j(mrow)
        if mrow != impl_row:
            ctx.mismatch(case, mrow, impl_row, "_to_row_dict: model vs implementation")

    q.add("C03.roundtrip", {"cls": clsarg, "obj": sent}, on_rt)
    q.add("C03.torow", {"cls": clsarg, "obj": sent}, on_row)

    # ---- compact codec, msgpack present (shim) -----------------------------------------------------
    for have in (True, False):
        prev = msgpack_shim.set_enabled(have)
        try:
            _reset_compact_cache(b.cls)
            ccase = {"path": "compact", "msgpack": have, "cls": b.desc, "obj": jobj, "well_typed": well_typed}
            ctx.case(ccase, nontrivial=nontrivial, tags=(f"path:compact:{'shim' if have else 'off'}",))
            plan = u._compact_plan(b.cls)
            flat = _flat(b.desc)
            if not have and plan is not None:
                ctx.fail(ccase, "C03:compact-plan-without-msgpack", "_compact_plan is not None although msgpack is unavailable")
            if have and not flat and plan is not None:
                kinds = sorted({f["a"]["k"] if f["a"]["k"] != "opt" else "opt-" + f["a"]["a"]["k"] for f in b.desc["fields"] if not f["transient"]})
                nonflat = [k for k in kinds if k.replace("opt-", "") not in dcgen.SCALARS + ["intw", "f32"]]
                ctx.fail(ccase, f"C03:compact-accepts-nonflat:{'+'.join(nonflat)}", f"_compact_plan claims a class with non-flat fields {nonflat}")
            if have and _plain_flat(b.desc) and plan is None:
                ctx.fail(ccase, "C03:compact-refuses-flat", "_compact_plan refuses a class whose fields are all plain (optional) scalars")
            enc_err = None
            enc = None
            try:
                enc = serialize_compact(obj)
            except Exception as e:  # noqa: BLE001
                enc_err = e
            if not have and (enc is not None or enc_err is not None):
                ctx.fail(ccase, "C03:compact-active-without-msgpack", f"serialize_compact returned {enc!r} / raised {enc_err!r} without msgpack")
            dec = dec_err = None
            if enc is not None:
                try:
                    dec = deserialize_compact(b.cls, enc)
                except Exception as e:  # noqa: BLE001
                    dec_err = e
                if well_typed and ser_err is None and rt_err is None:
                    if dec_err is not None:
                        ctx.fail(ccase, f"C03:compact-decode-error:{type(dec_err).__name__}", f"compact payload does not decode: {dec_err!r}")
                    elif dcgen.to_j(dec, strict=False) != dcgen.to_j(back, strict=False):
                        where = _first_diff(node, dcgen.to_j(back, strict=False), dcgen.to_j(dec, strict=False))
                        ctx.fail(ccase, f"C03:compact-differs-from-arrow:{where}",
                                 f"compact-decoded {dcgen.to_j(dec, False)} != Arrow-decoded {dcgen.to_j(back, False)}")
                elif ser_err is not None and dec_err is None:
                    ctx.tag("note:compact-accepts-what-arrow-refuses")
            if enc_err is not None:
                impl_enc: Any = {"err": _err_class(enc_err)}
            elif enc is None:
                impl_enc = {"ok": "none"}
            else:
                payload = msgpack_shim.unpackb(enc[1:], raw=False) if enc[:1] == u.COMPACT_MARKER else None
                impl_enc = {"ok": dcgen.canon_j({"pk": {"d": [[{"s": s2j(k)}, dcgen.to_j(v)] for k, v in payload.items()]}})
                            if isinstance(payload, dict) else {"y": enc.hex()}}
            impl_dec = None
            if enc is not None:
                impl_dec = {"err": _err_class(dec_err)} if dec_err is not None else {"ok": dcgen.to_j(dec)}

            def on_compact(m: Any, ccase: Any = ccase, plan: Any = plan, impl_enc: Any = impl_enc, impl_dec: Any = impl_dec) -> None:
                if m["plan"] != (plan is not None):
                    ctx.mismatch(ccase, {"plan": m["plan"]}, {"plan": plan is not None}, "_compact_plan: model vs implementation")
                if dcgen.canon_j(m["enc"]) != impl_enc:
                    ctx.mismatch(ccase, dcgen.canon_j(m["enc"]), impl_enc, "serialize_compact: model vs implementation")
                if impl_dec is not None and (m["dec"] is None or dcgen.canon_j(m["dec"]) != impl_dec):
                    ctx.mismatch(ccase, m["dec"], impl_dec, "deserialize_compact: model vs implementation")

            q.add("C03.compact", {"cls": clsarg, "obj": sent, "msgpack": have}, on_compact)
        finally:
            msgpack_shim.set_enabled(prev)
            _reset_compact_cache(b.cls)


def check_state(ctx: Any, q: Q, b: Built, jobj: Any, have: bool, union: bool) -> None:
    """`_serialize_state_bytes` -> `_resolve_state_cls` + `_deserialize_state_bytes` for a StreamState subclass of the same shape."""
    import struct as _struct

    import vgi_rpc.utils as u
    from vgi_rpc.http.server._state_token import _deserialize_state_bytes, _resolve_state_cls, _serialize_state_bytes
    from vgi_rpc.utils import IpcValidation

    snode = b.state_node()
    scls = snode.cls
    obj = dcgen.to_py(snode, jobj)
    sent = dcgen.to_j_ordered(obj)
    other_cls, other_desc = b.other_state_cls()
    pos = 1 if union else None
    info: Any = (other_cls, scls) if union else scls
    minfo = {"union": [_cls_arg(other_desc), _cls_arg(b.desc)]} if union else {"single": _cls_arg(b.desc)}
    case = {"path": "state", "msgpack": have, "union": union, "cls": b.desc, "obj": jobj}
    nontrivial = any(not f["transient"] for f in b.desc["fields"])
    ctx.case(case, nontrivial=nontrivial, tags=(f"path:state:{'union' if union else 'single'}:{'shim' if have else 'off'}",))
    prev = msgpack_shim.set_enabled(have)
    try:
        _reset_compact_cache(scls)
        _reset_compact_cache(other_cls)
        enc = dec = None
        enc_err = dec_err = None
        try:
            enc = _serialize_state_bytes(obj, info)
        except Exception as e:  # noqa: BLE001
            enc_err = e
        if enc is not None:
            try:
                rcls, raw = _resolve_state_cls(enc, info)
                dec = _deserialize_state_bytes(rcls, raw, IpcValidation.FULL)
            except Exception as e:  # noqa: BLE001
                dec_err = e
        exp = dcgen.to_j(dcgen.expected(snode, obj), strict=False)
        if enc_err is not None or dec_err is not None:
            e = enc_err or dec_err
            ctx.fail(case, f"C03:state-bytes-error:{type(e).__name__}{_err_detail(e)}", f"state bytes do not round-trip: {e!r}")
        else:
            if type(dec) is not scls:
                ctx.fail(case, "C03:state-bytes-wrong-class", f"decoded a {type(dec).__name__}, sent a {scls.__name__}")
            elif dcgen.to_j(dec, strict=False) != exp:
                where = _first_diff(snode, exp, dcgen.to_j(dec, strict=False))
                ctx.fail(case, f"C03:state-bytes-differ:{where}", f"decoded state {dcgen.to_j(dec, False)} != sent {exp}")
            # framing facts the docstring promises: union => \x00 + uint16 LE tag; single => marker of the inner codec
            inner = enc
            if union:
                if enc[:1] != b"\x00" or _struct.unpack("<H", enc[1:3])[0] != pos:
                    ctx.fail(case, "C03:state-bytes-union-framing", f"union envelope is {enc[:3]!r}, expected 00 + tag {pos}")
                inner = enc[3:]
            if inner[:1] not in (u.COMPACT_MARKER, b"\xff"):
                ctx.fail(case, "C03:state-bytes-unknown-marker", f"state payload starts with {inner[:1]!r}")
            if not have and inner[:1] == u.COMPACT_MARKER:
                ctx.fail(case, "C03:compact-active-without-msgpack", "compact state payload although msgpack is unavailable")
        if enc_err is not None:
            impl_enc: Any = {"err": _err_class(enc_err)}
        else:
            impl_enc = {"ok": _state_payload_j(snode, enc)}
        impl_dec = None
        if enc is not None:
            impl_dec = {"err": _err_class(dec_err)} if dec_err is not None else {"ok": dcgen.to_j(dec)}

        def on_state(m: Any) -> None:
            if dcgen.canon_j(m["enc"]) != dcgen.canon_j(impl_enc):
                ctx.mismatch(case, dcgen.canon_j(m["enc"]), impl_enc, "_serialize_state_bytes: model vs implementation")
            if impl_dec is not None and (m["dec"] is None or dcgen.canon_j(m["dec"]) != impl_dec):
                ctx.mismatch(case, m["dec"], impl_dec, "state decode: model vs implementation")

        q.add("C03.state", {"cls": _cls_arg(b.desc), "obj": sent, "msgpack": have, "info": minfo}, on_state)
    finally:
        msgpack_shim.set_enabled(prev)
        _reset_compact_cache(scls)
        _reset_compact_cache(other_cls)


def _state_payload_j(snode: dcgen.Node, enc: bytes) -> Any:
    import struct as _struct

    if enc[:1] == b"\x00":
        tag = _struct.unpack("<H", enc[1:3])[0]
        return {"tg": [tag, _state_payload_j(snode, enc[3:])]}
    if enc[:1] == b"\x01":
        payload = msgpack_shim.unpackb(enc[1:], raw=False)
        return dcgen.canon_j({"pk": {"d": [[{"s": s2j(k)}, dcgen.to_j(v)] for k, v in payload.items()]}})
    return dcgen.canon_j(dcgen.wire_j(dcgen.Node(snode.desc, "dcbin", None, snode.children, snode.cls, snode.fields), enc))


# ------------------------------------------------------------------------------------------------ repeated deserialization


def _mutable_ids(v: Any, out: dict[int, str], path: str = "") -> None:
    """ids of every list / dict reachable from a deserialized instance (through dataclass fields and containers)."""
    import dataclasses as _dc

    if isinstance(v, list):
        out[id(v)] = path + "list"
        for x in v:
            _mutable_ids(x, out, path + "[")
    elif isinstance(v, dict):
        out[id(v)] = path + "dict"
        for k, x in v.items():
            _mutable_ids(k, out, path + "{")
            _mutable_ids(x, out, path + "{")
    elif isinstance(v, (set, frozenset, tuple)):
        for x in v:
            _mutable_ids(x, out, path + "(")
    elif _dc.is_dataclass(v) and not isinstance(v, type):
        for f in _dc.fields(v):
            _mutable_ids(getattr(v, f.name), out, f"{path}{f.name}.")


def _mutate_in_place(node: dcgen.Node, v: Any, rng: Any) -> bool:
    """Use a value as scratch space: grow every list / dict reachable in it."""
    if v is None:
        return False
    k = node.kind
    if k == "opt":
        return _mutate_in_place(node.children[0], v, rng)
    if k == "list" and isinstance(v, list):
        v.append(dcgen.to_py(node.children[0], dcgen.gen_value(rng, node.children[0].desc, small=True)))
        return True
    if k == "map" and isinstance(v, dict):
        n0 = len(v)
        for _ in range(8):
            v[dcgen.to_py(node.children[0], dcgen.gen_value(rng, node.children[0].desc, small=True, hashable=True))] = dcgen.to_py(
                node.children[1], dcgen.gen_value(rng, node.children[1].desc, small=True))
            if len(v) != n0:
                return True
        return False
    if k in ("dc", "dcbin"):
        done = False
        for f, ch in zip(node.fields, node.children):
            done = _mutate_in_place(ch, getattr(v, dcgen.j2s(f["name"])), rng) or done
        return done
    return False


def _mutate_transients(node: dcgen.Node, v: Any, rng: Any) -> bool:
    """Mutate, in place, the transient fields (at any depth) of a deserialized instance."""
    if v is None:
        return False
    k = node.kind
    if k == "opt":
        return _mutate_transients(node.children[0], v, rng)
    if k == "list" and isinstance(v, list):
        return any([_mutate_transients(node.children[0], x, rng) for x in v])
    if k == "map" and isinstance(v, dict):
        return any([_mutate_transients(node.children[1], x, rng) for x in v.values()])
    if k in ("dc", "dcbin"):
        done = False
        for f, ch in zip(node.fields, node.children):
            val = getattr(v, dcgen.j2s(f["name"]))
            done = (_mutate_in_place(ch, val, rng) if f["transient"] else _mutate_transients(ch, val, rng)) or done
        return done
    return False


def check_repeat(ctx: Any, b: Built, jobj: Any, rng: Any) -> None:
    """The same bytes deserialized repeatedly, with the copies *used* in between: every copy is equal to the original (transient
    fields at their defaults) and no two copies share a mutable object — on the Arrow path, the compact path and the state path."""
    from vgi_rpc.http.server._state_token import _deserialize_state_bytes, _resolve_state_cls, _serialize_state_bytes
    from vgi_rpc.utils import IpcValidation, deserialize_compact, serialize_compact

    nontrivial = any(not f["transient"] for f in b.desc["fields"])
    paths: list[tuple[str, dcgen.Node, Any, Any]] = []
    try:
        node = b.node
        obj = dcgen.to_py(node, jobj)
        data = obj.serialize_to_bytes()
        paths.append(("arrow", node, obj, lambda: b.cls.deserialize_from_bytes(data)))
        enc = serialize_compact(obj)
        if enc is not None:
            paths.append(("compact", node, obj, lambda: deserialize_compact(b.cls, enc)))
        snode = b.state_node()
        sobj = dcgen.to_py(snode, jobj)
        sdata = _serialize_state_bytes(sobj, snode.cls)

        def from_state() -> Any:
            rcls, raw = _resolve_state_cls(sdata, snode.cls)
            return _deserialize_state_bytes(rcls, raw, IpcValidation.FULL)

        paths.append(("state", snode, sobj, from_state))
    except Exception:  # noqa: BLE001  (a failing single round trip is check_instance's business)
        return
    for name, nd, o, decode in paths:
        case = {"path": "repeat", "via": name, "cls": b.desc, "obj": jobj}
        ctx.case(case, nontrivial=nontrivial, tags=(f"path:repeat:{name}",))
        try:
            c1, c2 = decode(), decode()
            ids1: dict[int, str] = {}
            ids2: dict[int, str] = {}
            _mutable_ids(c1, ids1)
            _mutable_ids(c2, ids2)
            shared = sorted(ids1[i] for i in ids1.keys() & ids2.keys())
            if shared:
                ctx.fail(case, f"C03:deserialized-instances-share-mutable:{name}:{shared[0]}",
                         f"two instances deserialized from the same bytes share a mutable object at {shared}")
            mutated = _mutate_transients(nd, c1, rng)
            ctx.tag("repeat:mutated:" + ("yes" if mutated else "no"))
            c3 = decode()
            want = dcgen.to_j(dcgen.expected(nd, o), strict=False)
            got = dcgen.to_j(c3, strict=False)
            if got != want:
                where = _first_diff(nd, want, got)
                ctx.fail(case, f"C03:repeat-deserialize-differs:{name}:{where}",
                         f"after an earlier copy used its transient fields, deserializing the same bytes again gives {got}, expected {want}")
        except Exception as e:  # noqa: BLE001
            ctx.fail(case, f"C03:repeat-deserialize-error:{name}:{type(e).__name__}", f"repeated deserialization raised {e!r}")


# ------------------------------------------------------------------------------------------------ perturbed rows


def check_perturbed(ctx: Any, q: Q, b: Built, jobj: Any, rng: Any) -> None:
    """`deserialize_from_batch` on a row that no serializer of this tree produced (K only: the deserializer's branches)."""
    import pyarrow as pa

    node = b.node
    if ctx.driver is None or not node.children:
        return
    obj = dcgen.to_py(node, jobj)
    try:
        batch = obj._serialize()
    except Exception:  # noqa: BLE001
        return
    names = list(batch.schema.names)
    if not names:
        return
    row = {n: batch.column(i)[0].as_py() for i, n in enumerate(names)}
    by_name = {dcgen.j2s(f["name"]): (f, ch) for f, ch in zip(node.fields, node.children)}
    target = rng.choice(names)
    f, ch = by_name[target]
    inner = ch.children[0] if ch.kind == "opt" else ch
    mut = None
    v = row[target]
    if inner.kind == "enum" and isinstance(v, str):
        vals = [m[1] for m in inner.desc["members"] if m[1] is not None]
        choice = rng.choice(["value", "unknown", "nonstr"])
        if choice == "value" and vals:
            member = next((m for m in inner.desc["members"] if dcgen.j2s(m[0]) == v), None)
            if member is not None and member[1] is not None:
                row[target] = dcgen.j2s(member[1])
                mut = "enum-by-value"
        elif choice == "unknown":
            row[target] = "NO_SUCH_MEMBER"
            mut = "enum-unknown"
    elif inner.kind in ("set", "list") and isinstance(v, list) and v:
        row[target] = v + [v[0]]
        mut = f"{inner.kind}-duplicate"
    elif inner.kind == "map" and isinstance(v, list) and v:
        row[target] = v + [(v[0][0], v[-1][1])]
        mut = "map-duplicate-key"
    if mut is None:
        if rng.random() < 0.5:
            names.remove(target)
            mut = "drop-" + ("defaulted" if "default" in f else "required")
        else:
            return
    try:
        arrays = [pa.array([row[n]], type=batch.schema.field(n).type) for n in names]
        pb = pa.RecordBatch.from_arrays(arrays, schema=pa.schema([batch.schema.field(n) for n in names]))
    except Exception:  # noqa: BLE001
        return
    case = {"path": "perturbed", "cls": b.desc, "obj": jobj, "mutation": mut, "column": target}
    ctx.case(case, nontrivial=True, tags=("path:perturbed", f"mut:{mut}"))
    try:
        got: Any = {"ok": dcgen.to_j(b.cls.deserialize_from_batch(pb))}
    except Exception as e:  # noqa: BLE001
        got = {"err": _err_class(e)}
    prow = {n: pb.column(i)[0].as_py() for i, n in enumerate(pb.schema.names)}
    data = {"ipc": dcgen._struct_j(node, prow)}

    def on_pert(m: Any) -> None:
        if dcgen.canon_j(m) != got:
            ctx.mismatch(case, dcgen.canon_j(m), got, f"deserialize_from_batch on a perturbed row ({mut}): model vs implementation")

    q.add("C03.frombytes", {"cls": _cls_arg(b.desc), "data": data}, on_pert)


# ------------------------------------------------------------------------------------------------ ill-fitting instances


def perturb_instance(rng: Any, desc: dict[str, Any], jobj: Any) -> tuple[Any, str] | None:
    """One field of a well-typed instance replaced by a value the declared Arrow type cannot hold."""
    fields = [(i, f) for i, f in enumerate(desc["fields"]) if not f["transient"]]
    rng.shuffle(fields)
    for i, f in fields:
        a = f["a"]
        opt = a["k"] == "opt"
        if opt:
            a = a["a"]
        new = None
        what = ""
        if a["k"] == "int":
            new, what = {"i": rng.choice([2**63, -(2**63) - 1, 2**64, 2**64 - 1])}, "int64-overflow"
        elif a["k"] == "intw":
            _t, lo, hi = dcgen.INT_WIDTHS[a["w"]]
            new, what = {"i": rng.choice([lo - 1, hi + 1])}, f"{a['w']}-overflow"
        elif not opt and rng.random() < 0.3:
            new, what = None, f"none-in-{a['k']}"
        else:
            continue
        out = json.loads(json.dumps(jobj))
        out["o"][1][i][1] = new
        return out, what
    return None


# ------------------------------------------------------------------------------------------------ corpus

_S = lambda s: s2j(s)  # noqa: E731


def _f(name: str, a: dict[str, Any], **kw: Any) -> dict[str, Any]:
    return {"name": _S(name), "transient": kw.get("transient", False), "a": a, **({"default": kw["default"]} if "default" in kw else {})}


def _c(name: str, *fields: dict[str, Any]) -> dict[str, Any]:
    return {"k": "dc", "name": _S(name), "fields": list(fields)}


def corpus() -> list[tuple[dict[str, Any], list[Any]]]:
    color = {"k": "enum", "members": [[_S("RED"), _S("red")], [_S("GREEN"), _S("RED")]]}
    inner = _c("Inner", _f("x", {"k": "int"}))
    out = []
    # DESIGN §7.1: D(s: frozenset[Color], m: dict[str, Inner])
    d = _c("D", _f("s", {"k": "set", "a": color}), _f("m", {"k": "map", "key": {"k": "str"}, "val": inner}))
    out.append((d, [{"o": [_S("D"), [[_S("s"), {"fs": [{"e": _S("RED")}]}], [_S("m"), {"d": [[{"s": _S("a")}, {"o": [_S("Inner"), [[_S("x"), {"i": 1}]]]}]]}]]]},
                    {"o": [_S("D"), [[_S("s"), {"fs": [{"e": _S("GREEN")}, {"e": _S("RED")}]}], [_S("m"), {"d": []}]]]}]))
    # nested containers below a set / map
    d2 = _c("D2", _f("ss", {"k": "set", "a": {"k": "set", "a": {"k": "int"}}}),
            _f("mm", {"k": "map", "key": color, "val": {"k": "map", "key": {"k": "int"}, "val": {"k": "list", "a": color}}}),
            _f("ks", {"k": "map", "key": _c("K", _f("a", {"k": "str"}), _f("b", {"k": "opt", "a": {"k": "bytes"}})), "val": {"k": "opt", "a": {"k": "float"}}}))
    out.append((d2, [{"o": [_S("D2"), [[_S("ss"), {"fs": [{"fs": [{"i": 1}, {"i": 2}]}, {"fs": []}]}],
                                       [_S("mm"), {"d": [[{"e": _S("GREEN")}, {"d": [[{"i": -1}, {"l": [{"e": _S("RED")}, {"e": _S("RED")}]}]]}]]}],
                                       [_S("ks"), {"d": [[{"o": [_S("K"), [[_S("a"), {"s": _S("é")}], [_S("b"), None]]]}, {"f": 0x7FF8000000000000}],
                                                         [{"o": [_S("K"), [[_S("a"), {"s": _S("")}], [_S("b"), {"y": "00ff"}]]]}, None]]}]]]}]))
    # explicit Arrow widths: the compact codec must not claim them
    d3 = _c("F32", _f("a", {"k": "f32"}), _f("b", {"k": "int"}), _f("c", {"k": "opt", "a": {"k": "bytes"}}), _f("t", {"k": "int"}, transient=True, default={"i": 7}))
    out.append((d3, [{"o": [_S("F32"), [[_S("a"), {"f": 0x3FB999999999999A}], [_S("b"), {"i": 2**62}], [_S("c"), None], [_S("t"), {"i": 9}]]]},
                     {"o": [_S("F32"), [[_S("a"), {"f": dcgen.round32_bits(0x3FB999999999999A)}], [_S("b"), {"i": 0}], [_S("c"), None], [_S("t"), {"i": 7}]]]},
                     {"o": [_S("F32"), [[_S("a"), {"f": 0x7FF0000000000000}], [_S("b"), {"i": -(2**63)}], [_S("c"), {"y": ""}], [_S("t"), {"i": 7}]]]}]))
    d4 = _c("W", _f("i8", {"k": "intw", "w": "int8"}), _f("u64", {"k": "intw", "w": "uint64"}), _f("o", {"k": "opt", "a": {"k": "intw", "w": "uint16"}}))
    out.append((d4, [{"o": [_S("W"), [[_S("i8"), {"i": -128}], [_S("u64"), {"i": 2**64 - 1}], [_S("o"), None]]]},
                     {"o": [_S("W"), [[_S("i8"), {"i": 127}], [_S("u64"), {"i": 0}], [_S("o"), {"i": 65535}]]]}]))
    # flat state-like class: compact path, all scalar kinds, optional positions
    d5 = _c("Flat", _f("s", {"k": "str"}), _f("y", {"k": "bytes"}), _f("i", {"k": "int"}), _f("f", {"k": "float"}), _f("b", {"k": "bool"}),
            _f("os", {"k": "opt", "a": {"k": "str"}}, default=None), _f("cache", {"k": "list", "a": {"k": "int"}}, transient=True, default={"l": []}))
    out.append((d5, [{"o": [_S("Flat"), [[_S("s"), {"s": _S("日本😀")}], [_S("y"), {"y": "00ff01"}], [_S("i"), {"i": -(2**63)}], [_S("f"), {"f": 1 << 63}], [_S("b"), {"b": True}],
                                         [_S("os"), None], [_S("cache"), {"l": [{"i": 1}]}]]]},
                     {"o": [_S("Flat"), [[_S("s"), {"s": []}], [_S("y"), {"y": ""}], [_S("i"), {"i": 2**63 - 1}], [_S("f"), {"f": 0x7FF8000000000001}], [_S("b"), {"b": False}],
                                         [_S("os"), {"s": _S("x")}], [_S("cache"), {"l": []}]]]}]))
    # binary-encoded nested dataclass, Arrow objects, empty class, all-transient class
    empty = _c("Empty")
    d6 = _c("G", _f("e", empty), _f("eo", {"k": "opt", "a": empty}), _f("le", {"k": "list", "a": inner}),
            _f("x", {"k": "dcbin", "name": _S("InnerB"), "fields": inner["fields"]}),
            _f("xo", {"k": "opt", "a": {"k": "dcbin", "name": _S("InnerC"), "fields": inner["fields"]}}),
            _f("sc", {"k": "schema"}), _f("so", {"k": "opt", "a": {"k": "schema"}}), _f("ls", {"k": "list", "a": {"k": "schema"}}), _f("rb", {"k": "batch"}))
    out.append((d6, [{"o": [_S("G"), [[_S("e"), {"o": [_S("Empty"), []]}], [_S("eo"), None], [_S("le"), {"l": [{"o": [_S("Inner"), [[_S("x"), {"i": 2}]]]}]}],
                                      [_S("x"), {"o": [_S("InnerB"), [[_S("x"), {"i": 3}]]]}], [_S("xo"), None], [_S("sc"), {"ao": [0, 1]}], [_S("so"), None],
                                      [_S("ls"), {"l": [{"ao": [0, 0]}, {"ao": [0, 2]}]}], [_S("rb"), {"ao": [1, 2]}]]]},
                     {"o": [_S("G"), [[_S("e"), {"o": [_S("Empty"), []]}], [_S("eo"), {"o": [_S("Empty"), []]}], [_S("le"), {"l": []}],
                                      [_S("x"), {"o": [_S("InnerB"), [[_S("x"), {"i": -1}]]]}], [_S("xo"), {"o": [_S("InnerC"), [[_S("x"), {"i": 0}]]]}],
                                      [_S("sc"), {"ao": [0, 0]}], [_S("so"), {"ao": [0, 3]}], [_S("ls"), {"l": []}], [_S("rb"), {"ao": [1, 3]}]]]}]))
    # a None nested dataclass that holds an Enum, inside a struct / list / map (pyarrow fills a null struct's dictionary child with
    # an index into an empty dictionary: full IPC validation used to reject the framework's own bytes)
    innere = _c("InnerE", _f("c", color))
    outer = _c("OuterE", _f("inner", {"k": "opt", "a": innere}))
    d8 = _c("NullStruct", _f("o", outer), _f("l", {"k": "list", "a": {"k": "opt", "a": innere}}),
            _f("m", {"k": "map", "key": {"k": "str"}, "val": {"k": "opt", "a": innere}}))
    out.append((d8, [{"o": [_S("NullStruct"), [[_S("o"), {"o": [_S("OuterE"), [[_S("inner"), None]]]}], [_S("l"), {"l": [None]}],
                                               [_S("m"), {"d": [[{"s": _S("a")}, None]]}]]]},
                     {"o": [_S("NullStruct"), [[_S("o"), {"o": [_S("OuterE"), [[_S("inner"), {"o": [_S("InnerE"), [[_S("c"), {"e": _S("GREEN")}]]]}]]]}],
                                               [_S("l"), {"l": [None, {"o": [_S("InnerE"), [[_S("c"), {"e": _S("RED")}]]]}]}], [_S("m"), {"d": []}]]]}]))
    # scratch space: transient mutable containers built by default_factory, top level and inside a nested dataclass
    seen_inner = _c("SeenInner", _f("n", {"k": "int"}), _f("seen", {"k": "list", "a": {"k": "int"}}, transient=True, default={"l": []}))
    d9 = _c("Doc", _f("name", {"k": "str"}), _f("inner", seen_inner),
            _f("cache", {"k": "map", "key": {"k": "str"}, "val": {"k": "int"}}, transient=True, default={"d": []}),
            _f("work", _c("Work", _f("items", {"k": "list", "a": {"k": "str"}})), transient=True,
               default={"o": [_S("Work"), [[_S("items"), {"l": []}]]]}))
    out.append((d9, [{"o": [_S("Doc"), [[_S("name"), {"s": _S("a")}], [_S("inner"), {"o": [_S("SeenInner"), [[_S("n"), {"i": 1}], [_S("seen"), {"l": []}]]]}],
                                        [_S("cache"), {"d": []}], [_S("work"), {"o": [_S("Work"), [[_S("items"), {"l": []}]]]}]]]}]))
    # the `Annotated[X | None, ArrowType(pa.binary())]` field (declared not-null, holds None) inside a map value / list element,
    # in a column that also has an Enum below a struct (built dictionary-free and cast: the cast refuses nulls under non-nullable
    # children), alone and together with a None Enum-bearing struct
    binopt = {"k": "opt", "a": {"k": "dcbin", "name": _S("BinB"), "fields": inner["fields"]}}
    v2 = _c("V2", _f("c", binopt))
    kenum = _c("KEnum", _f("e", color))
    d10 = _c("CastNulls", _f("m", {"k": "map", "key": kenum, "val": v2}),
             _f("x", _c("Outer2", _f("o", {"k": "opt", "a": innere}), _f("v", {"k": "list", "a": v2}))))
    v2n = {"o": [_S("V2"), [[_S("c"), None]]]}
    v2b = {"o": [_S("V2"), [[_S("c"), {"o": [_S("BinB"), [[_S("x"), {"i": 1}]]]}]]]}
    ke = {"o": [_S("KEnum"), [[_S("e"), {"e": _S("RED")}]]]}
    out.append((d10, [{"o": [_S("CastNulls"), [[_S("m"), {"d": [[ke, v2n]]}], [_S("x"), {"o": [_S("Outer2"), [[_S("o"), None], [_S("v"), {"l": [v2n]}]]]}]]]},
                      {"o": [_S("CastNulls"), [[_S("m"), {"d": [[ke, v2b]]}], [_S("x"), {"o": [_S("Outer2"), [[_S("o"), {"o": [_S("InnerE"), [[_S("c"), {"e": _S("GREEN")}]]]}],
                                                                                                           [_S("v"), {"l": [v2n, v2b]}]]]}]]]},
                      {"o": [_S("CastNulls"), [[_S("m"), {"d": []}], [_S("x"), {"o": [_S("Outer2"), [[_S("o"), None], [_S("v"), {"l": []}]]]}]]]}]))
    d7 = _c("AllT", _f("t", {"k": "int"}, transient=True, default={"i": 7}))
    out.append((d7, [{"o": [_S("AllT"), [[_S("t"), {"i": 5}]]]}]))
    out.append((empty, [{"o": [_S("Empty"), []]}]))
    return out


# ------------------------------------------------------------------------------------------------ float32 environment


def check_round32(ctx: Any) -> None:
    import pyarrow as pa

    if ctx.driver is None:
        return
    rng = ctx.rng
    vals = list(dcgen.FLOAT_BITS) + [0x47EFFFFFEFFFFFFF, 0x47EFFFFFF0000000, 0x47F0000000000000, 0x3690000000000000, 0x3690000000000001,
                                     0x36A8000000000000, 0x380FFFFFFFFFFFFF, 0x380FFFFFF0000000, 0x3FF0000010000000, 0x3FF0000030000000,
                                     0x3FF0000010000001, 0x7FF0000000000001, 0xFFF4000000000000]
    for _ in range(ctx.budget(1500, 40000)):
        e = rng.choice([rng.randrange(860, 910), rng.randrange(1140, 1160), rng.randrange(0, 2048), 1023])
        m = rng.choice([rng.getrandbits(52), rng.getrandbits(23) << 29, (rng.getrandbits(23) << 29) + (1 << 28),
                        (rng.getrandbits(23) << 29) + (1 << 28) + rng.choice([1, -1]), (1 << 52) - 1, 0])
        vals.append((rng.getrandbits(1) << 63) | (e << 52) | (m & ((1 << 52) - 1)))
    arr = pa.array([dcgen.bits2f(b) for b in vals], type=pa.float32())
    res = ctx.driver.batch([("C03.round32", {"bits": b}) for b in vals])
    back = ctx.driver.batch([("C03.round32", {"bits": r}) for r in res])
    for b, r, r2, cell in zip(vals, res, back, arr):
        got = dcgen.f2bits(cell.as_py())
        case = {"path": "round32", "bits": b}
        ctx.case(case, nontrivial=True, tags=("path:round32",))
        if got != r:
            ctx.mismatch(case, r, got, "float32 column: Py.round32 vs pyarrow")
        if r2 != r:
            ctx.mismatch(case, r2, r, "environment law round32 (round32 b) = round32 b fails for the concrete environment")


# ------------------------------------------------------------------------------------------------ no-shim subprocess


def _noshim_worker() -> None:
    """Runs in a fresh interpreter that never saw the shim: msgpack really absent."""
    sys.path.insert(0, os.environ.get("VERIF_REPO", "/repo"))
    import importlib.util

    cases = json.loads(sys.stdin.read())
    out = []
    real_absent = importlib.util.find_spec("msgpack") is None
    import vgi_rpc.utils as u
    from vgi_rpc.http.server._state_token import _deserialize_state_bytes, _resolve_state_cls, _serialize_state_bytes
    from vgi_rpc.rpc import StreamState
    from vgi_rpc.utils import IpcValidation, serialize_compact

    for desc, objs in cases:
        node = dcgen.build(desc, base=StreamState, namespace={"process": lambda self, input, out, ctx: None})
        for jobj in objs:
            obj = dcgen.to_py(node, jobj)
            rec: dict[str, Any] = {"have": bool(u._HAVE_MSGPACK), "real_absent": real_absent}
            try:
                rec["compact"] = serialize_compact(obj) is not None
                enc = _serialize_state_bytes(obj, node.cls)
                rcls, raw = _resolve_state_cls(enc, node.cls)
                dec = _deserialize_state_bytes(rcls, raw, IpcValidation.FULL)
                rec["first"] = enc[:1].hex()
                rec["equal"] = dcgen.to_j(dec, strict=False) == dcgen.to_j(dcgen.expected(node, obj), strict=False)
            except Exception as e:  # noqa: BLE001
                rec["error"] = repr(e)
            out.append(rec)
    print(json.dumps(out))


def check_noshim(ctx: Any, cases: list[tuple[dict[str, Any], list[Any]]]) -> None:
    verif = os.path.dirname(os.path.dirname(os.path.abspath(__file__)))
    env = dict(os.environ)
    env["PYTHONPATH"] = verif
    env["PYTHONDONTWRITEBYTECODE"] = "1"
    p = subprocess.run([sys.executable, "-m", "harness.c03", "--noshim-worker"], input=json.dumps(cases), capture_output=True, text=True,
                       cwd=verif, env=env, timeout=300)
    lines = [ln for ln in p.stdout.splitlines() if ln.startswith("[")]
    if p.returncode != 0 or not lines:
        raise RuntimeError(f"no-shim worker failed: rc={p.returncode} {p.stderr[-1500:]}")
    recs = json.loads(lines[-1])
    flat = [(d, o) for d, objs in cases for o in objs]
    for (desc, jobj), rec in zip(flat, recs):
        case = {"path": "noshim-subprocess", "cls": desc, "obj": jobj}
        ctx.case(case, nontrivial=True, tags=("path:noshim-subprocess",))
        if rec.get("have") or not rec.get("real_absent"):
            ctx.note("noshim_subprocess", "msgpack importable in the subprocess: real library present, shim not needed")
            continue
        if "error" in rec:
            ctx.fail(case, "C03:state-bytes-error:no-msgpack", f"without msgpack the state path raised {rec['error']}")
        elif rec["compact"] or rec["first"] != "ff":
            ctx.fail(case, "C03:compact-active-without-msgpack", f"without msgpack: compact={rec['compact']} first byte {rec['first']}")
        elif not rec["equal"]:
            ctx.fail(case, "C03:state-bytes-differ:no-msgpack", "without msgpack the Arrow-encoded state does not round-trip")


# ------------------------------------------------------------------------------------------------ run / replay


def _run_class(ctx: Any, desc: dict[str, Any], objs: list[Any], origin: str) -> None:
    rng = ctx.rng
    try:
        b = Built(desc)
        schema = b.cls.ARROW_SCHEMA
    except Exception as e:  # noqa: BLE001
        case = {"path": "schema", "cls": desc}
        ctx.case(case, tags=("path:schema",))
        ctx.fail(case, f"C03:schema-generation-error:{type(e).__name__}", f"a class of the supported grammar has no ARROW_SCHEMA: {e!r}")
        return
    tags = tuple(sorted(set(dcgen.shape_tags(desc)))) + (f"origin:{origin}", f"depth:{dcgen.depth_of(desc)}",
                                                         "transient:" + ("yes" if dcgen.has_transient(desc) else "no"))
    q = Q(ctx)
    rendered = _render_schema(schema)

    def on_schema(ms: Any) -> None:
        if ms != rendered:
            case = {"path": "schema", "cls": desc}
            ctx.case(case, tags=("path:schema",))
            ctx.mismatch(case, ms, rendered, "ARROW_SCHEMA: model vs implementation")

    q.add("C03.schema", {"cls": _cls_arg(desc)}, on_schema)
    for idx, jobj in enumerate(objs):
        check_instance(ctx, q, b, jobj, True, tags if idx == 0 else ())
        if idx < 2:
            for union in (False, True):
                for have in (True, False):
                    check_state(ctx, q, b, jobj, have, union)
        check_perturbed(ctx, q, b, jobj, rng)
        if idx < 2 and dcgen.has_transient(desc):
            check_repeat(ctx, b, jobj, rng)
        if idx == 0:
            pj = perturb_instance(rng, desc, jobj)
            if pj is not None:
                check_instance(ctx, q, b, pj[0], False, (f"ill:{pj[1]}",))
    q.flush()


def gen_cast_mix(rng: Any) -> dict[str, Any]:
    """A class whose one column combines what the serializer's two build strategies are sensitive to: an Enum below a struct,
    Optional nested dataclasses (struct and binary-marked) that may be None, inside lists / maps / nested structs."""
    enum = dcgen.gen_enum(rng)
    leaf = dcgen.gen_cls(rng, 0, nfields=rng.choice([1, 2]))
    binopt = {"k": "opt", "a": {**dcgen.gen_cls(rng, 0, nfields=1), "k": "dcbin"}}
    with_enum = {"k": "dc", "name": s2j(f"ME{rng.getrandbits(30)}"), "fields": [
        {"name": s2j("e"), "transient": False, "a": rng.choice([enum, {"k": "opt", "a": enum}])}]}
    with_bin = {"k": "dc", "name": s2j(f"MB{rng.getrandbits(30)}"), "fields": [
        {"name": s2j("c"), "transient": False, "a": binopt},
        {"name": s2j("n"), "transient": False, "a": {"k": rng.choice(["int", "str"])}}]}
    parts = [with_enum, {"k": "opt", "a": with_enum}, with_bin, {"k": "opt", "a": with_bin}, leaf]

    def container(inner_ann: dict[str, Any]) -> dict[str, Any]:
        r = rng.random()
        if r < 0.35:
            return {"k": "list", "a": inner_ann}
        if r < 0.7:
            key = with_enum if rng.random() < 0.4 else {"k": rng.choice(["str", "int"])}
            return {"k": "map", "key": key, "val": inner_ann}
        return inner_ann

    fields = []
    for nm in rng.sample(["a", "b", "c", "x", "y"], rng.choice([2, 3, 4])):
        fields.append({"name": s2j(nm), "transient": False, "a": container(rng.choice(parts))})
    mixed = {"k": "dc", "name": s2j(f"MX{rng.getrandbits(30)}"), "fields": fields}
    # everything in ONE column: the mixed class as a nested field
    return {"k": "dc", "name": s2j(f"MixTop{rng.getrandbits(30)}"), "fields": [
        {"name": s2j("x"), "transient": False, "a": rng.choice([mixed, {"k": "list", "a": mixed}])}]}


def run(ctx: Any) -> None:
    msgpack_shim.install()
    import vgi_rpc.utils as u

    ctx.note("msgpack", "shim" if getattr(sys.modules.get("msgpack"), "__verif_shim__", False) else "real")
    if not u._HAVE_MSGPACK:
        msgpack_shim.set_enabled(True)
    rng = ctx.rng
    check_round32(ctx)
    corp = corpus()
    for desc, objs in corp:
        _run_class(ctx, desc, objs, "corpus")
    n_types = ctx.budget(400, 5000)
    n_inst = 5 if ctx.tier == "quick" else 10
    max_depth = 3 if ctx.tier == "quick" and not ctx.deep else 4
    sample_for_noshim: list[tuple[dict[str, Any], list[Any]]] = [(d, o[:1]) for d, o in corp]
    for i in range(n_types):
        depth = rng.choice(list(range(0, max_depth + 1)))
        if i % 5 == 0:
            desc = dcgen.gen_cls(rng, 0, flat=True, nfields=rng.choice([1, 2, 3, 5]))
        elif i % 10 == 3:
            desc = gen_cast_mix(rng)
        else:
            desc = dcgen.gen_cls(rng, depth)
        objs = [dcgen.gen_value(rng, desc) for _ in range(n_inst)]
        _run_class(ctx, desc, objs, "generated")
        if i % 40 == 0:
            sample_for_noshim.append((desc, objs[:1]))
        if i % 50 == 0 and ctx.elapsed() > (50 if ctx.tier == "quick" else 800):
            ctx.note("stopped_early_at_type", i)
            break
    check_noshim(ctx, sample_for_noshim)


def replay(ctx: Any, case: dict[str, Any]) -> None:
    msgpack_shim.install()
    import vgi_rpc.utils as u

    if not u._HAVE_MSGPACK:
        msgpack_shim.set_enabled(True)
    path = case.get("path")
    if path == "round32":
        check_round32(ctx)
        return
    if path == "schema":
        _run_class(ctx, case["cls"], [], "replay")
        return
    b = Built(case["cls"])
    q = Q(ctx)
    if path in ("arrow", "compact"):
        check_instance(ctx, q, b, case["obj"], case.get("well_typed", True))
    elif path == "state":
        check_state(ctx, q, b, case["obj"], case["msgpack"], case["union"])
    elif path == "perturbed":
        for seed in range(64):
            import random

            check_perturbed(ctx, q, b, case["obj"], random.Random(seed))
    elif path == "noshim-subprocess":
        check_noshim(ctx, [(case["cls"], [case["obj"]])])
    elif path == "repeat":
        import random

        check_repeat(ctx, b, case["obj"], random.Random(0))
    q.flush()


if __name__ == "__main__" and "--noshim-worker" in sys.argv:
    _noshim_worker()
